import PlasVerif.Model.MathSource
import PlasVerif.Spec.MathFormula
/-!
Model of what the parser builds for a formula of the C11 grammar (consumes the Spec grammar,
produces the DOM of `Model/MathSource.lean`): which macro takes which arguments, and the
`argSource` string `Macro.parse` records while reading them
(`readArgumentAndSource` → `readToken(expanded=True)` / `readGrouping('[]', expanded=True)`).

* `^`, `_` : `SuperScript` / `SubScript`, `args = 'self'` (Base/TeX/Primitives.py);
* one-argument commands (`\sqrt`, `\mathrm`, `\overline`, `\hat`, `\left`, `\right`, `\mbox`, `\text`, …): one
  expanded argument; `\frac`: `args = 'numer denom'`; `\sqrt[..]`: `args = '[ n ] self'`;
* argument-less commands and control symbols: empty `argSource`;
* `array`: `args = '[ pos:str ] colspec:nox'`; rows and cells are transparent for `source`
  (`Array.source` concatenates the cells' children and the `&` / `\\` end tokens), so the model keeps the
  body as one sibling list.
This tie is carried by the `msrc` correspondence stream.
-/
namespace PlasVerif.Model.MathParse
open PlasVerif.Model.MathSource PlasVerif.Spec.MathFormula

def mathTree : F → Dom
  | .nil => .nil
  | .ch c r => .chr c (mathTree r)
  | .sp r => .blank (mathTree r)
  | .sym n r => .macro n [] .nil (mathTree r)
  | .csym c r => .macro [c] [] .nil (mathTree r)
  | .grp b r => .bgroup (mathTree b) (mathTree r)
  | .sup br a r => .active 94 (argSource br (mathTree a)) (mathTree r)
  | .sub br a r => .active 95 (argSource br (mathTree a)) (mathTree r)
  | .cmd1 n br a r => .macro n (argSource br (mathTree a)) .nil (mathTree r)
  | .cmd2 n b1 a1 b2 a2 r => .macro n (argSource b1 (mathTree a1) ++ argSource b2 (mathTree a2)) .nil (mathTree r)
  | .root o br a r => .macro strSqrt (optSource (mathTree o) ++ argSource br (mathTree a)) .nil (mathTree r)
  | .math b r => .math (mathTree b) (mathTree r)
  | .arr spec b r => .env strArray (123 :: spec ++ [125]) (mathTree b) (mathTree r)
  | .amp r => .active 38 [] (mathTree r)

/-- the node of the whole formula -/
def top : Kind → F → Dom
  | .inline, f => .math (mathTree f) .nil
  | .display, f => .displaymath (mathTree f) .nil
  | .equation, f => .env strEquation [] (mathTree f) .nil

end PlasVerif.Model.MathParse
