/-!
Model of `TeX.processIfContent` (plasTeX/TeX.py) and of the part of the expansion loop that
matters for conditionals.

Transcribed from the code as written (after the `fix:` commit for D2):

```
elsefound = False
if isinstance(which, bool): which = 0 if which else 1
cases = [[]]; nesting = 0; correctly_terminated = False
for t in self.itertokens():
    name = getattr(t, 'macroName', '') or ''
    if name == 'newif':            cases[-1].append(t); cases[-1].append(next(iterator)); continue
    elif name.startswith('if'):    cases[-1].append(t); nesting += 1
    elif name == 'fi':
        if not nesting:            correctly_terminated = True; break
        cases[-1].append(t); nesting -= 1
    elif not nesting and name == 'else':  cases.append([]); elsefound = True; continue
    elif not nesting and name == 'or':    cases.append([]); continue
    else:                          cases[-1].append(t)
if not elsefound: cases.append([])          # else case for ifs without elses
if not 0 <= which < len(cases): which = len(cases) - 1
self.pushTokens(cases[which])
```

Tokens are abstracted to what the loop distinguishes: the `macroName` class of the token.
`ifl t` is *any* token whose name starts with `if` (observation O4); its payload `t` is
whatever identifies the test (the skipper never looks at it).  `other a` is every other
token.  The input stream (`itertokens()` over the input stack, pushed-back tokens first)
is a `List`; `pushTokens` is `++` in front of it.
-/
namespace PlasVerif.Model.IfScan

inductive Tok (τ α : Type) where
  | ifl (t : τ)
  | fi | else_ | or_ | newif
  | other (a : α)
  deriving DecidableEq, Repr

/-- Python exceptions that can escape -/
inductive Err where
  | stopIteration   -- `next(iterator)` after a `\newif` that is the last token of the input
  | indexError      -- `cases[which]` out of range (pinned code only)
  | valueError      -- `"?" is not a valid relation` raised by `\ifnum`/`\ifdim`
  deriving DecidableEq, Repr

/-- the `which` argument: a Python `bool` or an integer -/
inductive Which where
  | bool (b : Bool)
  | case (n : Int)
  deriving DecidableEq, Repr

/-- `if isinstance(which, bool): which = 0 if which else 1` -/
def Which.index : Which → Int
  | .bool true => 0
  | .bool false => 1
  | .case n => n

variable {τ α : Type}

structure Scan (τ α : Type) where
  cases : List (List (Tok τ α))   -- `cases` when the loop ends
  rest : List (Tok τ α)           -- what is left on the input
  terminated : Bool               -- `correctly_terminated`
  elsefound : Bool
  deriving Repr

/-- The `for t in iterator` loop.  `done ++ [cur]` is the Python list `cases`
    (`cur` = `cases[-1]`), `n` = `nesting`, `ef` = `elsefound`. -/
def scan : List (Tok τ α) → Nat → List (List (Tok τ α)) → List (Tok τ α) → Bool → Except Err (Scan τ α)
  | [], _, done, cur, ef => .ok ⟨done ++ [cur], [], false, ef⟩
  | [.newif], _, _, _, _ => .error .stopIteration
  | .newif :: t :: ts, n, done, cur, ef => scan ts n done (cur ++ [.newif, t]) ef
  | .ifl t :: ts, n, done, cur, ef => scan ts (n + 1) done (cur ++ [.ifl t]) ef
  | .fi :: ts, 0, done, cur, ef => .ok ⟨done ++ [cur], ts, true, ef⟩
  | .fi :: ts, n + 1, done, cur, ef => scan ts n done (cur ++ [.fi]) ef
  | .else_ :: ts, 0, done, cur, _ => scan ts 0 (done ++ [cur]) [] true
  | .else_ :: ts, n + 1, done, cur, ef => scan ts (n + 1) done (cur ++ [.else_]) ef
  | .or_ :: ts, 0, done, cur, ef => scan ts 0 (done ++ [cur]) [] ef
  | .or_ :: ts, n + 1, done, cur, ef => scan ts (n + 1) done (cur ++ [.or_]) ef
  | .other a :: ts, n, done, cur, ef => scan ts n done (cur ++ [.other a]) ef

/-- `if not elsefound: cases.append([])` -/
def withElse (s : Scan τ α) : List (List (Tok τ α)) :=
  if s.elsefound then s.cases else s.cases ++ [[]]

/-- `if not 0 <= which < len(cases): which = len(cases) - 1` then `cases[which]` -/
def select (w : Which) (cases : List (List (Tok τ α))) : List (Tok τ α) :=
  let i := w.index
  let i : Int := if 0 ≤ i ∧ i < cases.length then i else (cases.length : Int) - 1
  cases.getD i.toNat []

/-- `processIfContent(which)`: the new input stream (selected case pushed back in front of the
    rest) and the `correctly_terminated` flag. -/
def processIf (w : Which) (ts : List (Tok τ α)) : Except Err (List (Tok τ α) × Bool) :=
  match scan ts 0 [] [] false with
  | .error e => .error e
  | .ok s => .ok (select w (withElse s) ++ s.rest, s.terminated)

/-! ### the pinned code before the D2 repair
`cases.append([])` unconditionally and `cases[which]` with Python indexing
(negative indices count from the end, out of range raises `IndexError`). -/

def selectAsIs (w : Which) (cases : List (List (Tok τ α))) : Except Err (List (Tok τ α)) :=
  let i := w.index
  let n : Int := cases.length
  if 0 ≤ i ∧ i < n then .ok (cases.getD i.toNat [])
  else if -n ≤ i ∧ i < 0 then .ok (cases.getD (n + i).toNat [])
  else .error .indexError

def processIfAsIs (w : Which) (ts : List (Tok τ α)) : Except Err (List (Tok τ α) × Bool) :=
  match scan ts 0 [] [] false with
  | .error e => .error e
  | .ok s => match selectAsIs w (s.cases ++ [[]]) with
    | .error e => .error e
    | .ok c => .ok (c ++ s.rest, s.terminated)

/-! ### size bound (needed for the termination of `run`) -/

def total (l : List (List (Tok τ α))) : Nat := (l.map List.length).sum

theorem total_append (a b : List (List (Tok τ α))) : total (a ++ b) = total a + total b := by
  simp [total]

theorem getD_length_le_total (l : List (List (Tok τ α))) (i : Nat) : (l.getD i []).length ≤ total l := by
  induction l generalizing i with
  | nil => simp [total]
  | cons x xs ih =>
    cases i with
    | zero => simp [total]
    | succ i =>
      have := ih i
      simp only [total, List.map_cons, List.sum_cons] at this ⊢
      simp only [List.getD_cons_succ]
      omega

theorem scan_size (ts : List (Tok τ α)) (n : Nat) (done : List (List (Tok τ α))) (cur : List (Tok τ α)) (ef : Bool)
    (s : Scan τ α) (h : scan ts n done cur ef = .ok s) :
    total s.cases + s.rest.length + (if s.terminated then 1 else 0) ≤ total done + cur.length + ts.length := by
  fun_induction scan ts n done cur ef <;>
    simp_all [total_append, total] <;> (try (subst h; simp [total_append, total])) <;> (try omega)

theorem processIf_length (w : Which) (ts ts' : List (Tok τ α)) (t : Bool)
    (h : processIf w ts = .ok (ts', t)) : ts'.length ≤ ts.length := by
  unfold processIf at h
  split at h
  · simp at h
  · rename_i s hs
    have hsz := scan_size ts 0 [] [] false s hs
    simp only [Except.ok.injEq, Prod.mk.injEq] at h
    obtain ⟨h1, _⟩ := h
    subst h1
    have h2 : (select w (withElse s)).length ≤ total (withElse s) := by
      unfold select; exact getD_length_le_total _ _
    have h3 : total (withElse s) = total s.cases := by
      unfold withElse; split <;> simp [total_append]; simp [total]
    have h0 : total ([] : List (List (Tok τ α))) = 0 := rfl
    simp only [h0, List.length_nil] at hsz
    simp only [List.length_append]
    omega

/-! ### the expansion loop restricted to conditionals

`σ` is the interpreter state that tests read and other tokens may change (counters,
`\newif` switches, definitions); `out` collects the executed non-conditional tokens in order.
A stray `\fi`/`\else`/`\or` that reaches the main loop is an ordinary macro without text. -/

structure Sem (τ α σ : Type) where
  ev : τ → σ → Except Err Which     -- the test primitive's `invoke` up to the `processIfContent` call
  eff : α → σ → σ                   -- executing a non-conditional token
  decl : Tok τ α → σ → σ            -- `\newif` followed by this token

def run {σ : Type} (S : Sem τ α σ) (ts : List (Tok τ α)) (s : σ) (out : List α) : Except Err (σ × List α) :=
  match ts with
  | [] => .ok (s, out)
  | .other a :: ts => run S ts (S.eff a s) (out ++ [a])
  | [.newif] => .ok (s, out)
  | .newif :: t :: ts => run S ts (S.decl t s) out
  | .fi :: ts => run S ts s out
  | .else_ :: ts => run S ts s out
  | .or_ :: ts => run S ts s out
  | .ifl t :: ts =>
    match S.ev t s with
    | .error e => .error e
    | .ok w =>
      match h : processIf w ts with
      | .error e => .error e
      | .ok (ts', _) => run S ts' s out
termination_by ts.length
decreasing_by
  all_goals simp_wf
  all_goals (try omega)
  have := processIf_length w ts ts' _ h
  omega

end PlasVerif.Model.IfScan
