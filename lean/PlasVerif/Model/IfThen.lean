import PlasVerif.Generated.IfThen
/-!
Model of `plasTeX/Packages/ifthen.py`: `ifthenelse.evaluate` (infix → postfix with `prec`,
then stack evaluation), `ifthenelse.invoke` (branch choice) and `whiledo.invoke` (loop).

Transcribed from the code as written: same loops, same error branches.  The digit-run →
`number` conversion at the top of the `for` loop is abstracted: a `num n` token is the
run of CC_OTHER tokens that `tex.readNumber` turns into `n` (tied by the `rpn` stream).
Space tokens are skipped by the code (`pass`) and are not part of the model's token type.
-/
namespace PlasVerif.Model.IfThen
open PlasVerif.Generated.IfThen

inductive Tok where
  | num (n : Int) | bool (b : Bool) | lpar | rpar | and | or | not | lt | gt | eq
  deriving DecidableEq, Repr

/-- Python exceptions that can escape `evaluate` -/
inductive Err where
  | indexError   -- `pop from empty list`
  | valueError   -- `Missing expected boolean value` / `Missing expected number`
  deriving DecidableEq, Repr

/-- `ifthenelse.prec`, values regenerated from the source -/
def prec : Tok → Nat
  | .lt => precLt | .gt => precGt | .eq => precEq
  | .and => precAnd | .or => precOr | .not => precNot
  | .lpar => precLpar | .rpar => precRpar
  | .num _ => precNum | .bool _ => precBool

/-- `while stack and self.prec(tok) <= self.prec(stack[-1]): postfix.append(stack.pop())`
    returns (popped, in pop order; remaining stack).  Stack top = list head. -/
def popWhile (p : Nat) : List Tok → List Tok × List Tok
  | [] => ([], [])
  | t :: s => if p ≤ prec t then let (a, b) := popWhile p s; (t :: a, b) else ([], t :: s)

/-- the `)` branch: pop to the output until a `(` is on top, then `stack.pop()` (IndexError if none) -/
def popToLpar : List Tok → Except Err (List Tok × List Tok)
  | [] => .error .indexError
  | .lpar :: s => .ok ([], s)
  | t :: s => (popToLpar s).map fun (a, b) => (t :: a, b)

/-- infix → postfix loop of `evaluate`.  A prefix `\not` is pushed without popping
    (code after the `fix:` commit for D4); every other operator pops while
    `prec tok ≤ prec top`. -/
def toPostfix : List Tok → List Tok → List Tok → Except Err (List Tok)
  | [], stack, out => .ok (out ++ stack)
  | t :: ts, stack, out =>
    match t with
    | .num _ | .bool _ => toPostfix ts stack (out ++ [t])
    | .lpar => toPostfix ts (t :: stack) out
    | .rpar => match popToLpar stack with
        | .error e => .error e
        | .ok (a, s) => toPostfix ts s (out ++ a)
    | .not => toPostfix ts (.not :: stack) out
    | op =>
      let (a, s) := popWhile (prec op) stack
      toPostfix ts (op :: s) (out ++ a)

/-- the pinned code before the D4 repair: `\not` goes through the generic operator branch -/
def toPostfixAsIs : List Tok → List Tok → List Tok → Except Err (List Tok)
  | [], stack, out => .ok (out ++ stack)
  | t :: ts, stack, out =>
    match t with
    | .num _ | .bool _ => toPostfixAsIs ts stack (out ++ [t])
    | .lpar => toPostfixAsIs ts (t :: stack) out
    | .rpar => match popToLpar stack with
        | .error e => .error e
        | .ok (a, s) => toPostfixAsIs ts s (out ++ a)
    | op =>
      let (a, s) := popWhile (prec op) stack
      toPostfixAsIs ts (op :: s) (out ++ a)

inductive Val where | n (i : Int) | b (x : Bool)
  deriving DecidableEq, Repr

/-- postfix evaluation loop.  Pops come first (IndexError), then the type test (ValueError). -/
def evalPostfix : List Tok → List Val → Except Err (List Val)
  | [], st => .ok st
  | t :: ts, st =>
    match t with
    | .num i => evalPostfix ts (.n i :: st)
    | .bool x => evalPostfix ts (.b x :: st)
    | .and => match st with
        | .b x :: .b y :: st => evalPostfix ts (.b (x && y) :: st)
        | _ :: _ :: _ => .error .valueError
        | _ => .error .indexError
    | .or => match st with
        | .b x :: .b y :: st => evalPostfix ts (.b (x || y) :: st)
        | _ :: _ :: _ => .error .valueError
        | _ => .error .indexError
    | .not => match st with
        | .b x :: st => evalPostfix ts (.b (!x) :: st)
        | _ :: _ => .error .valueError
        | _ => .error .indexError
    | .gt => match st with
        | .n y :: .n x :: st => evalPostfix ts (.b (decide (x > y)) :: st)
        | _ :: _ :: _ => .error .valueError
        | _ => .error .indexError
    | .lt => match st with
        | .n y :: .n x :: st => evalPostfix ts (.b (decide (x < y)) :: st)
        | _ :: _ :: _ => .error .valueError
        | _ => .error .indexError
    | .eq => match st with
        | .n y :: .n x :: st => evalPostfix ts (.b (decide (x = y)) :: st)
        | _ :: _ :: _ => .error .valueError
        | _ => .error .indexError
    | .lpar | .rpar => evalPostfix ts st   -- no branch of the `if/elif` chain matches: token dropped

/-- `if stack and isinstance(stack[-1], _boolToken): return stack[-1] else: return _false()` -/
def result : List Val → Bool
  | .b x :: _ => x
  | _ => false

def evaluate (test : List Tok) : Except Err Bool := do
  let pf ← toPostfix test [] []
  let st ← evalPostfix pf []
  return result st

def evaluateAsIs (test : List Tok) : Except Err Bool := do
  let pf ← toPostfixAsIs test [] []
  let st ← evalPostfix pf []
  return result st

/-- `return a['then'] if test_result.state else a['else']` -/
def choose {α} (b : Bool) (thenB elseB : α) : α := if b then thenB else elseB

/-- `whiledo.invoke`: `σ` is the interpreter state that expansion of the test and of the
    body may change (counters); `test` evaluates the expanded test, `body` expands the
    operations once giving the new state and the produced tokens.  Python's `while True`
    is given fuel; `none` = fuel exhausted (the Python loop would still be running). -/
def whiledo {σ τ} (test : σ → Bool) (body : σ → σ × List τ) : Nat → σ → List τ → Option (σ × List τ)
  | 0, _, _ => none
  | fuel + 1, s, acc =>
    if test s then
      let (s', out) := body s
      whiledo test body fuel s' (acc ++ out)
    else some (s, acc)

end PlasVerif.Model.IfThen
