import PlasVerif.Model.Render
import PlasVerif.Model.Filenames
/-!
The renderer's name supply instantiated with the model of `plasTeX/Filenames.py` (`Model/Filenames.lean`,
property C15): `Renderable.filename` writes its bindings into `r.newFilename.variables` and calls the object
once; `Renderer.render` creates the object from the configuration.
-/
namespace PlasVerif.Model.RenderNames
open PlasVerif.Model.Render
open PlasVerif.Model.Filenames (Str Env Config State Result Item)

/-- a Python `str` as the C15 model represents it -/
def strOf (s : String) : Str := s.toList.map Char.toNat

def kId : Str := strOf "id"
def kTitle : Str := strOf "title"
def kRef : Str := strOf "ref"
def kName : Str := strOf "name"

/-- the bindings `Renderable.filename` writes into `r.newFilename.variables` (in the order of the code) -/
def envOf (r : Req) : Env :=
  (r.id.map fun v => (kId, strOf v)).toList ++ (r.title.map fun v => (kTitle, strOf v)).toList ++
  (r.ref.map fun v => (kRef, strOf v)).toList ++ (r.name.map fun v => (kName, strOf v)).toList

/-- `r.newFilename` as the renderer uses it: bindings, then one call; an exception aborts the rendering -/
def filenamesGen (cfg : Config) : Gen State Str :=
  { next := fun st r =>
      match PlasVerif.Model.Filenames.request cfg st (envOf r) with
      | (st', .name n, _) => .ok (n, st')
      | (_, .error _, _) => .error .valueError }

/-- `Filenames(config['files'].get('filename'), (bad-chars, bad-chars-sub), {'jobname': …}, self.fileExtension)`;
    `none` = a template outside the C15 model (two bracket groups in one name) -/
def newFilename (template : List Char) (jobname : String) : Option State :=
  (PlasVerif.Model.Filenames.parseTemplate (template.map Char.toNat)).map fun items =>
    PlasVerif.Model.Filenames.initial items [(strOf "jobname", strOf jobname)] []

end PlasVerif.Model.RenderNames
