import PlasVerif.Generated.Escape
/-!
# Model of the text-escaping path of the HTML renderers (C12)

Mirrors, as written:
* `PageTemplate.textDefault` (plasTeX/Renderers/PageTemplate/__init__.py): the ordered chain of
  one-character `str.replace` calls, skipped when the node carries `isMarkup`;
* `PageTemplate.processFileContent`: the image-placeholder `re.sub` (identity when no image is
  registered: `setImageData` then returns the matched text) followed by the `&#%.3d;` loop over
  the characters above 127 when `escape-high-chars` is set;
* `HTML5.processFileContent` / `XHTML.processFileContent`: the clean-up `re.sub`s
  (`<p>\s*</p>`, the `&nbsp;` of empty `td`/`th`, the ` /` of empty XHTML tags), each as the
  deterministic left-to-right scanner that Python's `re.sub` performs for that pattern;
* `Renderable.__str__` (plasTeX/Renderers/__init__.py): the recursion that sends text children
  and `.str` short-cuts through `textDefault` and everything else through a template callable.

Characters are code points (`Nat`).
-/
namespace PlasVerif.Model.Escape
open PlasVerif.Generated.Escape

/-! ## textDefault -/

/-- `s.replace(chr c, r)` for a one-character pattern -/
def replaceChar (c : Nat) (r : List Nat) : List Nat → List Nat
  | [] => []
  | x :: xs => if x = c then r ++ replaceChar c r xs else x :: replaceChar c r xs

/-- the `replace` calls in the given order -/
def applyChain (ch : List (Nat × List Nat)) (s : List Nat) : List Nat :=
  ch.foldl (fun acc p => replaceChar p.1 p.2 acc) s

/-- `textDefault(node)`: `if not getattr(node, 'isMarkup', None): node = node.replace(..)…` -/
def textDefault (isMarkup : Bool) (s : List Nat) : List Nat :=
  if isMarkup then s else applyChain chain s

/-- A sequence of calls of the hook on one renderer object, in order (flag `isMarkup`, string): the method
    reads nothing but its argument and writes nothing, so each result is the result of that call alone. -/
def textDefaultSeq (calls : List (Bool × List Nat)) : List (List Nat) :=
  calls.map fun c => textDefault c.1 c.2

/-! ## processFileContent of PageTemplate -/

/-- decimal digits (code points) of `n` -/
def decDigits (n : Nat) : List Nat :=
  if n < 10 then [48 + n] else decDigits (n / 10) ++ [48 + n % 10]
decreasing_by omega

/-- `'%.<k>d'` : left-pad with zeros to at least `k` digits -/
def padZeros (k : Nat) (ds : List Nat) : List Nat := List.replicate (k - ds.length) 48 ++ ds

/-- `'&#%.3d;' % ord(item)` -/
def numRef (c : Nat) : List Nat := [38, 35] ++ padZeros highPad (decDigits c) ++ [59]

/-- the loop `for i, item in enumerate(s): if ord(item) > 127: s[i] = '&#%.3d;' % ord(item)` -/
def escapeHigh (s : List Nat) : List Nat :=
  s.flatMap fun c => if c > highThreshold then numRef c else [c]

/-- `re.sub(r'&amp;(\S+)-(width|height|depth);(?:&amp;([a-z]+);)?', self.setImageData, s)` when no
    image is registered with the imagers: `setImageData` gives back the matched text, so the pass
    changes nothing (tied by the `pfc` stream; documents with generated images are outside the model). -/
def imagePass (s : List Nat) : List Nat := s

/-- `PageTemplate.processFileContent(document, s)` -/
def processFileContent (escapeHighChars : Bool) (s : List Nat) : List Nat :=
  let s := imagePass s
  if escapeHighChars then escapeHigh s else s

/-! ## the clean-up regexes of HTML5 / XHTML -/

def isSpace (c : Nat) : Bool := reSpace.contains c
def isWord (c : Nat) : Bool := reWordRanges.any fun r => r.1 ≤ c && c ≤ r.2

/-- does text character `c` match pattern letter/symbol `p` under `re.I` -/
def ciMatch (p c : Nat) : Bool :=
  match ciClasses.lookup p with
  | some cls => cls.contains c
  | none => p == c

/-- match a literal (lower-case) pattern case-insensitively at the head; returns the matched text and the rest -/
def ciPrefix? : List Nat → List Nat → Option (List Nat × List Nat)
  | [], s => some ([], s)
  | _ :: _, [] => none
  | p :: ps, c :: cs =>
    if ciMatch p c then
      match ciPrefix? ps cs with
      | some (m, r) => some (c :: m, r)
      | none => none
    else none

def dropSpaces : List Nat → List Nat
  | [] => []
  | c :: cs => if isSpace c then dropSpaces cs else c :: cs

/-- the maximal run of white space at the head, and the rest -/
def spanSpaces : List Nat → List Nat × List Nat
  | [] => ([], [])
  | c :: cs => if isSpace c then let (a, b) := spanSpaces cs; (c :: a, b) else ([], c :: cs)

/-- `[^>]*` : everything before the first `>` and the rest (starting at that `>` if any) -/
def spanNotGt : List Nat → List Nat × List Nat
  | [] => ([], [])
  | c :: cs => if c = 62 then ([], c :: cs) else let (a, b) := spanNotGt cs; (c :: a, b)

/-- `re.sub` for a pattern that cannot match the empty string: `m s` is the match attempt at the head of
    `s` (replacement text, remaining input).  Left to right, non-overlapping.  `fuel` ≥ length suffices. -/
def subWith (m : List Nat → Option (List Nat × List Nat)) : Nat → List Nat → List Nat
  | 0, s => s
  | _, [] => []
  | f + 1, c :: cs =>
    match m (c :: cs) with
    | some (rep, rest) => rep ++ subWith m f rest
    | none => c :: subWith m f cs

def str (s : String) : List Nat := s.toList.map Char.toNat

/-- `<p>\s*</p>` (re.I) replaced by nothing -/
def matchEmptyPara (s : List Nat) : Option (List Nat × List Nat) :=
  match ciPrefix? [60, 112, 62] s with
  | none => none
  | some (_, r) =>
    match ciPrefix? [60, 47, 112, 62] (dropSpaces r) with
    | none => none
    | some (_, r') => some ([], r')

/-- `(<(td|th)\b[^>]*>)\s*(</\2>)` (re.I) replaced by `\1&nbsp;\3` -/
def matchEmptyCell (s : List Nat) : Option (List Nat × List Nat) :=
  match ciPrefix? [60, 116] s with
  | none => none
  | some (m1, r) =>
    match r with
    | [] => none
    | x :: r1 =>
      if !(ciMatch 100 x || ciMatch 104 x) then none else
      -- `\b`: the next character must not be a word character
      match r1 with
      | [] => none
      | y :: _ =>
        if isWord y then none else
        let (attrs, r2) := spanNotGt r1
        match r2 with
        | [] => none
        | g :: r3 =>
          let (_ws, r4) := spanSpaces r3
          match ciPrefix? [60, 47, 116] r4 with
          | none => none
          | some (m2, r5) =>
            match r5 with
            | z :: 62 :: r6 =>
              -- backreference `\2` under re.I: same letter up to case
              if (ciMatch 100 x && ciMatch 100 z) || (ciMatch 104 x && ciMatch 104 z) || x == z then
                some (m1 ++ [x] ++ attrs ++ [g] ++ [38, 110, 98, 115, 112, 59] ++ m2 ++ [z, 62], r6)
              else none
            | _ => none

/-- `HTML5.processFileContent` after the base class: the two `re.sub`s (no extra filters configured) -/
def cleanupHtml5 (s : List Nat) : List Nat :=
  let s := subWith matchEmptyPara s.length s
  subWith matchEmptyCell s.length s

def processHtml5 (escapeHighChars : Bool) (s : List Nat) : List Nat :=
  cleanupHtml5 (processFileContent escapeHighChars s)

def dropTrailingSpaces (s : List Nat) : List Nat := (dropSpaces s.reverse).reverse

/-- remove the longest suffix of the form `\s*/?\s*` -/
def stripSlashTail (s : List Nat) : List Nat :=
  let t := dropTrailingSpaces s
  match t.reverse with
  | 47 :: r => dropTrailingSpaces r.reverse
  | _ => t

def voidNames : List (List Nat) := [str "hr", str "br", str "img", str "link", str "meta", str "col"]

def matchName : List (List Nat) → List Nat → Option (List Nat × List Nat)
  | [], _ => none
  | n :: ns, s =>
    match ciPrefix? n s with
    | some (m, r) =>
      -- `\b` after the name
      match r with
      | [] => some (m, r)
      | y :: _ => if isWord y then matchName ns s else some (m, r)
    | none => matchName ns s

/-- `(<(?:hr|br|img|link|meta|col)\b.*?)\s*/?\s*(>)` (re.I|re.S) replaced by `\1 /\2` -/
def matchVoidTag (s : List Nat) : Option (List Nat × List Nat) :=
  match s with
  | 60 :: r =>
    match matchName voidNames r with
    | none => none
    | some (m, r1) =>
      let (body, r2) := spanNotGt r1
      match r2 with
      | [] => none
      | g :: r3 => some (60 :: m ++ stripSlashTail body ++ [32, 47, g], r3)
  | _ => none

/-- `XHTML.processFileContent` after the base class -/
def cleanupXhtml (s : List Nat) : List Nat :=
  let s := subWith matchVoidTag s.length s
  let s := subWith matchEmptyPara s.length s
  subWith matchEmptyCell s.length s

def processXhtml (escapeHighChars : Bool) (s : List Nat) : List Nat :=
  cleanupXhtml (processFileContent escapeHighChars s)

/-! ## Renderable.__str__ -/

/-- what the render recursion distinguishes in a node -/
inductive RNode where
  /-- a text node (`nodeType == TEXT_NODE`) with its `isMarkup` flag -/
  | text (isMarkup : Bool) (s : List Nat)
  /-- a macro with a unicode equivalent (`.str is not None`) -/
  | uni (isMarkup : Bool) (s : List Nat)
  /-- any other node: rendered by the template found for it, identified by `tpl` -/
  | elem (tpl : Nat) (children : List RNode)

mutual
/-- the document text under a node, in document order -/
def RNode.leaves : RNode → List Nat
  | .text _ s => s
  | .uni _ s => s
  | .elem _ cs => leavesL cs
def leavesL : List RNode → List Nat
  | [] => []
  | c :: cs => c.leaves ++ leavesL cs
end

mutual
/-- does any text under the node carry `isMarkup` -/
def RNode.flagged : RNode → Bool
  | .text m _ => m
  | .uni m _ => m
  | .elem _ cs => flaggedL cs
def flaggedL : List RNode → Bool
  | [] => false
  | c :: cs => c.flagged || flaggedL cs
end

/-- A template as the recursion sees it: a function from the node's rendered content (what `str(node)`
    gives inside the template) to the template's output. -/
abbrev Templates := Nat → List Nat → List Nat

/-- What a page template does with its node, as far as output text is concerned: a sequence of literal
    template output (markup, fixed words such as "Footnotes", "Table") and interpolations of the node's rendered
    content `{{ obj }}` / `tal:content="self"` (possibly several times, possibly never). -/
inductive Piece where
  | lit (p : List Nat)
  | content

def renderPieces (x : List Nat) : List Piece → List Nat
  | [] => []
  | .lit p :: ps => p ++ renderPieces x ps
  | .content :: ps => x ++ renderPieces x ps

/-- the template family given by a table of pieces -/
def pieceTemplates (tpl : Nat → List Piece) : Templates := fun k x => renderPieces x (tpl k)

mutual
/-- `str(node)` for an element: the `for child in childNodes` loop of `Renderable.__str__` -/
def renderChildren (T : Templates) : List RNode → List Nat
  | [] => []
  | c :: cs => renderChild T c ++ renderChildren T cs
/-- one iteration of the loop -/
def renderChild (T : Templates) : RNode → List Nat
  | .text m s => textDefault m s
  | .uni m s => textDefault m s
  | .elem tpl cs => T tpl (renderChildren T cs)
end

/-- `str(node)` called on a node itself (the `uni = self.str` short-cut at the top of `__str__`) -/
def renderSelf (T : Templates) : RNode → List Nat
  | .text m s => textDefault m s
  | .uni m s => textDefault m s
  | .elem _ cs => renderChildren T cs

end PlasVerif.Model.Escape
