import PlasVerif.Model.Catcodes
/-!
Model of the context stack of `plasTeX/Context.py`: `ContextItem` frames with chained
lookup, `Context.push/pop/createContext/mapMethods`, `addGlobal/addLocal`, `let/get_let`,
`catcode/setVerbatimCatcodes`, `__getitem__` (with its define-on-miss side effect:
an unknown name becomes a *global* `UnrecognizedMacro`), `__contains__`.

The stack is a list with the **top frame first**; the last element is the global frame.
Macro names are abstract `Nat` keys; a frame's dictionary is an association list with the
newest binding first (dict assignment = cons; lookup = first match).
-/
namespace PlasVerif.Model.Context
open PlasVerif.Model.Catcodes

inductive Val where
  | defn (id : Nat)       -- a macro class created by a definition
  | unrec (name : Nat)    -- `type(key, (UnrecognizedMacro,), {})`
  deriving DecidableEq, Repr

/-- what `Context.pop(obj)` looks at on the object that pushed a frame -/
structure ObjRef where
  id : Nat                -- identity (`o is obj`)
  parent : Nat            -- identity of `obj.parentNode` (0 = none)
  typeId : Nat            -- `type(obj)`
  modeEnd : Bool          -- `obj.macroMode == MODE_END`
  name : List Nat         -- `obj.nodeName`
  docLevel : Bool         -- `obj.level == DOCUMENT_LEVEL`
  deriving DecidableEq, Repr

structure Frame where
  macros : List (Nat × Val)
  lets : List (Nat × Nat)
  cats : CatTable
  obj : Option ObjRef
  deriving Repr

abbrev Ctx := List Frame

def endPrefix : List Nat := [101, 110, 100]   -- "end"

/-- the state right after `Context.__init__` -/
def init : Ctx := [{ macros := [], lets := [], cats := defaultCats, obj := none }]

/-- `ContextItem.__getitem__`: first frame (from the top) that binds the name -/
def find (n : Nat) : Ctx → Option Val
  | [] => none
  | f :: fs => match f.macros.lookup n with
    | some v => some v
    | none => find n fs

def contains (n : Nat) (c : Ctx) : Bool := (find n c).isSome

/-- `Context.get_let` -/
def getLet (n : Nat) : Ctx → Option Nat
  | [] => none
  | f :: fs => match f.lets.lookup n with
    | some v => some v
    | none => getLet n fs

/-- current categories = those of the top frame (`mapMethods`) -/
def cats : Ctx → CatTable
  | [] => []
  | f :: _ => f.cats

def whichCodeCtx (c : Ctx) (ch : Nat) : Nat := whichCode (cats c) ch

/-- apply `g` to the global (last) frame -/
def modifyGlobal (g : Frame → Frame) : Ctx → Ctx
  | [] => []
  | [f] => [g f]
  | f :: fs => f :: modifyGlobal g fs

/-- apply `g` to the top frame -/
def modifyTop (g : Frame → Frame) : Ctx → Ctx
  | [] => []
  | f :: fs => g f :: fs

def addGlobal (n : Nat) (v : Val) (c : Ctx) : Ctx :=
  modifyGlobal (fun f => { f with macros := (n, v) :: f.macros }) c

def addLocal (n : Nat) (v : Val) (c : Ctx) : Ctx :=
  modifyTop (fun f => { f with macros := (n, v) :: f.macros }) c

/-- `for context in self.contexts[1:]: context.pop(name, None)` for every name in `ns`: the
    bindings are dropped from every frame but the global one -/
def dropLocalsL (ns : List Nat) : Ctx → Ctx
  | [] => []
  | [g] => [g]
  | f :: fs => { f with macros := f.macros.filter (fun p => !ns.contains p.1) } :: dropLocalsL ns fs

/-- `Context.newdef(name, …, local=False)` (`\gdef`): a global definition replaces the meaning at
    every group level (code after the D47 repair) -/
def defGlobal (n : Nat) (v : Val) (c : Ctx) : Ctx := addGlobal n v (dropLocalsL [n] c)

/-- `for context in self.contexts[1:]: context.lets.pop(name, None)`: the token aliases of the names in `ls` are dropped
    from every frame but the global one -/
def dropLetsL (ls : List Nat) : Ctx → Ctx
  | [] => []
  | [g] => [g]
  | f :: fs => { f with lets := f.lets.filter (fun p => !ls.contains p.1) } :: dropLetsL ls fs

/-- `Context.__getitem__`: the meaning, defining a global `UnrecognizedMacro` on a miss -/
def lookup (n : Nat) (c : Ctx) : Val × Ctx :=
  match find n c with
  | some v => (v, c)
  | none => (.unrec n, addGlobal n (.unrec n) c)

/-- `Context.let(dest, source)` for an escape-sequence source: `self.top[dest] = self[source]` -/
def letCs (dest src : Nat) (c : Ctx) : Ctx :=
  let (v, c') := lookup src c
  addLocal dest v c'

/-- `Context.let(dest, source)` for a non-escape source token: `self.top.lets[dest] = source` -/
def letTok (dest tok : Nat) (c : Ctx) : Ctx :=
  modifyTop (fun f => { f with lets := (dest, tok) :: f.lets }) c

/-- `Context.let(dest, source, local=False)` (`\\global\\let`) for an escape-sequence source: `value = self[source]`; the macro
    binding and the token alias of `dest` are popped from every frame above the global one; `contexts[0][dest] = value` -/
def letGlobalCs (dest src : Nat) (c : Ctx) : Ctx :=
  let (v, c') := lookup src c
  addGlobal dest v (dropLetsL [dest] (dropLocalsL [dest] c'))

/-- `Context.let(dest, source, local=False)` for a non-escape source token: same pops; `contexts[0].lets[dest] = source` -/
def letGlobalTok (dest tok : Nat) (c : Ctx) : Ctx :=
  modifyGlobal (fun f => { f with lets := (dest, tok) :: f.lets }) (dropLetsL [dest] (dropLocalsL [dest] c))

/-- `Context.catcode`: copy-on-write on the top frame -/
def setCatCtx (ch k : Nat) (c : Ctx) : Ctx :=
  modifyTop (fun f => { f with cats := setCat f.cats ch k }) c

def setVerbatim (c : Ctx) : Ctx :=
  modifyTop (fun f => { f with cats := verbatimCats }) c

def globalOnly : Ctx → Ctx
  | [] => []
  | [f] => [f]
  | _ :: fs => globalOnly fs

/-- `Context.push(context)`; `locals` = `obj.locals()`.  A document-level object first drops
    every frame but the global one; the new frame still inherits the categories that were
    current *before* that (as written: `self.categories` is only refreshed by `mapMethods`). -/
def push (o : Option ObjRef) (locals : List (Nat × Val)) (c : Ctx) : Ctx :=
  let base := match o with
    | some r => if r.docLevel then globalOnly c else c
    | none => c
  { macros := locals, lets := [], cats := cats c, obj := o } :: base

/-- `Context.pop(None)`: pop until a frame without object has been popped; never the global frame -/
def popNone : Ctx → Ctx
  | [] => []
  | [g] => [g]
  | f :: fs => match f.obj with
    | none => fs
    | some _ => popNone fs

/-- `Context.pop(obj)` -/
def popObj (obj : ObjRef) : Ctx → Ctx
  | [] => []
  | [g] => [g]
  | f :: fs => match f.obj with
    | none => popObj obj fs
    | some o =>
      if o.id = obj.id then fs
      else if o.id = obj.parent then f :: fs
      else if o.typeId = obj.typeId ∧ obj.modeEnd then fs
      else if obj.name = endPrefix ++ o.name then fs
      else popObj obj fs

def pop (o : Option ObjRef) (c : Ctx) : Ctx :=
  match o with
  | none => popNone c
  | some r => popObj r c

inductive Op where
  | push (o : Option ObjRef) (locals : List (Nat × Val))
  | pop (o : Option ObjRef)
  | addGlobal (n : Nat) (v : Val)
  | addLocal (n : Nat) (v : Val)
  | letCs (dest src : Nat)
  | letTok (dest tok : Nat)
  | setCat (ch k : Nat)
  | setVerbatim
  | lookup (n : Nat)
  | gdef (n : Nat) (v : Val)
  | gletCs (dest src : Nat)
  | gletTok (dest tok : Nat)
  deriving Repr

def step (c : Ctx) : Op → Ctx
  | .push o l => push o l c
  | .pop o => pop o c
  | .addGlobal n v => addGlobal n v c
  | .addLocal n v => addLocal n v c
  | .letCs d s => letCs d s c
  | .letTok d t => letTok d t c
  | .setCat ch k => setCatCtx ch k c
  | .setVerbatim => setVerbatim c
  | .lookup n => (lookup n c).2
  | .gdef n v => defGlobal n v c
  | .gletCs d s => letGlobalCs d s c
  | .gletTok d t => letGlobalTok d t c

def run (ops : List Op) (c : Ctx) : Ctx := ops.foldl step c

end PlasVerif.Model.Context
