import PlasVerif.Model.Counters
/-!
Event machine for automatic numbers: which construct steps which counter when, and which reference
text it captures.  Mirrors

* `Macro.parse` / `preParse` / `preArgument` / `postArgument` / `stepcounter` / `refstepcounter` / `postParse`
  (`plasTeX/__init__.py`): a starred form sets `counter = ''` (nothing stepped, no `ref`); otherwise the counter is
  stepped (`Counters.__getitem__` creates a missing counter, the `except KeyError` branch never runs), and `ref = \the<counter>` is captured when
  `sec-num-depth >= level or level > ENDSECTIONS_LEVEL`;
* `Base/LaTeX/Numbering.py` (`\newcounter`, `\setcounter`, `\addtocounter`, `\stepcounter`);
* `Base/LaTeX/Definitions.py` `newtheorem`;
* `Base/LaTeX/Lists.py` `List.invoke` / `List.item.invoke` (the nesting depth kept in `userdata['list-depth']`, Python list indexing);
* `Base/LaTeX/Math.py` `eqnarray.invoke`, `eqnarray.EndRow.invoke`, `nonumber`;
* `Packages/book.py` / `article.py` `appendix.invoke`.
The list of outputs is what a pre-order walk of the document sees: one entry per numbered node.
-/
namespace PlasVerif.Model.Numbering
open PlasVerif.Model.Counters

structure Out where
  tag : String
  ref : Option String
  deriving DecidableEq, Repr

inductive Ev where
  /-- a sectioning command, `equation`, caption …: counter, starred?, node level -/
  | construct (tag : String) (counter : Name) (starred : Bool) (level : Int)
  /-- `\begin{env}` of an environment made by `\newtheorem` -/
  | thm (env : Name)
  | setc (n : Name) (v : Int)
  | addc (n : Name) (v : Int)
  | stepc (n : Name)
  | newcounter (n : Name) (within : Option Name)
  /-- `\newtheorem{name}[shared]{..}[within]` / `\newtheorem*` -/
  | newtheorem (name : Name) (shared : Option Name) (within : Option Name) (starred : Bool)
  | beginList
  | endList
  /-- `\item` / `\item[label]`; `hasTerm` = the optional argument is *given*, also when it is empty (`\item[]`,
      `value is not None` in `List.item.postArgument`); `tag` only names the output entry (`item` in enumerate,
      `bullet` elsewhere) -/
  | item (tag : String) (hasTerm : Bool)
  | eqnBegin
  /-- the end of an `eqnarray` row: `\\`, `\\*` or `\\[len]` (the star and the length do not matter for numbering) -/
  | eqRow
  | nonumber
  /-- `\appendix` of a class whose appendix unit is `ctr` (`chapter` in book, `section` in article) -/
  | appendix (ctr : Name)
  /-- `\arabic{c}`, `\roman{c}`, `\Roman{c}`, `\alph{c}`, `\Alph{c}` in running text (`Numbering.py`) -/
  | show (fmt : String) (c : Name)
  /-- `\thec` in running text -/
  | showThe (c : Name)
  /-- `\renewcommand{\thec}{…}` at the top level: the body as literal text, `\arabic{..}`-style calls and `\the…` macros -/
  | renewThe (c : Name) (body : List Piece)
  /-- `\setcounter{n}{\value{m}}` -/
  | setcv (n m : Name)
  /-- `\addtocounter{n}{\value{m}}` -/
  | addcv (n m : Name)
  /-- the `--counter n v` option (`config['counters']['counters']`): `Document.invoke` does `counters[n].setcounter(v-1)` -/
  | initc (n : Name) (v : Int)
  deriving DecidableEq, Repr

structure St where
  store : Store
  thes : TheEnv
  /-- the list nesting depth (`ownerDocument.userdata['list-depth']`) -/
  depth : Int
  /-- `config['document']['sec-num-depth']` -/
  secnumdepth : Int
  /-- environments made by `\newtheorem`: name ↦ counter (`""` for the starred form) -/
  envs : List (Name × Name)
  /-- captured numbers, newest first -/
  outs : List Out
  deriving Repr

def endSectionsLevel : Int := 100
def environmentLevel : Int := 201
def commandLevel : Int := 1001

/-- `Macro.stepcounter`: `if self.counter: counters[c].stepcounter()` (the `except KeyError` branch is dead code:
    `Counters.__getitem__` creates missing counters) -/
def stepOwn (st : St) (counter : Name) : Except Err St :=
  if counter == "" then .ok st
  else match stepc st.store counter with
    | .ok s => .ok { st with store := s }
    | .error e => .error e

/-- `Macro.postParse`: capture `\the<counter>` -/
def capture (st : St) (tag : String) (counter : Name) (level : Int) : Except Err St :=
  if counter != "" && (decide (st.secnumdepth ≥ level) || decide (level > endSectionsLevel)) then
    match evalThe (theFuel st.thes) st.thes st.store ("the" ++ counter) with
    | .ok r => .ok { st with outs := ⟨tag, some r⟩ :: st.outs }
    | .error e => .error e
  else .ok { st with outs := ⟨tag, none⟩ :: st.outs }

/-- the whole life cycle of one numbered macro instance -/
def numbered (st : St) (tag : String) (counter : Name) (starred : Bool) (level : Int) : Except Err St :=
  let counter := if starred then "" else counter
  match stepOwn st counter with
  | .ok st1 => capture st1 tag counter level
  | .error e => .error e

def listCounters : List Name := ["enumi", "enumii", "enumiii", "enumiv"]

/-- Python `l[i]` (negative indices count from the end; `none` = `IndexError`) -/
def pyIndex {α} (l : List α) (i : Int) : Option α :=
  let n : Int := l.length
  if i < -n ∨ i ≥ n then none else l[(if i < 0 then i + n else i).toNat]?

/-- `for i in range(i, 4): counters[List.counters[i]].setcounter(0)` inside `try … except (IndexError, KeyError): pass` -/
def listReset (i : Int) : Nat → Store → Store
  | 0, s => s
  | k + 1, s =>
    match pyIndex listCounters i with
    | none => s
    | some nm =>
      listReset (i + 1) k (setc s nm 0)

/-- `List.invoke` after the depth was changed -/
def listInvoke (st : St) (depth : Int) : St :=
  { st with depth := depth, store := listReset depth ((listCounters.length : Int) - depth).toNat st.store }

/-- the most recent `ArrayRow` of the running `eqnarray` loses its number (`nonumber.digest`) -/
def unnumberRow : List Out → List Out
  | [] => []
  | o :: os => if o.tag == "row" then { o with ref := none } :: os else o :: unnumberRow os

/-- `\arabic{c}` … in running text: `tex.textTokens(counters[c].<fmt>)` (reading `counters[c]` creates a missing counter) -/
def showRep (st : St) (fmt : String) (c : Name) : Except Err St :=
  match represent (valD st.store c) fmt with
  | .ok r => .ok { st with store := ensure st.store c, outs := ⟨"show", some r⟩ :: st.outs }
  | .error e => .error e

def step (st : St) : Ev → Except Err St
  | .construct tag c starred level => numbered st tag c starred level
  | .thm env =>
    match st.envs.lookup env with
    | none => .ok st
    | some c => numbered st "thmenv" c false environmentLevel
  | .setc n v => .ok { st with store := setc st.store n v }
  | .addc n v => .ok { st with store := addc st.store n v }
  | .stepc n => (stepc st.store n).map fun s => { st with store := s }
  | .newcounter n within =>
    if (val st.store n).isSome then .ok st
    else .ok { st with store := newc st.store n within 0,
                       thes := newThe st.thes n { pieces := [.ref n none], trimLeft := false } }
  | .newtheorem name shared within starred =>
    let sharedName := shared.getD ""
    if sharedName == "" && !starred then
      let d : TheDef := match within with
        | some w => if w != "" then { pieces := [.ref ("the" ++ w) none, .lit ".", .ref name none], trimLeft := false }
                    else { pieces := [.ref name none], trimLeft := false }
        | none => { pieces := [.ref name none], trimLeft := false }
      let w : Option Name := match within with | some w => if w != "" then some w else none | none => none
      if (val st.store name).isSome then .ok { st with envs := (name, name) :: st.envs }
      else .ok { st with store := newc st.store name w 0, thes := newThe st.thes name d,
                         envs := (name, name) :: st.envs }
    else .ok { st with envs := (name, if starred then "" else sharedName) :: st.envs }
  | .beginList => .ok (listInvoke st (st.depth + 1))
  | .endList => .ok (listInvoke st (st.depth - 1))
  | .item tag hasTerm =>
    -- `self.counter = List.counters[depth-1]` (IndexError: the class default `enumi` stays)
    let c := (pyIndex listCounters (st.depth - 1)).getD "enumi"
    -- `\item[label]` does not step the list counter and has no number
    numbered st tag c hasTerm commandLevel
  | .eqnBegin => numbered st "row" "equation" false environmentLevel
  | .eqRow => numbered st "row" "equation" false commandLevel
  | .nonumber =>
    .ok { st with store := addc st.store "equation" (-1), outs := unnumberRow st.outs }
  | .appendix ctr =>
    .ok { st with store := setc st.store ctr 0,
                  thes := ("the" ++ ctr, { pieces := [.ref ctr (some "Alph")], trimLeft := false }) :: st.thes }
  | .show fmt c => showRep st fmt c
  | .showThe c =>
    match evalThe (theFuel st.thes) st.thes st.store ("the" ++ c) with
    | .ok r => .ok { st with outs := ⟨"show", some r⟩ :: st.outs }
    | .error e => .error e
  | .renewThe c body =>
    -- `Context.newcommand` replaces a `TheCounter` class by a `NewCommand`; no `trimLeft` any more
    .ok { st with thes := ("the" ++ c, { pieces := body, trimLeft := false }) :: st.thes }
  | .setcv n m =>
    -- the arguments are parsed first (`\value{m}` reads `counters[m]`), then `counters[n].setcounter(..)`
    .ok { st with store := setc (ensure st.store m) n (valD st.store m) }
  | .addcv n m => .ok { st with store := addc (ensure st.store m) n (valD st.store m) }
  | .initc n v => .ok { st with store := setc st.store n (v - 1) }

/-- pieces of a generated class table: `(isRef, name or text, representation or "")` -/
def pieceOf (p : Bool × String × String) : Piece :=
  if p.1 then .ref p.2.1 (if p.2.2 == "" then none else some p.2.2) else .lit p.2.1

/-- the state after `\documentclass{…}`: counters and `\the…` macros as the class file declares them -/
def initSt (counters : List (String × Option String × Int))
    (thes : List (String × List (Bool × String × String) × Bool)) (secnumdepth : Int) : St :=
  { store := counters.map fun c => { name := c.1, resetby := c.2.1, value := c.2.2 },
    thes := thes.map fun t => ("the" ++ t.1, { pieces := t.2.1.map pieceOf, trimLeft := t.2.2 }),
    depth := 0, secnumdepth := secnumdepth, envs := [], outs := [] }

/-- a whole history; the first exception aborts the parse -/
def run : St → List Ev → Except Err St
  | st, [] => .ok st
  | st, e :: es =>
    match step st e with
    | .ok st' => run st' es
    | .error err => .error err

end PlasVerif.Model.Numbering
