import PlasVerif.Generated.Index
/-!
Model of `plasTeX/Base/LaTeX/Index.py`:

* `index.invoke`  — the `! @ | "` parser over the unexpanded tokens of the `\index` argument
  (`parseEntry`), including the aliasing of `current` to the `format` list after `|`;
* `IndexEntry.__lt__` — Python's list/tuple comparison (`pyListLt`: first position where the
  elements differ by `==`, then `<` on that position; a proper prefix is smaller) over the zipped
  per-level tuples, then the length comparison (`entryLt`; `entryLtAsIs` is the pinned code before the
  D13 repair whose third tuple component was the key *node*, for which `<` is always `False`);
* `sorted(...)` — a stable insertion sort (`isort`); any stable sort gives the same list when the
  comparison is a strict weak order (which `entryLt` is, `entryLtAsIs` is not);
* `IndexUtils.digest` — the prefix-merge (`mergeLines`): loop over the sorted entries with `prev`,
  the `current` pointer, "pop out to the common level", "add the appropriate number of levels",
  "add the current page".  The DOM tree under the `printindex` node is represented by the list of
  its `Index` nodes in creation order (= preorder, children are only ever appended to the open
  rightmost branch), each with its full key path; the `current` pointer is the path of the node it
  points to (`current = current.parentNode` is `dropLast`), and "the node `current` points to" is
  the last created node with that path;
* `IndexUtils.groups` (`groupsGo`) and `IndexUtils.splitColumns` (`splitColumns`) line by line.

Parameters (not modelled, supplied by the harness from the live installation): the collator
`coll` (`pyuca` sort key or the fallback `str.lower`), `ini` = `unidecode(sortkey[0]).upper()`,
and the expansion of key tokens into nodes (`Level.txt` = `textContent`, `Level.src` = `source`;
node equality is equality of `(txt, src)`).
-/
namespace PlasVerif.Model.Index
open PlasVerif.Generated.Index

abbrev Str := List Nat

inductive Err where
  | indexError | zeroDivisionError | attributeError | keyError
  deriving DecidableEq, Repr

/-! ## `index.invoke`: parsing the entry tokens -/

/-- a token of the `entry:nox` argument: `ch letter c` has a catcode in
    `[CC_OTHER, CC_LETTER, CC_SPACE]` (`letter` = it is `CC_LETTER`); `oth` is anything else
    (escape sequences, braces, math shifts …), opaque. -/
inductive Tok where
  | ch (letter : Bool) (c : Nat)
  | oth (id : Nat)
  deriving DecidableEq, Repr

/-- an element of the `key` / `sortkey` lists: its own token list, or the very `format` list object
    (`current = format` makes later `key.append(current)` store an alias) -/
inductive Ref where
  | own (l : List Tok)
  | fmt
  deriving DecidableEq, Repr

structure PState where
  sortkey : List Ref := []
  key : List Ref := []
  /-- `none`: `current` is the `format` list -/
  current : Option (List Tok) := some []
  format : List Tok := []
  deriving DecidableEq, Repr

def PState.append (s : PState) (t : Tok) : PState :=
  match s.current with
  | some l => { s with current := some (l ++ [t]) }
  | none => { s with format := s.format ++ [t] }

def PState.curRef (s : PState) : Ref :=
  match s.current with
  | some l => .own l
  | none => .fmt

/-- `key.append(current); if len(sortkey) < len(key): sortkey.append(current)` -/
def PState.pushKey (s : PState) : PState :=
  let key := s.key ++ [s.curRef]
  let sortkey := if s.sortkey.length < key.length then s.sortkey ++ [s.curRef] else s.sortkey
  { s with key := key, sortkey := sortkey }

def cQuote : Nat := 34
def cBang : Nat := 33
def cAt : Nat := 64
def cBar : Nat := 124

/-- the `for tok in entry` loop -/
def parseGo : PState → List Tok → PState
  | s, [] => s
  | s, .ch l c :: ts =>
    if c = cQuote then
      match ts with
      | [] => s
      | t :: ts' => parseGo (s.append t) ts'
    else if c = cBang then parseGo { s.pushKey with current := some [] } ts
    else if c = cAt then parseGo { s with sortkey := s.sortkey ++ [s.curRef], current := some [] } ts
    else if c = cBar then parseGo { s.pushKey with current := none } ts
    else parseGo (s.append (.ch l c)) ts
  | s, .oth i :: ts => parseGo (s.append (.oth i)) ts

/-- entry type: `TYPE_NORMAL`, `TYPE_SEE`, `TYPE_SEEALSO` -/
inductive EType where
  | normal | see | seealso
  deriving DecidableEq, Repr

def isLetterTok : Tok → Bool
  | .ch true _ => true
  | _ => false

def tokChar : Tok → Nat
  | .ch _ c => c
  | .oth _ => 0

structure Parsed where
  sortkeys : List (List Tok)
  keys : List (List Tok)
  /-- `none`: no format; `some (mac, rest)`: the format tokens are `\macro` (when `mac ≠ []`), `rest`,
      `\index-page-number` -/
  format : Option (Str × List Tok)
  type : EType
  deriving DecidableEq, Repr

def strSee : Str := [115, 101, 101]
def strSeealso : Str := [115, 101, 101, 97, 108, 115, 111]

/-- `index.invoke` after `Command.invoke`: the loop, "make sure to get the stuff at the end",
    resolution of the list objects, the format mac -/
def parseEntry (toks : List Tok) : Parsed :=
  let s := parseGo {} toks
  let s := if s.format.isEmpty then s.pushKey else s
  let res : Ref → List Tok := fun r => match r with | .own l => l | .fmt => s.format
  let sortkeys := s.sortkey.map res
  let keys := s.key.map res
  if s.format.isEmpty then { sortkeys, keys, format := none, type := .normal }
  else
    let mac := (s.format.takeWhile isLetterTok).map tokChar
    let rest := s.format.dropWhile isLetterTok
    let ty := if mac = strSee then EType.see else if mac = strSeealso then EType.seealso else EType.normal
    { sortkeys, keys, format := some (mac, rest), type := ty }

/-! ## Entries, `IndexEntry.__lt__`, `sorted` -/

/-- one level of an entry: the sort key string, and the key node (text content, source) -/
structure Level where
  sk : Str
  txt : Str
  src : Str
  deriving DecidableEq, Repr

/-- an `IndexEntry`: `zip(sortkey, key)` and the `\index` node it came from (its number in document order) -/
structure Entry where
  path : List Level
  id : Nat
  deriving DecidableEq, Repr

structure Env where
  /-- the collator actually in use: string → sort key (a list of integers; a string's code points for the fallback) -/
  coll : Str → List Nat
  /-- `unidecode(s[0]).upper()`, `none` when `s` is empty (`IndexError`) -/
  ini : Str → Option Str

/-- Python `<` on lists/tuples: the first position at which the elements differ (`==`) decides with `<`;
    if there is none the shorter one is smaller -/
def pyListLt {α} [DecidableEq α] (lt : α → α → Bool) : List α → List α → Bool
  | [], [] => false
  | [], _ :: _ => true
  | _ :: _, [] => false
  | a :: as, b :: bs => if a = b then pyListLt lt as bs else lt a b

/-- `<` on strings (code points) and on `pyuca` sort keys (tuples of integers) -/
def strLt : Str → Str → Bool := pyListLt (fun a b => decide (a < b))

/-- one tuple of the zipped key (after the D13 repair):
    `(collator(sortkey), collator(key.textContent), sortkey, key.textContent, key.source)` -/
def levelKey (env : Env) (l : Level) : List Str :=
  [env.coll l.sk, env.coll l.txt, l.sk, l.txt, l.src]

/-- tuples are compared like lists -/
def tupleLt : List Str → List Str → Bool := pyListLt strLt

def entryKey (env : Env) (e : Entry) : List (List Str) := e.path.map (levelKey env)

/-- `IndexEntry.__lt__` -/
def entryLt (env : Env) (a b : Entry) : Bool :=
  let ka := entryKey env a
  let kb := entryKey env b
  if pyListLt tupleLt ka kb then true
  else if pyListLt tupleLt kb ka then false
  else decide (a.path.length < b.path.length)

/-- the pinned code before the repair: tuple `(collator(sortkey), collator(text), key node)`;
    nodes are equal when structurally equal, and `node < node` is always `False` for key fragments -/
def levelEqAsIs (env : Env) (a b : Level) : Bool :=
  env.coll a.sk = env.coll b.sk && env.coll a.txt = env.coll b.txt && a.txt = b.txt && a.src = b.src

def levelLtAsIs (env : Env) (a b : Level) : Bool :=
  if env.coll a.sk ≠ env.coll b.sk then strLt (env.coll a.sk) (env.coll b.sk)
  else if env.coll a.txt ≠ env.coll b.txt then strLt (env.coll a.txt) (env.coll b.txt)
  else false

def keyLtAsIs (env : Env) : List Level → List Level → Bool
  | [], [] => false
  | [], _ :: _ => true
  | _ :: _, [] => false
  | a :: as, b :: bs => if levelEqAsIs env a b then keyLtAsIs env as bs else levelLtAsIs env a b

def entryLtAsIs (env : Env) (a b : Entry) : Bool :=
  if keyLtAsIs env a.path b.path then true
  else if keyLtAsIs env b.path a.path then false
  else decide (a.path.length < b.path.length)

/-- insert `x` before the first element that is not smaller than it -/
def insertSorted {α} (lt : α → α → Bool) (x : α) : List α → List α
  | [] => [x]
  | y :: ys => if lt y x then y :: insertSorted lt x ys else x :: y :: ys

/-- `sorted(xs)`: stable -/
def isort {α} (lt : α → α → Bool) : List α → List α
  | [] => []
  | x :: xs => insertSorted lt x (isort lt xs)

def sortEntries (env : Env) (es : List Entry) : List Entry := isort (entryLt env) es
def sortEntriesAsIs (env : Env) (es : List Entry) : List Entry := isort (entryLtAsIs env) es

/-! ## `IndexUtils.digest`: the prefix-merge -/

/-- an `Index` node: its key path from the `printindex` node, and its `pages` (numbers of the `\index` nodes) -/
structure Line where
  path : List Level
  pages : List Nat
  deriving DecidableEq, Repr

structure MState where
  lines : List Line := []
  /-- the `current` pointer, as the path of the node (`[]` = the `printindex` node itself) -/
  cur : List Level := []
  /-- `zip(prev.sortkey, prev.key)` -/
  prev : List Level := []
  deriving Repr

/-- the `common` loop: length of the common prefix of the zipped `(sortkey, key)` pairs -/
def commonLen : List Level → List Level → Nat
  | a :: as, b :: bs => if a = b then commonLen as bs + 1 else 0
  | _, _ => 0

/-- `while i < len(prev.key): current = current.parentNode; i += 1`  (`n = len(prev.key) - common` times) -/
def popN : Nat → List Level → List Level
  | 0, cur => cur
  | n + 1, cur => popN n cur.dropLast

/-- `while i < len(item.key): newidx = Index(); …; current.append(newidx); current = newidx` -/
def addLevels : List Line → List Level → List Level → List Line × List Level
  | lines, cur, [] => (lines, cur)
  | lines, cur, l :: ls => addLevels (lines ++ [{ path := cur ++ [l], pages := [] }]) (cur ++ [l]) ls

/-- `current.pages.append(...)` on the node `current` points to: the last created node with that path -/
def addPage (p : List Level) (id : Nat) : List Line → List Line
  | [] => []
  | l :: ls =>
    if ls.any (fun x => x.path = p) then l :: addPage p id ls
    else if l.path = p then { l with pages := l.pages ++ [id] } :: ls
    else l :: ls

def mergeStep (s : MState) (item : Entry) : MState :=
  let common := commonLen s.prev item.path
  let cur := popN (s.prev.length - common) s.cur
  let (lines, cur) := addLevels s.lines cur (item.path.drop common)
  { lines := addPage cur item.id lines, cur := cur, prev := item.path }

def mergeLines (es : List Entry) : List Line := (es.foldl mergeStep {}).lines

/-- `printindex.digest` after the D13 repair / as pinned -/
def buildIndex (env : Env) (es : List Entry) : List Line := mergeLines (sortEntries env es)
def buildIndexAsIs (env : Env) (es : List Entry) : List Line := mergeLines (sortEntriesAsIs env es)

/-! ## `IndexUtils.groups` and `splitColumns` -/

/-- `title in encoding.stringletters()` is a substring test -/
def isInfix (t : Str) : Str → Bool
  | [] => t.isEmpty
  | c :: s => t.isPrefixOf (c :: s) || isInfix t s

/-- (`label`, `title`) of a top-level item with sort key `sk` -/
def titleOf (env : Env) (sk : Str) : Str × Str :=
  match env.ini sk with
  | none => (titleSymbols, titleSymbols)
  | some t =>
    if isInfix t stringletters then (t, t)
    else if t = [95] then (t, titleUnderscore)
    else (titleSymbols, titleSymbols)

structure Group (α : Type) where
  title : Str
  label : Str
  items : List α
  deriving Repr

/-- `bytitle[title].append(item)`: the group registered under `title` (`KeyError` when there is none).
    `bytitle` maps a title to the batch that was created for it, i.e. to the (only) batch with that title. -/
def appendTo {α} (title : Str) (x : α) : List (Group α) → Option (List (Group α))
  | [] => none
  | g :: gs =>
    if g.title = title then some ({ g with items := g.items ++ [x] } :: gs)
    else (appendTo title x gs).map (g :: ·)

/-- the `for item in self` loop of `groups` (`current` starts as `''`, `bytitle` = the titles of `batches`):
    a new batch is opened only when the title changes *and* no batch has that title yet -/
def groupsGo {α} (tl : α → Str × Str) : List α → Str → List (Group α) → Except Err (List (Group α))
  | [], _, bs => .ok bs
  | x :: xs, current, bs =>
    let (label, title) := tl x
    let bs1 := if current ≠ title ∧ ¬ (bs.any fun g => g.title = title)
               then bs ++ [{ title := title, label := label, items := [] }] else bs
    match appendTo title x bs1 with
    | none => .error .keyError
    | some bs2 => groupsGo tl xs title bs2

def groupItems {α} (tl : α → Str × Str) (items : List α) : Except Err (List (Group α)) :=
  groupsGo tl items [] []

/-- the code before the repair of the duplicate headings (`batches[-1].append(item)`, a new batch whenever
    the title differs from the previous entry's) -/
def appendLast {α} (x : α) : List (Group α) → Option (List (Group α))
  | [] => none
  | [g] => some [{ g with items := g.items ++ [x] }]
  | g :: gs => (appendLast x gs).map (g :: ·)

def groupsGoAsIs {α} (tl : α → Str × Str) : List α → Str → List (Group α) → Except Err (List (Group α))
  | [], _, bs => .ok bs
  | x :: xs, current, bs =>
    let (label, title) := tl x
    let bs1 := if current ≠ title then bs ++ [{ title := title, label := label, items := [] }] else bs
    match appendLast x bs1 with
    | none => .error .indexError
    | some bs2 => groupsGoAsIs tl xs title bs2

/-- the "group entries into columns" loop; `output` is `done ++ [last]` -/
def splitGo {α} (coltotal cols : Nat) : List (Nat × α) → Nat → List (List α) → List α → List (List α)
  | [], _, done, last => done ++ [last]
  | (num, item) :: es, current, done, last =>
    let current := current + num
    if done.length + 1 ≥ cols then splitGo coltotal cols es current done (last ++ [item])
    else if current > coltotal then splitGo coltotal cols es num (done ++ [last]) [item]
    else if current = coltotal then splitGo coltotal cols es 0 (done ++ [last ++ [item]]) []
    else splitGo coltotal cols es current done (last ++ [item])

/-- `IndexUtils.splitColumns(items, cols)` for `cols ≥ 1` (`w` = `totallen`) -/
def splitColumns {α} (w : α → Nat) (items : List α) (cols : Nat) : List (List α) :=
  let entries := (items.map fun i => (w i, i)).reverse
  let grandtotal := (items.map w).sum
  let coltotal := grandtotal / cols
  let output := splitGo coltotal cols entries 0 [] []
  let output := output.reverse.map List.reverse
  let output := output.filter (fun x => !x.isEmpty)
  output ++ List.replicate (cols - output.length) []

/-- the children of the `printindex` node with their `totallen` (1 + number of descendants) -/
def topItems : List Line → List (Line × Nat)
  | [] => []
  | l :: ls =>
    if l.path.length = 1 then (l, 1 + (ls.takeWhile fun x => decide (x.path.length > 1)).length) :: topItems ls
    else topItems ls

def lineSk (l : Line) : Str :=
  match l.path with
  | [] => []
  | lv :: _ => lv.sk

/-- the `groups` property: batches by title, then each batch replaced by its columns -/
def groups (env : Env) (lines : List Line) (cols : Nat) : Except Err (List (Group (List (Line × Nat)))) :=
  match groupItems (fun it : Line × Nat => titleOf env (lineSk it.1)) (topItems lines) with
  | .error e => .error e
  | .ok bs =>
    if cols = 0 ∧ !bs.isEmpty then .error .zeroDivisionError else
    .ok (bs.map fun g => { title := g.title, label := g.label, items := splitColumns (·.2) g.items cols })


/-! ## the generated (HTML5) index: `Renderers/HTML5/Index.jinja2s` -/

/-- the children of the `printindex` node, each with the lines of its descendants (what the template's
    `recursive` loop walks below a top-level item) -/
def topBlocks : List Line → List (Line × List Line)
  | [] => []
  | l :: ls =>
    if l.path.length = 1 then (l, ls.takeWhile fun x => decide (x.path.length > 1)) :: topBlocks ls
    else topBlocks ls

/-- `{% for group in groups %} … {% for column in group %} … {% for item in column recursive %}`:
    the headings with their columns of items, every item carrying its sub-tree -/
def renderIndex (env : Env) (lines : List Line) (cols : Nat) :
    Except Err (List (Str × List (List (Line × List Line)))) :=
  match groupItems (fun b : Line × List Line => titleOf env (lineSk b.1)) (topBlocks lines) with
  | .error e => .error e
  | .ok bs =>
    if cols = 0 ∧ !bs.isEmpty then .error .zeroDivisionError else
    .ok (bs.map fun g => (g.title, splitColumns (fun b : Line × List Line => 1 + b.2.length) g.items cols))

/-- the `<li>` elements of the generated index in document order: `<li>` key, pages, then `loop(item)` -/
def htmlLines (r : List (Str × List (List (Line × List Line)))) : List Line :=
  r.flatMap fun g => g.2.flatten.flatMap fun b => b.1 :: b.2

end PlasVerif.Model.Index
