/-!
Model of the *digestion* of the expanded token stream into the document tree, as far as
lists and arrays need it (`plasTeX/__init__.py`: `Macro.digestUntil`, `Environment.digest`;
`plasTeX/Base/LaTeX/Lists.py`: `List.digest`, `List.item.digest`;
`plasTeX/Base/LaTeX/Arrays.py`: `ArrayRow.digest`, `ArrayCell.digest`;
`plasTeX/Base/TeX/Text.py`: `bgroup.digest`; `plasTeX/TeX.py`: the loop of `TeX.parse`).

The stream is what `bufferediter(tex)` yields: already expanded tokens, each carrying the
`contextDepth` it was read at.  The phantom `ArrayRow`/`ArrayCell` elements are in the stream
(they are returned by `Array.invoke`, `CellDelimiter.invoke`, `EndRow.invoke`).  Stream
entries are *nodes* (token + children so far), because Python pushes an already digested
object back (`tokens.push(item)` after `item.digest(tokens)`).

The three Python loops (`Environment.digest`, `Macro.digestUntil`, `bgroup.digest`) have the
same skeleton `for item in tokens: <decide>; [item.digest(tokens)]; [depth check]; append`.
They are transcribed as ONE loop (`loop`) whose per-item decision is `classify`, with one
clause per Python loop, condition by condition in source order.  `paragraphs()` (regrouping
of the children into `par` nodes) and character normalisation are not modelled; border
application of `Array.digest` is in `Model/Arrays.lean` (it only reads the finished rows).
-/
namespace PlasVerif.Model.Lists

/-- which `digest` an environment uses -/
inductive Cls where | env | list | array
  deriving DecidableEq, Repr

/-- the observable part of a compiled column (`ColumnType.style`) -/
structure ColStyle where
  align : Nat      -- 0 none, 1 left, 2 center, 3 right
  bl : Bool        -- 'border-left'
  br : Bool        -- 'border-right'
  deriving DecidableEq, Repr

inductive Kind where
  | text (s : Nat)            -- non-element token that is not whitespace
  | space                     -- non-element whitespace token
  | par                       -- `\par` (level PAR_LEVEL; `isElementContentWhitespace` iff childless)
  | cmd (s : Nat)             -- element whose `digest` does nothing (Macro.digest)
  | setcounter                -- `nodeName == 'setcounter'`
  | low                       -- element below ENDSECTIONS_LEVEL with a no-op digest (`\end{document}`)
  | hline | cline (a b : Nat) | vline
  | mcol (span : Nat) (st : ColStyle) (s : Nat)   -- `\multicolumn{span}{st}{s}`
  | begin_ (c : Cls) (ty : Nat) | end_ (c : Cls) (ty : Nat)
  | grpB | grpE
  | item (term : Nat)
  | amp | endrow | row | cell
  deriving DecidableEq, Repr

structure Tok where
  depth : Nat
  kind : Kind
  deriving DecidableEq, Repr

inductive Node where
  | mk (tok : Tok) (ch : List Node)
  deriving Repr

abbrev Stream := List Node

def Node.tok : Node → Tok | .mk t _ => t
def Node.ch : Node → List Node | .mk _ c => c
def Node.kind (n : Node) : Kind := n.tok.kind
def Node.depth (n : Node) : Nat := n.tok.depth
/-- a token as it comes from the interpreter -/
def mkT (d : Nat) (k : Kind) : Node := .mk ⟨d, k⟩ []

def PAR_LEVEL : Nat := 101
def ENDSECTIONS_LEVEL : Nat := 100
def ENVIRONMENT_LEVEL : Nat := 201
def COMMAND_LEVEL : Nat := 1001

/-- `node.level` -/
def Kind.level : Kind → Nat
  | .par => PAR_LEVEL
  | .begin_ _ _ | .end_ _ _ => ENVIRONMENT_LEVEL
  | .low => 0
  | _ => COMMAND_LEVEL

/-- `nodeType == ELEMENT_NODE` -/
def Kind.isElement : Kind → Bool
  | .text _ | .space => false
  | _ => true

/-- `isElementContentWhitespace` -/
def isWs : Node → Bool
  | .mk ⟨_, .space⟩ _ => true
  | .mk ⟨_, .par⟩ ch => ch.isEmpty
  | _ => false

/-- `item.macroMode == MODE_END and type(item) is type(self)` -/
def isEndOf (it self : Kind) : Bool :=
  match it, self with
  | .end_ c t, .begin_ c' t' => c == c' && t == t'
  | _, _ => false

/-- the `endclass` argument of `digestUntil` -/
inductive EndClass where | item | endrow | cellEnd
  deriving DecidableEq, Repr

def EndClass.isInstance : EndClass → Kind → Bool
  | .item, .item _ => true
  | .endrow, .endrow => true
  | .cellEnd, .amp => true
  | .cellEnd, .endrow => true
  | _, _ => false

inductive Mode where
  | env                       -- Environment.digest
  | until_ (e : EndClass)     -- Macro.digestUntil
  | grp                       -- bgroup.digest
  deriving DecidableEq, Repr

inductive Act where
  | append                    -- `self.appendChild(item)` without digesting
  | stopPush                  -- `tokens.push(item); break`
  | stopEat                   -- `break` (item consumed, not appended)
  | stopEnd                   -- digestUntil: `tokens.push(tok); return tok`
  | digest (depthCheck : Bool) -- `item.digest(tokens)`, then (if flagged) the context-depth test, then append
  deriving DecidableEq, Repr

/-- `List.item` and its subclasses: the only elements with a `container` attribute (`List`) -/
def isItemKind : Kind → Bool
  | .item _ => true
  | _ => false

/-- `isinstance(self, List)` for the absorbing environment -/
def isListKind : Kind → Bool
  | .begin_ .list _ => true
  | _ => false

/-- decision of each loop on the next stream entry, conditions in source order -/
def classify (m : Mode) (self : Tok) (it : Node) : Act :=
  match m with
  | .env =>
    if it.kind.level == PAR_LEVEL then .append
    else if it.kind.level < self.kind.level then .stopPush
    else if it.kind.isElement then
      if isEndOf it.kind self.kind then .stopEat
      -- `container = getattr(item, 'container', None); if container is not None and not isinstance(self, container)`:
      -- an `\item` (container = List) ends every environment that is not a list (a declaration, `center`, …)
      else if isItemKind it.kind && !isListKind self.kind then .stopPush
      else .digest true
    else if it.depth < self.depth then .stopPush else .append
  | .until_ e =>
    if it.kind.isElement then
      if e.isInstance it.kind then .stopEnd else .digest true
    else if it.depth < self.depth then .stopPush else .append
  | .grp =>
    if it.kind.isElement then
      if it.kind.level < ENDSECTIONS_LEVEL then .stopPush
      else if it.kind == .grpE then .stopEat
      else if it.depth < self.depth then .stopPush
      else .digest false
    else .append

/-- `for tok in tokens: if tok.isElementContentWhitespace: continue; tokens.push(tok); break` -/
def skipWs : Stream → Stream
  | [] => []
  | n :: s => if isWs n then skipWs s else n :: s

/-- head of `List.digest`: whitespace and `\setcounter` before the first item are dropped -/
def listSkip : Stream → Stream
  | [] => []
  | n :: s => if isWs n then listSkip s else if n.kind == .setcounter then listSkip s else n :: s

def consRes (n : Node) : Option (List Node × Option Node × Stream) → Option (List Node × Option Node × Stream)
  | none => none
  | some (cs, e, r) => some (n :: cs, e, r)

mutual
/-- `node.digest(tokens)`; result: the node with the absorbed children, remaining stream.
    `none` = out of fuel (never for fuel > stream length). -/
def digestNode : Nat → Node → Stream → Option (Node × Stream)
  | 0, _, _ => none
  | f + 1, .mk t ch, s =>
    match t.kind with
    | .begin_ c _ =>
      -- List.digest first drops blanks, then Environment.digest; Array.digest = Environment.digest (+ borders)
      match loop f .env t (if c == .list then listSkip s else s) with
      | none => none
      | some (cs, _, r) => some (.mk t (ch ++ cs), r)
    | .grpB =>
      match loop f .grp t s with
      | none => none
      | some (cs, _, r) => some (.mk t (ch ++ cs), r)
    | .item _ =>
      match loop f (.until_ .item) t (skipWs s) with
      | none => none
      | some (cs, _, r) => some (.mk t (ch ++ cs), r)
    | .row =>
      -- endToken = digestUntil(EndRow); if endToken is not None: next(tokens)
      match loop f (.until_ .endrow) t s with
      | none => none
      | some (cs, some _, r) => some (.mk t (ch ++ cs), r.tail)
      | some (cs, none, r) => some (.mk t (ch ++ cs), r)
    | .cell =>
      -- endToken = digestUntil((CellDelimiter, EndRow)); if isinstance(endToken, CellDelimiter): next(tokens)
      match loop f (.until_ .cellEnd) t s with
      | none => none
      | some (cs, some e, r) => some (.mk t (ch ++ cs), if e.kind == .amp then r.tail else r)
      | some (cs, none, r) => some (.mk t (ch ++ cs), r)
    | _ => some (.mk t ch, s)
/-- the common loop; result: appended children, `digestUntil`'s return value, remaining stream -/
def loop : Nat → Mode → Tok → Stream → Option (List Node × Option Node × Stream)
  | 0, _, _, _ => none
  | _ + 1, _, _, [] => some ([], none, [])
  | f + 1, m, self, it :: rest =>
    match classify m self it with
    | .append => consRes it (loop f m self rest)
    | .stopPush => some ([], none, it :: rest)
    | .stopEat => some ([], none, rest)
    | .stopEnd => some ([], some it, it :: rest)
    | .digest chk =>
      match digestNode f it rest with
      | none => none
      | some (it', rest') =>
        if chk && it'.depth < self.depth then some ([], none, it' :: rest')
        else consRes it' (loop f m self rest')
end

/-- the loop of `TeX.parse`: `for item in tokens: if element: item.digest(tokens); output.append(item)` -/
def parseLoop : Nat → Stream → Option (List Node)
  | 0, _ => none
  | _ + 1, [] => some []
  | f + 1, it :: rest =>
    if it.kind.isElement then
      match digestNode f it rest with
      | none => none
      | some (it', rest') => (parseLoop f rest').map (it' :: ·)
    else (parseLoop f rest).map (it :: ·)

/-- whole-stream entry point with enough fuel -/
def parse (s : Stream) : Option (List Node) := parseLoop (2 * s.length + 2) s

end PlasVerif.Model.Lists
