/-!
Model of `Context.isMathMode` (`plasTeX/Context.py`) as used by `TeX.readArgumentAndSource` to choose the character
substitutions of an argument (`charsubs = [] if context.isMathMode else document.charsubs`).
The context stack is given from the outermost to the innermost context; every entry is `obj.mathMode` of the context's
object (`none` when the context has no object or the object leaves the mode alone: groups, most macros).
-/
namespace PlasVerif.Model.Mode

/-- `for i in range(len(contexts)-1, -1, -1): if obj.mathMode is not None: return obj.mathMode` on the reversed stack -/
def scanInnermostFirst : List (Option Bool) → Bool
  | [] => false
  | some b :: _ => b
  | none :: r => scanInnermostFirst r

def isMathMode (stack : List (Option Bool)) : Bool := scanInnermostFirst stack.reverse

/-- the substitutions applied to an expanded argument: none in math mode, the document's otherwise -/
def charsubsFor {α} (stack : List (Option Bool)) (docSubs : List α) : List α :=
  if isMathMode stack then [] else docSubs


/-- does `p` start `s` -/
def startsWith : List Nat → List Nat → Bool
  | [], _ => true
  | _ :: _, [] => false
  | a :: p, b :: s => a == b && startsWith p s

/-- `str.replace(src, dest)` for a non-empty `src`: left to right, non-overlapping; `fuel` = length of the text -/
def replaceAll (src dest : List Nat) : Nat → List Nat → List Nat
  | 0, s => s
  | _, [] => []
  | f + 1, c :: s =>
    if startsWith src (c :: s) then dest ++ replaceAll src dest f ((c :: s).drop src.length)
    else c :: replaceAll src dest f s

/-- `for src, dest in charsubs: text = text.replace(src, dest)` (`Node.appendText`) -/
def applySubs (subs : List (List Nat × List Nat)) (t : List Nat) : List Nat :=
  subs.foldl (fun acc sd => if sd.1.isEmpty then acc else replaceAll sd.1 sd.2 acc.length acc) t

/-- the text of a plain-text argument written under the given context stack -/
def argText (stack : List (Option Bool)) (docSubs : List (List Nat × List Nat)) (t : List Nat) : List Nat :=
  applySubs (charsubsFor stack docSubs) t

end PlasVerif.Model.Mode
