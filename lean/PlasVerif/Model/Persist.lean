import PlasVerif.Generated.Persist
/-!
Model of the cross-document label store: `Context.persist` / `Context.restore`
(plasTeX/Context.py) and `Macro.persist` / `Macro.restore` (plasTeX/__init__.py).

Transcribed from the code as written: the same `try` scopes, the same loops (as structural
recursion over the items in dict order), the same error branches with the Python exception
kind.  `persist`/`restore` are the code after the repairs D10 (`persist`: a renderer section
that is not a dict is replaced inside the `try`) and D14 (`restore`: one bad entry no longer
aborts the loop); `persistAsIs`/`restoreAsIs` are the pinned code.

The pickle codec is a parameter (`Codec`); the only law ever assumed is `dec (enc v) = some v`.
`Val` is the universe of value *shapes* `pickle.load` can return for a benign file, to the
depth the code inspects; Python `dict` semantics (insertion order, unique keys, assignment to
an existing key keeps its position) are the association-list functions `aget`/`aset`/`toDict`.
Not modelled: failure of `pickle.dump`/`open(…,'wb')` (only logged by the code; an interrupted
write is represented by the truncated file the next run sees), aliasing inside a pickle.
-/
namespace PlasVerif.Model.Persist
open PlasVerif.Generated.Persist

/-- dictionary keys that occur in label files (`bool`/integral `float` keys are the `int` they equal) -/
inductive Key where
  | str (s : String) | int (i : Int) | none
  deriving DecidableEq, Repr, Inhabited

/-- value shapes; `other t` = any value the code treats opaquely (float, bytes, tuple, set …) with truth value `t` -/
inductive Val where
  | none | bool (b : Bool) | int (i : Int) | str (s : String)
  | other (truthy : Bool)
  | list (xs : List Val)
  | dict (kvs : List (Key × Val))
  deriving Repr, Inhabited

/-- Python truth value (`if value:` in the `id` setter) -/
def Val.truthy : Val → Bool
  | .none => false | .bool b => b | .int i => i != 0 | .str s => s != ""
  | .other t => t | .list xs => !xs.isEmpty | .dict kvs => !kvs.isEmpty

/-- Python exceptions raised inside the modelled code -/
inductive Err where
  | typeError | attributeError | keyError | unpickling
  deriving DecidableEq, Repr

/-! ### Python `dict` as an association list -/

/-- `d.get(k)` -/
def aget [DecidableEq κ] (k : κ) : List (κ × α) → Option α
  | [] => none
  | (k', v) :: r => if k' = k then some v else aget k r

/-- `d[k] = v` (an existing key keeps its position) -/
def aset [DecidableEq κ] (k : κ) (v : α) : List (κ × α) → List (κ × α)
  | [] => [(k, v)]
  | (k', v') :: r => if k' = k then (k', v) :: r else (k', v') :: aset k v r

/-- `del d[k]` -/
def adel [DecidableEq κ] (k : κ) : List (κ × α) → List (κ × α)
  | [] => []
  | (k', v') :: r => if k' = k then r else (k', v') :: adel k r

/-- the dict a sequence of `SETITEM`s builds (later duplicates overwrite) -/
def toDict [DecidableEq κ] (kvs : List (κ × α)) : List (κ × α) :=
  kvs.foldl (fun d kv => aset kv.1 kv.2 d) []

def keys (l : List (κ × α)) : List κ := l.map (·.1)

/-! ### the codec and the file -/

structure Codec (β : Type) where
  enc : Val → β
  dec : β → Option Val     -- `none` = `pickle.load` raised

/-- the single law assumed of `pickle` -/
def Codec.Lawful (c : Codec β) : Prop := ∀ v, c.dec (c.enc v) = some v

inductive File (β : Type) where
  | missing | bytes (b : β)

/-! ### `Macro.persist` -/

/-- what `getattr(node, name, None)` yields at the end of a run -/
inductive SrcVal where
  | none                       -- `None` / attribute missing
  | node (rendered : String)   -- a DOM node; `str(node)` is its rendering
  | text (s : String)          -- a bare text node (`str` subclass whose `__str__` returns the node itself)
  | val (v : Val)              -- anything else, stored as it is
  deriving Repr, Inhabited

/-- a labelled node as `Macro.persist` sees it: attribute name ↦ value -/
abbrev SrcNode := List (String × SrcVal)

def getattrSrc (n : SrcNode) (name : String) : SrcVal := (aget name n).getD .none

/-- the value stored for one attribute (`None` is skipped, nodes are stringified) -/
def persistVal : SrcVal → Option Val
  | .none => none
  | .val .none => none
  | .node s => some (.str s)
  | .text s => some (.str s)          -- `str.__str__(str(value))`: the plain string, never the node
  | .val v => some v

/-- one round of the loop of `Macro.persist` : `value = getattr(self, name, None)`; skip `None`; `attrs[name] = value` -/
def persistStep (n : SrcNode) (attrs : List (Key × Val)) (name : String) : List (Key × Val) :=
  match persistVal (getattrSrc n name) with
  | none => attrs
  | some v => aset (.str name) v attrs

/-- `Macro.persist()` : `for name in self.refAttributes: …` -/
def macroPersist (n : SrcNode) : List (Key × Val) :=
  refAttributes.foldl (persistStep n) []

/-! ### `Macro.restore` -/

/-- instance `__dict__` of a restored node -/
abbrev Node := List (String × Val)

/-- `str(key)` -/
def keyStr : Key → String
  | .str s => s | .int i => toString i | .none => "None"

/-- `str(remap.get(key, key))` -/
def remapKey : Key → String
  | .str s => (aget s remap).getD s
  | k => keyStr k

/-- `setattr(self, name, value)` on a `Macro` instance (tables probed from the live class) -/
def setAttr (n : Node) (name : String) (v : Val) : Except Err Node :=
  if name ∈ readOnlyAttrs then .error .attributeError
  else match aget name deleteOnFalsy with
    | some slot =>
      if v.truthy then .ok (aset slot v n)
      else if (aget slot n).isSome then .ok (adel slot n)
      else .error .attributeError
    | none => .ok (aset ((aget name setterStore).getD name) v n)

/-- `Macro.restore(attrs)` : `for key, value in attrs.items(): setattr(self, str(remap.get(key, key)), value)` -/
def macroRestore : List (Key × Val) → Node → Except Err Node
  | [], n => .ok n
  | (k, v) :: r, n =>
    match setAttr n (remapKey k) v with
    | .ok n' => macroRestore r n'
    | .error e => .error e

/-- `self[name]` of `Context.__getitem__` succeeds exactly for strings (unknown names get a fresh class) -/
def lookupClass : Val → Except Err String
  | .str s => .ok s
  | _ => .error .typeError

/-- `n = self[value.get('macroName', 'Macro')](); n.restore(value)` -/
def restoreEntry (value : Val) : Except Err Node :=
  match value with
  | .dict kvs =>
    let attrs := toDict kvs
    match lookupClass ((aget (.str "macroName") attrs).getD (.str "Macro")) with
    | .ok _ => macroRestore attrs []
    | .error e => .error e
  | _ => .error .attributeError      -- no `.get`

/-! ### `Context.persist` -/

/-- `self.persistentLabels` : label ↦ node, in insertion order -/
abbrev Src := List (String × SrcNode)

/-- `for key, value in self.persistentLabels.items(): data[key] = value.persist()` -/
def persistLoop : Src → List (Key × Val) → List (Key × Val)
  | [], data => data
  | (k, n) :: r, data => persistLoop r (aset (.str k) (.dict (macroPersist n)) data)

def freshDict (r : String) : List (Key × Val) := [(.str r, .dict [])]

/-- the `if os.path.exists … else …` block of the repaired code: the dictionary `d` -/
def loadOld (c : Codec β) (r : String) : File β → List (Key × Val)
  | .missing => freshDict r
  | .bytes b =>
    match c.dec b with
    | some (.dict kvs) =>
      let d := toDict kvs
      match aget (.str r) d with            -- `if not isinstance(d.get(rtype), dict): d[rtype] = {}`
      | some (.dict _) => d
      | _ => aset (.str r) (.dict []) d
    | _ => freshDict r                       -- bare `except:` → `os.remove`, fresh dict

/-- the same block of the pinned code: `if rtype not in list(d.keys()): d[rtype] = {}` -/
def loadOldAsIs (c : Codec β) (r : String) : File β → List (Key × Val)
  | .missing => freshDict r
  | .bytes b =>
    match c.dec b with
    | some (.dict kvs) =>
      let d := toDict kvs
      match aget (.str r) d with
      | some _ => d
      | none => aset (.str r) (.dict []) d
    | _ => freshDict r

/-- the part after the block, outside any `try`: `data = d[rtype]`, the update loop, the dump -/
def persistTail (c : Codec β) (r : String) (src : Src) (d : List (Key × Val)) : Except Err (File β) :=
  match aget (.str r) d with
  | none => .error .keyError
  | some (.dict data) =>
    -- `data` is the object inside `d`: updating it updates `d`
    .ok (.bytes (c.enc (.dict (aset (.str r) (.dict (persistLoop src (toDict data))) d))))
  | some _ =>
    match src with
    | [] => .ok (.bytes (c.enc (.dict d)))
    | _ :: _ => .error .typeError          -- `data[key] = …` on a non-dict

def persist (c : Codec β) (r : String) (src : Src) (f : File β) : Except Err (File β) :=
  persistTail c r src (loadOld c r f)

def persistAsIs (c : Codec β) (r : String) (src : Src) (f : File β) : Except Err (File β) :=
  persistTail c r src (loadOldAsIs c r f)

/-! ### `Context.restore` -/

/-- `self.labels` -/
abbrev Labels := List (Key × Node)

/-- repaired loop: a failing entry is skipped (`try` inside the `for`) -/
def restoreLoop : List (Key × Val) → Labels → Labels
  | [], L => L
  | (k, v) :: r, L =>
    match restoreEntry v with
    | .ok n => restoreLoop r (aset k n L)
    | .error _ => restoreLoop r L

/-- pinned loop: the first failing entry ends the loop (the exception leaves the `for`);
    labels set so far stay in `self.labels` -/
def restoreLoopAsIs : List (Key × Val) → Labels → Labels
  | [], L => L
  | (k, v) :: r, L =>
    match restoreEntry v with
    | .ok n => restoreLoopAsIs r (aset k n L)
    | .error _ => L

/-- body of the big `try` of `restore`; `.error` = an exception reaches the `except Exception` -/
def restoreBody (loop : List (Key × Val) → Labels → Labels) (c : Codec β) (r : String) (b : β) (L : Labels) :
    Except Err Labels :=
  match c.dec b with
  | none => .error .unpickling
  | some (.dict kvs) =>
    match aget (.str r) (toDict kvs) with
    | none => .ok L                              -- `except KeyError: return`
    | some (.dict data) => .ok (loop (toDict data) L)
    | some _ => .error .attributeError           -- `data.items()`
  | some _ => .error .typeError                  -- `d[rtype]` on a non-dict

def restoreWith (loop : List (Key × Val) → Labels → Labels) (c : Codec β) (r : String) (f : File β) (L : Labels) :
    Except Err Labels :=
  match f with
  | .missing => .ok L
  | .bytes b =>
    match restoreBody loop c r b L with
    | .ok L' => .ok L'
    | .error _ => .ok L                           -- `except Exception as msg: log.warning(…)`

def restore (c : Codec β) (r : String) (f : File β) (L : Labels) : Except Err Labels :=
  restoreWith restoreLoop c r f L

def restoreAsIs (c : Codec β) (r : String) (f : File β) (L : Labels) : Except Err Labels :=
  restoreWith restoreLoopAsIs c r f L

/-! ### histories -/

/-- one event in the life of a `.paux` file -/
inductive Op (β : Type) where
  | save (r : String) (src : Src)     -- end of a run under renderer `r`
  | clobber (f : File β)              -- anything happens to the file (truncation, bit flips, deletion, foreign file)

def step (c : Codec β) : Op β → File β → Except Err (File β)
  | .save r src, f => persist c r src f
  | .clobber f', _ => .ok f'

def run (c : Codec β) : List (Op β) → File β → Except Err (File β)
  | [], f => .ok f
  | op :: ops, f =>
    match step c op f with
    | .ok f' => run c ops f'
    | .error e => .error e

/-! ### `plasTeX/Packages/xr.py` : `\externaldocument[prefix]{name}[url]`

The second reader of a saved file.  It keeps the saved records themselves (dictionaries, not nodes) in
`context.labels`, under `prefix + label`, with `url` prepended to the record's `url`.  `xrLoad` is the code as it
is (after the repair that skips whatever does not have the saved layout): it walks the sections of *every*
renderer in file order (`.values()`), so a label saved under two renderers is read from the later section.
`xrLoadR` reads only the section of the renderer in use (the variant that satisfies "separately per renderer"). -/

/-- records kept by xr: label ↦ saved attribute dictionary -/
abbrev XLabels := List (Key × Val)

/-- body of the per-entry `try`: `val` must be a record; `val['url'] = url + val['url']`; key `prefix + lbl` -/
def xrEntry (pfx : String) (url : Option String) (k : Key) (v : Val) : Except Err (Key × Val) :=
  match v with
  | .dict kvs =>
    let rcd := toDict kvs
    let rcd' : Except Err (List (Key × Val)) :=
      match url with
      | none => .ok rcd
      | some u =>
        match aget (.str "url") rcd with
        | none => .error .keyError
        | some (.str s) => .ok (aset (.str "url") (.str (u ++ s)) rcd)
        | some _ => .error .typeError
    match rcd' with
    | .error e => .error e
    | .ok d =>
      match k with
      | .str l => .ok (.str (pfx ++ l), .dict d)
      | _ => .error .typeError                    -- `prefix + lbl`
  | _ => .error .typeError

/-- `for lbl, val in block.items(): try: … except Exception: log.warning(…)` -/
def xrBlock (pfx : String) (url : Option String) : List (Key × Val) → XLabels → XLabels
  | [], L => L
  | (k, v) :: r, L =>
    match xrEntry pfx url k v with
    | .ok (k', v') => xrBlock pfx url r (aset k' v' L)
    | .error _ => xrBlock pfx url r L

/-- `for block in data.values(): if not isinstance(block, dict): continue; …` -/
def xrBlocks (pfx : String) (url : Option String) : List (Key × Val) → XLabels → XLabels
  | [], L => L
  | (_, .dict blk) :: r, L => xrBlocks pfx url r (xrBlock pfx url (toDict blk) L)
  | _ :: r, L => xrBlocks pfx url r L

/-- `load_paux` + the loop of `externaldocument.invoke` -/
def xrLoad (c : Codec β) (pfx : String) (url : Option String) (f : File β) (L : XLabels) : XLabels :=
  match f with
  | .missing => L
  | .bytes b =>
    match c.dec b with
    | some (.dict kvs) => xrBlocks pfx url (toDict kvs) L
    | _ => L                                      -- `except:` / not a dict → `dict()`

/-- the per-renderer variant: only the section of renderer `r` is read -/
def xrLoadR (c : Codec β) (r : String) (pfx : String) (url : Option String) (f : File β) (L : XLabels) : XLabels :=
  match f with
  | .missing => L
  | .bytes b =>
    match c.dec b with
    | some (.dict kvs) =>
      match aget (.str r) (toDict kvs) with
      | some (.dict blk) => xrBlock pfx url (toDict blk) L
      | _ => L
    | _ => L

/-! ### `Renderable.url` (plasTeX/Renderers/__init__.py): where the saved target location comes from

`Macro.persist` reads the `url` attribute of the labelled node; under a renderer that is this property.  It is a
function of the state *of the current render* only: the override, the `base-url` setting, the file the node itself
creates (if any) and the files its ancestors create — nothing is remembered from one call to the next. -/

/-- the file table of one render as a labelled node sees it -/
structure RenderView where
  base : String                       -- `config['document']['base-url']`
  own : Option String                 -- `self.filename`
  ancestors : List (Option String)    -- `filename` of parent, grandparent, …

/-- first ancestor whose filename is not `None` (`while node is not None and node.filename is None`) -/
def enclosingFile : List (Option String) → String
  | [] => ""
  | some f :: _ => f
  | none :: r => enclosingFile r

/-- `Renderable.url` -/
def nodeUrl (urloverride : Option String) (id : String) (v : RenderView) : String :=
  match urloverride with
  | some u => u
  | none =>
    let base := if v.base.endsWith "/" then (v.base.dropEnd 1).toString else v.base
    match v.own with
    | some f =>
      if f ≠ "" then (if base ≠ "" then base ++ "/" ++ f else f)                  -- the node creates a file
      else if base ≠ "" then base ++ "/" ++ enclosingFile v.ancestors ++ "#" ++ id
      else enclosingFile v.ancestors ++ "#" ++ id
    | none =>
      if base ≠ "" then base ++ "/" ++ enclosingFile v.ancestors ++ "#" ++ id
      else enclosingFile v.ancestors ++ "#" ++ id

/-- the same node asked for its url in successive renders of one document object -/
def renderUrls (urloverride : Option String) (id : String) (views : List RenderView) : List String :=
  views.map (nodeUrl urloverride id)

/-! ### `Compile.parse`: which saved files another run restores

`for dirname in [cwd] + paux-dirs: for fname in glob('*.paux'): if basename(fname) == jobname + '.paux': continue;
context.restore(fname, renderer)`.  The files are given in the order the loops meet them, each with its base name
(without `.paux`); the job's own name is skipped in every directory, every other file is restored — also a file whose
name occurred before in another directory. -/

def parseRestores (c : Codec β) (r job : String) : List (String × File β) → Labels → Except Err Labels
  | [], L => .ok L
  | (name, f) :: rest, L =>
    if name = job then parseRestores c r job rest L
    else
      match restore c r f L with
      | .ok L' => parseRestores c r job rest L'
      | .error e => .error e

end PlasVerif.Model.Persist
