import PlasVerif.Generated.Arrays
import PlasVerif.Model.Lists
/-!
Model of `plasTeX/Base/LaTeX/Arrays.py` after digestion: `Array.compileColspec`,
`ArrayCell.digest` (colspan / own colspec from `\multicolumn`), `ArrayCell.borders`,
`ArrayCell.isBorderOnly`, `ArrayRow.isBorderOnly`, `BorderCommand.applyBorders`,
`ArrayRow.applyBorders`, `Array.applyBorders` (incl. the colspec styles) and `numCols` of
`Array.linkCells`, and the `colspecStart`/`colspecEnd` links of `Array.linkCells`.  Transcribed as written
(after the `fix:` commits for D7, D15 and the linkCells column offset; the pinned variants are kept as
`walkAsIs` / `compileAsIs` / `linkRowAsIs`).
-/
namespace PlasVerif.Model.Arrays
open PlasVerif.Model.Lists

/-! ## compileColspec -/

/-- unexpanded colspec tokens: a character token, a blank, `{`, `}` -/
inductive CTok where
  | ch (c : Nat) | sp | bg | eg
  deriving DecidableEq, Repr

inductive CErr where
  | indexError     -- `output[-1]` / `output[0]` on an empty list
  | overrun        -- an argument is read past the end of the colspec (outside the model)
  | fuel
  deriving DecidableEq, Repr

/-- balanced group body after a `{`: (body, rest after the matching `}`) -/
def readGroup : Nat → List CTok → Option (List CTok × List CTok)
  | _, [] => none
  | d, .eg :: s => if d == 0 then some ([], s) else (readGroup (d - 1) s).map fun (a, r) => (.eg :: a, r)
  | d, .bg :: s => (readGroup (d + 1) s).map fun (a, r) => (.bg :: a, r)
  | d, t :: s => (readGroup d s).map fun (a, r) => (t :: a, r)

/-- `tex.readArgument()`: blanks skipped, then one token or one brace group -/
def readArg : List CTok → Option (List CTok × List CTok)
  | [] => none
  | .sp :: s => readArg s
  | .bg :: s => readGroup 0 s
  | t :: s => some ([t], s)

/-- value of the digit run of a `*{n}` argument (`readArgument(type=int)`); non-digits count as 0 -/
def numArg (ts : List CTok) : Nat :=
  ts.foldl (fun acc t => match t with
    | .ch c => if 48 ≤ c ∧ c ≤ 57 then acc * 10 + (c - 48) else acc
    | _ => acc) 0

def alignOf (c : Nat) : Nat :=
  match PlasVerif.Generated.Arrays.columnTypes.find? (·.1 == c) with
  | some (_, a) => a
  | none => 0

/-- `ColumnType.columnTypes.get(tok, ColumnType)()` -/
def newCol : CTok → ColStyle
  | .ch c => ⟨alignOf c, false, false⟩
  | _ => ⟨0, false, false⟩

/-- `tok.lower() in ['p','d']` -/
def takesArg : CTok → Bool
  | .ch c => c == 112 || c == 100 || c == 80 || c == 68
  | _ => false

def setLastBr : List ColStyle → List ColStyle
  | [] => []
  | [c] => [{ c with br := true }]
  | c :: cs => c :: setLastBr cs

def repeatToks : Nat → List CTok → List CTok → List CTok
  | 0, _, s => s
  | n + 1, spec, s => spec ++ repeatToks n spec s

/-- the `for tok in tex.itertokens()` loop of `compileColspec`; `fixed = false` is the pinned
    code (`@` before the first column does not read its argument). `before/after/between`
    are not observed and not stored. -/
def compileLoop (fixed : Bool) : Nat → List CTok → List ColStyle → Bool → Except CErr (List ColStyle)
  | 0, _, _, _ => .error .fuel
  | _ + 1, [], out, lb =>
    if lb then (match out with
      | [] => .error .indexError
      | c :: cs => .ok ({ c with bl := true } :: cs))
    else .ok out
  | f + 1, t :: s, out, lb =>
    if t == .sp then compileLoop fixed f s out lb
    else if t == .ch 124 then
      if out.isEmpty then compileLoop fixed f s out true else compileLoop fixed f s (setLastBr out) lb
    else if t == .ch 62 then
      match readArg s with
      | none => .error .overrun
      | some (_, s') => compileLoop fixed f s' out lb
    else if t == .ch 60 then
      match readArg s with
      | none => .error .overrun
      | some (_, s') => if out.isEmpty then .error .indexError else compileLoop fixed f s' out lb
    else if t == .ch 64 then
      if fixed || !out.isEmpty then
        match readArg s with
        | none => .error .overrun
        | some (_, s') => compileLoop fixed f s' out lb
      else compileLoop fixed f s out lb
    else if t == .ch 42 then
      match readArg s with
      | none => .error .overrun
      | some (n, s1) =>
        match readArg s1 with
        | none => .error .overrun
        | some (spec, s2) => compileLoop fixed f (repeatToks (numArg n) spec s2) out lb
    else
      if takesArg t then
        match readArg s with
        | none => .error .overrun
        | some (_, s') => compileLoop fixed f s' (out ++ [newCol t]) lb
      else compileLoop fixed f s (out ++ [newCol t]) lb

def compileColspec (fuel : Nat) (ts : List CTok) : Except CErr (List ColStyle) := compileLoop true fuel ts [] false
def compileColspecAsIs (fuel : Nat) (ts : List CTok) : Except CErr (List ColStyle) := compileLoop false fuel ts [] false

/-! ## cells, borders -/

inductive Loc where | top | bottom | left | right
  deriving DecidableEq, Repr

structure Marks where
  top : Bool := false
  bottom : Bool := false
  left : Bool := false
  right : Bool := false
  deriving DecidableEq, Repr

def Marks.set (m : Marks) : Loc → Marks
  | .top => { m with top := true } | .bottom => { m with bottom := true }
  | .left => { m with left := true } | .right => { m with right := true }
def Marks.has (m : Marks) : Loc → Bool
  | .top => m.top | .bottom => m.bottom | .left => m.left | .right => m.right

/-- a finished cell: what `ArrayCell.digest` derives from its children, plus the style slots -/
structure CellR where
  colspan : Option Nat          -- `attributes['colspan']`
  own : Option ColStyle         -- `cell.colspec` (from `\multicolumn`)
  items : List Node             -- children before `paragraphs()`
  marks : Marks := {}           -- `border-<loc>-style` set by rule commands
  style : ColStyle := ⟨0, false, false⟩   -- keys copied from the column specification
  deriving Repr

abbrev RowR := List CellR

/-- `cell.attributes.get('colspan', 1)` -/
def CellR.span (c : CellR) : Nat := c.colspan.getD 1
def CellR.mark (c : CellR) (l : Loc) : CellR := { c with marks := c.marks.set l }

/-- the `for item in self:` loop of `ArrayCell.digest`: the last `\multicolumn` child wins -/
def mcolOf : List Node → Option (Nat × ColStyle)
  | [] => none
  | n :: ns =>
    match mcolOf ns with
    | some r => some r
    | none => match n.kind with
      | .mcol sp st _ => some (sp, st)
      | _ => none

def cellOf (n : Node) : CellR :=
  { colspan := (mcolOf n.ch).map (·.1), own := (mcolOf n.ch).map (·.2), items := n.ch }

def isHoriz : Kind → Bool | .hline => true | .cline _ _ => true | _ => false
def isVert : Kind → Bool | .vline => true | _ => false
def isBorderCmd (k : Kind) : Bool := isHoriz k || isVert k

/-- first loop of `ArrayCell.borders` run on the reversed children, and second loop on the children:
    indices (given by `idx`) of the rule commands met before the first other non-blank child -/
def borderRun : List (Nat × Node) → List Nat
  | [] => []
  | (i, n) :: r =>
    if isWs n then borderRun r
    else if isBorderCmd n.kind then i :: borderRun r
    else []

def indexed (ns : List Node) : List (Nat × Node) := (List.range ns.length).zip ns
def trailIdx (ns : List Node) : List Nat := borderRun (indexed ns).reverse
def leadIdx (ns : List Node) : List Nat := borderRun (indexed ns)

/-- a cached rule command: span, orientation, final `position` (true = BORDER_AFTER) -/
structure Border where
  span : Option (Nat × Nat)
  vert : Bool
  after : Bool
  deriving DecidableEq, Repr

def borderAt (ns : List Node) (lead : List Nat) (i : Nat) : Option Border :=
  match ns[i]? with
  | none => none
  | some n => match n.kind with
    | .hline => some ⟨none, false, !lead.contains i⟩
    | .cline a b => some ⟨some (a, b), false, !lead.contains i⟩
    | .vline => some ⟨none, true, !lead.contains i⟩
    | _ => none

/-- `ArrayCell.borders`: all rule commands in collection order (trailing run, then leading run);
    `position` is a mutable attribute, so a command met by both loops ends as BORDER_BEFORE -/
def cellBorders (ns : List Node) : List Border :=
  (trailIdx ns ++ leadIdx ns).filterMap (borderAt ns (leadIdx ns))

/-- `ArrayCell.isBorderOnly` (children seen through the `par` wrappers) -/
def cellBorderOnly (c : CellR) : Bool :=
  c.items.all fun n => isWs n || n.kind == .par || isBorderCmd n.kind
def rowBorderOnly (r : RowR) : Bool := r.all cellBorderOnly

def inSpan (span : Option (Nat × Nat)) (col : Nat) : Bool :=
  match span with
  | none => true
  | some (a, b) => a ≤ col && col ≤ b

/-- `BorderCommand.applyBorders` (after the D7 repair: skipped cells advance by their colspan) -/
def walk (span : Option (Nat × Nat)) (loc : Loc) : Nat → List CellR → List CellR
  | _, [] => []
  | col, c :: cs =>
    if inSpan span col then c.mark loc :: walk span loc (col + c.span) cs
    else c :: walk span loc (col + c.span) cs

/-- the pinned code: `colnum += 1` for skipped cells -/
def walkAsIs (span : Option (Nat × Nat)) (loc : Loc) : Nat → List CellR → List CellR
  | _, [] => []
  | col, c :: cs =>
    if inSpan span col then c.mark loc :: walkAsIs span loc (col + c.span) cs
    else c :: walkAsIs span loc (col + 1) cs

/-- `location = self.locations[self.position]` unless given -/
def Border.loc (b : Border) (given : Option Loc) : Loc :=
  match given with
  | some l => l
  | none => if b.vert then (if b.after then .right else .left) else (if b.after then .bottom else .top)

/-- one iteration of `for cell in self:` in `ArrayRow.applyBorders` -/
def applyCellBorders (w : Option (Nat × Nat) → Loc → Nat → List CellR → List CellR)
    (bs : List Border) (given : Option Loc) (tgt : List CellR) : List CellR :=
  let t1 := (bs.filter (!·.vert)).foldl (fun t b => w b.span (b.loc given) 1 t) tgt
  t1.map fun c => (bs.filter (·.vert)).foldl (fun c b => (w b.span (b.loc given) 1 [c]).headD c) c

/-- `ArrayRow.applyBorders(tocells, location)`; the border lists are the cached ones of `src` -/
def applyRow (w : Option (Nat × Nat) → Loc → Nat → List CellR → List CellR)
    (src : RowR) (given : Option Loc) (tgt : List CellR) : List CellR :=
  src.foldl (fun t c => applyCellBorders w (cellBorders c.items) given t) tgt

def styleUpdate (old s : ColStyle) : ColStyle :=
  ⟨if s.align != 0 then s.align else old.align, old.bl || s.bl, old.br || s.br⟩

/-- `for spec, cell in zip(self.colspec, cells): cell.style.update(getattr(cell,'colspec',spec).style)`
    with `cells` = every cell repeated `colspan` times -/
def styleRow : List ColStyle → RowR → RowR
  | _, [] => []
  | sp, c :: cs =>
    let c' := (sp.take c.span).foldl (fun (c : CellR) s => { c with style := styleUpdate c.style (c.own.getD s) }) c
    c' :: styleRow (sp.drop c.span) cs

def modifyAt (rows : List RowR) (i : Nat) (f : RowR → RowR) : List RowR :=
  match rows[i]? with
  | none => rows
  | some r => rows.set i (f r)

/-- the `for i, row in enumerate(self)` loop of `Array.applyBorders` -/
def tableLoop (w : Option (Nat × Nat) → Loc → Nat → List CellR → List CellR) (spec : List ColStyle) :
    Nat → Nat → Option Nat → List RowR → List RowR
  | 0, _, _, rows => rows
  | k + 1, i, prev, rows =>
    match rows[i]? with
    | none => rows
    | some row =>
      if rowBorderOnly row then
        if i == 0 && rows.length - 1 != 0 then
          tableLoop w spec k (i + 1) prev (modifyAt rows 1 (applyRow w row (some .top)))
        else match prev with
          | some p => tableLoop w spec k (i + 1) prev (modifyAt rows p (applyRow w row (some .bottom)))
          | none => tableLoop w spec k (i + 1) prev rows
      else
        tableLoop w spec k (i + 1) (some i) (rows.set i (styleRow spec (applyRow w row none row)))

/-- `Array.applyBorders`: the loop, then the border-only rows are popped -/
def applyBordersTable (spec : List ColStyle) (rows : List RowR) : List RowR :=
  (tableLoop walk spec rows.length 0 none rows).filter (!rowBorderOnly ·)
def applyBordersTableAsIs (spec : List ColStyle) (rows : List RowR) : List RowR :=
  (tableLoop walkAsIs spec rows.length 0 none rows).filter (!rowBorderOnly ·)

/-- rows of a digested array node -/
def rowsOf (arr : Node) : List RowR :=
  arr.ch.filterMap fun r => if r.kind == .row then some (r.ch.filter (·.kind == .cell) |>.map cellOf) else none

/-- `numCols` of `Array.linkCells` -/
def numCols (rows : List RowR) : Nat := (rows.map fun r => (r.map CellR.span).sum).foldl max 0


/-- first loop of `Array.linkCells` on one row: for a cell with `colspan > 1` the indices into
    `self.colspec` of `colspecStart` / `colspecEnd` (`none` = no attributes: not spanning, or the
    `IndexError` branch that deletes both).  `c` is the column offset of the cell (repaired code:
    `c += cell.attributes.get('colspan', 1)`). -/
def linkRow (ncols : Nat) : Nat → RowR → List (Option (Nat × Nat))
  | _, [] => []
  | c, cell :: cs =>
    (if cell.colspan.getD 0 > 1 ∧ c + cell.colspan.getD 0 - 1 < ncols then some (c, c + cell.colspan.getD 0 - 1) else none)
      :: linkRow ncols (c + cell.span) cs

/-- the pinned code: `for c, cell in enumerate(row)` — the index of the cell in the row -/
def linkRowAsIs (ncols : Nat) : Nat → RowR → List (Option (Nat × Nat))
  | _, [] => []
  | c, cell :: cs =>
    (if cell.colspan.getD 0 > 1 ∧ c + cell.colspan.getD 0 - 1 < ncols then some (c, c + cell.colspan.getD 0 - 1) else none)
      :: linkRowAsIs ncols (c + 1) cs

end PlasVerif.Model.Arrays
