/-!
Model of the cross-reference table of `plasTeX/Context.py` (`Context.label`, `Context.ref`),
of `Macro.refstepcounter` (sets `Context.currentlabel`), of the `ref` attribute written by
`Macro.postParse`, and of the `@id` / `@idref` attributes of nodes (`Macro.id`, `Macro.idref`).

Transcribed from the code as written:

* `Context.labels`, `Context.refs` are Python dicts; they are modelled as finite maps
  (`Label → Option …`), `del self.refs[label]` is `refs l := none`.
* `Context.label`: `strip()`, early return on a blank label, the node is the `node=` argument or
  `currentlabel`; only when there is a node the table entry and `node.id` are written; then the
  back-patching loop over `self.refs[label]` runs *only if* the label is in both tables, and
  patches **every** slot of every pending object whose current value has `.id == label`
  (whatever that value is: placeholder or real node).
* `Context.ref`: `strip()`, early return on blank, resolve now if the label is known, otherwise
  append the object to `refs[label]` (the same object can be queued several times) and install
  a fresh placeholder `Macro` whose id is the label.
* `persistentLabels` receives the same assignment as `labels` and is not read here (C20).

* `castLabel` / `castRef` (TeX.py) hand the argument text to `Context.label` / `Context.ref`: the
  normalised string, or (after the `fix:` commit for D14) the TeX source of the argument when it
  contains active characters such as `_` in math mode.  Names are abstract here; that equal
  spellings give equal names wherever they are written is tied by the `doc9` stream.

Abstractions (tied by the `lbl` stream): labels are `Nat`, `0` stands for any label that is
blank after `strip()`; a generated id (`Macro.id` on a node without `@id` makes one up) is
observed like "no id" (`none`) – it can never equal a label that is written in a document.
-/
namespace PlasVerif.Model.Labels

abbrev Label := Nat
abbrev NodeId := Nat
abbrev RefId := Nat
abbrev Slot := Nat
abbrev Num := Nat

/-- what `obj.idref[name]` holds -/
inductive Target where
  | node (n : NodeId)          -- a real, labelled node
  | placeholder (l : Label)    -- `self['Macro']()` with `.id = l`, not part of any document
  deriving DecidableEq, Repr

/-- the operations of a parse that touch the table -/
inductive Op where
  | numbered (n : NodeId)                       -- `n.refstepcounter(tex)` with `counter is not None`
  | number (n : NodeId) (v : Num)               -- `n.postParse`: `n.ref = \the<counter>` (value `v`)
  | label (l : Label) (node : Option NodeId)    -- `context.label(l, node)`
  | ref (r : RefId) (s : Slot) (l : Label)      -- `context.ref(r, s, l)`
  deriving DecidableEq, Repr

structure State where
  labels  : Label → Option NodeId            -- Context.labels
  refs    : Label → Option (List RefId)      -- Context.refs
  current : Option NodeId                    -- Context.currentlabel
  ids     : NodeId → Option Label            -- `@id` of real nodes
  nums    : NodeId → Option Num              -- `ref` attribute of real nodes
  idref   : RefId → Slot → Option Target     -- `@idref` dictionaries of referring objects

def init : State :=
  { labels := fun _ => none, refs := fun _ => none, current := none,
    ids := fun _ => none, nums := fun _ => none, idref := fun _ _ => none }

def upd {β} (f : Nat → β) (k : Nat) (v : β) : Nat → β := fun x => if x = k then v else f x

def upd2 {β} (f : Nat → Nat → β) (a b : Nat) (v : β) : Nat → Nat → β :=
  fun x y => if x = a ∧ y = b then v else f x y

/-- `value.id` -/
def idOf (ids : NodeId → Option Label) : Target → Option Label
  | .node n => ids n
  | .placeholder l => some l

/-- body of the inner loop: `if value.id != label: continue; obj.idref[key] = self.labels[label]` -/
def patchVal (ids : NodeId → Option Label) (l : Label) (n : NodeId) (v : Target) : Target :=
  if idOf ids v = some l then .node n else v

/-- one round of `for obj in self.refs[label]: for key, value in list(obj.idref.items()): …` -/
def patchObj (ids : NodeId → Option Label) (l : Label) (n : NodeId)
    (idref : RefId → Slot → Option Target) (r : RefId) : RefId → Slot → Option Target :=
  fun r' s => if r' = r then (idref r s).map (patchVal ids l n) else idref r' s

/-- `Context.label(label, node)` -/
def label (st : State) (l : Label) (node : Option NodeId) : State :=
  if l = 0 then st else
  let nd := match node with | some n => some n | none => st.current
  let st1 : State := match nd with
    | some n => { st with labels := upd st.labels l (some n), ids := upd st.ids n (some l) }
    | none => st
  match st1.refs l, st1.labels l with
  | some objs, some n =>
    { st1 with idref := objs.foldl (patchObj st1.ids l n) st1.idref, refs := upd st1.refs l none }
  | _, _ => st1

/-- `Context.ref(obj, name, label)` -/
def ref (st : State) (r : RefId) (s : Slot) (l : Label) : State :=
  if l = 0 then st else
  match st.labels l with
  | some n => { st with idref := upd2 st.idref r s (some (.node n)) }
  | none =>
    let objs := (st.refs l).getD []
    { st with refs := upd st.refs l (some (objs ++ [r])),
              idref := upd2 st.idref r s (some (.placeholder l)) }

def step (st : State) : Op → State
  | .numbered n => { st with current := some n }
  | .number n v => { st with nums := upd st.nums n (some v) }
  | .label l nd => label st l nd
  | .ref r s l => ref st r s l

def run (h : List Op) : State := h.foldl step init

def runFrom (st : State) (h : List Op) : State := h.foldl step st

/-! ### cross-document labels: `Context.restore` and the loop of `Compile.parse` -/

/-- one entry of a `.paux` file: label, the node re-created for it (`self[macroName]()`, not part
    of the document) and its persisted number -/
structure Entry where
  lab : Label
  node : NodeId
  num : Num
  deriving DecidableEq, Repr

/-- body of the loop of `Context.restore`: `n.restore(value); self.labels[key] = n`
    (`value` carries the persisted `id` — the label — and `ref`).  `persistentLabels` is not written. -/
def restore (st : State) (e : Entry) : State :=
  { st with labels := upd st.labels e.lab (some e.node),
            ids := upd st.ids e.node (some e.lab),
            nums := upd st.nums e.node (some e.num) }

def restoreAll (st : State) (es : List Entry) : State := es.foldl restore st

/-- a `*.paux` file found by `glob`: its base name (the job that wrote it) and its entries -/
structure PauxFile where
  job : Nat
  entries : List Entry
  deriving Repr

/-- `Compile.parse`: `for fname in glob(*.paux): if basename(fname) == '<jobname>.paux': continue;
    context.restore(fname)` and then `tex.parse()` -/
def compileParse (job : Nat) (files : List PauxFile) (h : List Op) : State :=
  runFrom ((files.filter (fun f => f.job ≠ job)).foldl (fun st f => restoreAll st f.entries) init) h

/-- what a renderer prints for a reference: `obj.idref[name].ref` (`??`/nothing for a placeholder) -/
def printed (st : State) (r : RefId) (s : Slot) : Option Num :=
  match st.idref r s with
  | some (.node n) => st.nums n
  | _ => none

end PlasVerif.Model.Labels
