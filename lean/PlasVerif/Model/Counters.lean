import PlasVerif.Generated.Counters
/-!
Model of the counter machinery of `plasTeX/__init__.py`: `Counter` (`stepcounter`, `setcounter`,
`addtocounter`, `resetcounters`), the representations (`arabic`, `Roman`/`numToRoman`, `roman`,
`Alph`, `alph`, `fnsymbol`) and `TheCounter.invoke` (the `\the<counter>` format interpreter),
plus `Context.newcounter`.

Transcribed from the code as written (after the `fix:` commits recorded in known_findings.txt):
* `context.counters` is an insertion-ordered dict  ->  `Store = List Ctr` (names unique: `newcounter`
  returns early on an existing name);
* `resetcounters` is a recursive loop over a snapshot of all counters; a cyclic `resetby` relation makes
  Python raise `RecursionError` -> the model's fuel (number of counters + 1) runs out and the same error is reported;
* Python's `divmod(x, 1000)` on `int` is floor division with a positive divisor = Lean's `Int` `/` and `%`;
* `"M" * n` with `n <= 0` is the empty string;
* `letters[v - 1]` uses Python's negative indexing.
Reusable by C09/C14 (numbers of labelled objects).
-/
namespace PlasVerif.Model.Counters
open PlasVerif.Generated.Counters

abbrev Name := String

/-- Python exceptions that can escape the counter code -/
inductive Err where
  | keyError | indexError | recursionError | attributeError
  deriving DecidableEq, Repr

structure Ctr where
  name : Name
  resetby : Option Name
  value : Int
  deriving DecidableEq, Repr

abbrev Store := List Ctr

/-- `counters[n].value` -/
def val (s : Store) (n : Name) : Option Int := (s.find? (fun c => c.name == n)).map (·.value)

/-- `counters[n].value = v` (in-place mutation of the one counter object of that name) -/
def setVal (s : Store) (n : Name) (v : Int) : Store :=
  s.map fun c => if c.name == n then { c with value := v } else c

/-- the immutable part of the store: names and `resetby` -/
def skel (s : Store) : List (Name × Option Name) := s.map fun c => (c.name, c.resetby)

/-- `if counter.resetby and self.name and counter.resetby == self.name` -/
def resetTest (resetby : Option Name) (self : Name) : Bool :=
  match resetby with
  | none => false
  | some r => r != "" && self != "" && r == self

/-- `Counter.resetcounters`:
    ```
    for counter in list(self.counters.values()):
        if counter.resetby and self.name and counter.resetby == self.name:
            counter.value = 0
            counter.resetcounters()
    ``` -/
def resetFrom : Nat → Name → Store → Except Err Store
  | 0, _, _ => .error .recursionError
  | f + 1, self, s =>
    s.foldlM (fun acc c =>
      if resetTest c.resetby self then resetFrom f c.name (setVal acc c.name 0) else pure acc) s

def fuelOf (s : Store) : Nat := s.length + 1

/-- `Counters.__getitem__` (`plasTeX/Context.py`): a missing name silently creates `Counter(context, name)`
    (value 0, no `resetby`) at the end of the dict -/
def ensure (s : Store) (n : Name) : Store :=
  if (val s n).isSome then s else s ++ [{ name := n, resetby := none, value := 0 }]

/-- value read through `counters[n]` (0 for a counter created on the spot) -/
def valD (s : Store) (n : Name) : Int := (val s n).getD 0

/-- `counters[n].stepcounter()` -/
def stepc (s : Store) (n : Name) : Except Err Store :=
  let s := ensure s n
  resetFrom (fuelOf s) n (setVal s n (valD s n + 1))

/-- `counters[n].setcounter(v)`: assigns the value (no reset of subordinate counters, as in LaTeX) -/
def setc (s : Store) (n : Name) (v : Int) : Store := setVal (ensure s n) n v

/-- `counters[n].addtocounter(d)` -/
def addc (s : Store) (n : Name) (d : Int) : Store :=
  let s := ensure s n
  setVal s n (valD s n + d)

/-- the pinned code before the repair: `setcounter`/`addtocounter` also called `resetcounters()` -/
def setcAsIs (s : Store) (n : Name) (v : Int) : Except Err Store :=
  let s := ensure s n
  resetFrom (fuelOf s) n (setVal s n v)

/-- `Context.newcounter(name, resetby, initial)`: nothing happens when the name exists -/
def newc (s : Store) (n : Name) (resetby : Option Name) (initial : Int) : Store :=
  if (val s n).isSome then s else s ++ [{ name := n, resetby := resetby, value := initial }]

/-! ## representations -/

/-- Python `s * n` -/
def repStr (s : String) : Nat → String
  | 0 => ""
  | n + 1 => s ++ repStr s n

/-- Python `s * n` on the character lists the roman builder works with -/
def repChars (s : List Char) : Nat → List Char
  | 0 => []
  | n + 1 => s ++ repChars s n

/-- `while number >= k: roman = roman + sym; number = number - k` (at most `number` iterations when `k ≥ 1`;
    the translator only emits `k ≥ 1`) -/
def whileGe (k : Nat) (sym : List Char) : Nat → List Char → Nat → List Char × Nat
  | 0, roman, number => (roman, number)
  | f + 1, roman, number =>
    if number ≥ k then whileGe k sym f (roman ++ sym) (number - k) else (roman, number)

/-- one statement of the translated body of `numToRoman` -/
def runStmt (st : List Char × Nat) (stmt : Bool × Nat × List Char) : List Char × Nat :=
  if stmt.1 then whileGe stmt.2.1 stmt.2.2 st.2 st.1 st.2
  else if st.2 ≥ stmt.2.1 then (st.1 ++ stmt.2.2, st.2 - stmt.2.1) else st

/-- `numToRoman(x)` as the list of characters of the Python string -/
def romanChars (x : Int) : List Char :=
  let n := x / (romanDiv : Int)
  let number := (x % (romanDiv : Int)).toNat
  (romanStmts.foldl runStmt (repChars romanThousand n.toNat, number)).1

/-- `numToRoman(x)` -/
def numToRoman (x : Int) : String := String.ofList (romanChars x)

/-- `str.lower()` / `str.upper()` on the ASCII strings that occur here -/
def lower (s : String) : String := s.map Char.toLower
def upper (s : String) : String := s.map Char.toUpper

/-- `encoding.stringletters()[v - 1]` with Python indexing -/
def letterAt (v : Int) : Except Err Char :=
  let n : Int := letters.length
  let i := v - 1
  if i < -n ∨ i ≥ n then .error .indexError
  else .ok (letters.toList.getD (if i < 0 then i + n else i).toNat 'a')

/-- `getattr(counter, format)` for the representation properties of `Counter` -/
def represent (v : Int) (fmt : String) : Except Err String :=
  match fmt with
  | "arabic" => .ok (toString v)
  | "Roman" => .ok (numToRoman v)
  | "roman" => .ok (lower (numToRoman v))
  | "Alph" => (letterAt v).map fun c => upper (String.singleton c)
  | "alph" => (letterAt v).map fun c => lower (upper (String.singleton c))
  | "fnsymbol" => .ok (repStr "*" v.toNat)
  | _ => .error .attributeError

/-! ## `TheCounter.invoke` -/

/-- a format string after the two regex passes: literal text and `${name}` / `${name.fmt}` references;
    and, for a `\the…` macro the *user* redefined with `\renewcommand`, the commands of its body:
    `\arabic{c}` / `\roman{c}` / … (`call`) and `\the…` (`macro`) -/
inductive Piece where
  | lit (s : String)
  | ref (name : Name) (fmt : Option String)
  /-- `\arabic{name}`, `\Roman{name}` … (`Base/LaTeX/Numbering.py`): `counters[name].<fmt>` -/
  | call (fmt : String) (name : Name)
  /-- a `\the…` control sequence in a user definition: expanded when the definition is -/
  | macro (name : Name)
  deriving DecidableEq, Repr

/-- a `\the<counter>` macro class: (`format` split into pieces, `trimLeft`) -/
structure TheDef where
  pieces : List Piece
  trimLeft : Bool
  deriving DecidableEq, Repr

/-- the `the…` macros visible in the context, innermost definition first -/
abbrev TheEnv := List (Name × TheDef)

/-- `while t.startswith("0."): t = t[2:]` -/
def trim : List Char → List Char
  | '0' :: '.' :: r => trim r
  | t => t

def trimLeftStr (t : String) : String := String.ofList (trim t.toList)

/-- `TheCounter.invoke` of the macro `self` (e.g. `"thesection"`); `counterValue` is the regex callback:
    a name starting with `the` other than this macro's own counter name invokes that macro, anything else is
    a counter whose representation is looked up (`counters[name]` never fails: a missing counter is created with
    value 0; that side effect on the store is not modelled, the value read is).  Unknown macro -> `KeyError` (the model's domain is closed
    under the `the…` macros that `newcounter`/`newtheorem`/the classes define). -/
def isMacroRef (self name : Name) : Bool :=
  -- `name.startswith('the') and name != re.sub(r'^the', '', self.__class__.__name__)`
  name.startsWith "the" && name != (self.drop 3).toString

/-- the regex callback `counterValue(m)` for one piece; `invoke` is what invoking another `\the…` macro does -/
def evalPiece (invoke : Name → Except Err String) (s : Store) (self : Name) : Piece → Except Err String
  | .lit t => pure t
  | .ref name fmt =>
    if isMacroRef self name then invoke name else represent (valD s name) (fmt.getD "arabic")
  | .call fmt name => represent (valD s name) fmt
  | .macro name => invoke name

/-! ### the two regex passes of `TheCounter.invoke` as a lexer

```
format = re.sub(r'\$(\w+)', r'${\1}', self.format)
t = re.sub(r'\$\{\s*([^\s.{}]+)(?:\.(\w+))?\s*\}', counterValue, format)
```
`\w` and `\s` are modelled on ASCII (letters, digits, `_`; blank, `\t \n \r \f \v`).  Because `+` is greedy and
the characters that may follow a name (`.`, blank, `{`, `}`) are not name characters, backtracking never finds a match
the left-to-right scan below does not find. -/

def isWord (c : Char) : Bool := c.isAlphanum || c == '_'
def isSpaceChar (c : Char) : Bool :=
  c == ' ' || c == '\t' || c == '\n' || c == '\r' || c == Char.ofNat 11 || c == Char.ofNat 12
/-- `[^\s.{}]`: what a counter name inside `${…}` may consist of (LaTeX names are `\csname` names) -/
def isNameChar (c : Char) : Bool := !(isSpaceChar c) && c != '.' && c != '{' && c != '}'

/-- first pass: every `$name` becomes `${name}` (`inW` = inside the name being copied) -/
def pass1 : Bool → List Char → List Char
  | inW, [] => if inW then ['}'] else []
  | inW, c :: r =>
    if inW && isWord c then c :: pass1 true r
    else
      let pre := if inW then ['}'] else []
      if c == '$' && (match r with | d :: _ => isWord d | [] => false) then pre ++ '$' :: '{' :: pass1 true r
      else pre ++ c :: pass1 false r

/-- after `${`: `\s*([^\s.{}]+)(?:\.(\w+))?\s*\}`; returns name, optional representation and the rest of the text -/
def matchRef (r : List Char) : Option (String × Option String × List Char) :=
  let r1 := r.dropWhile isSpaceChar
  let name := r1.takeWhile isNameChar
  let r2 := r1.dropWhile isNameChar
  if name.isEmpty then none
  else
    let close (fm : Option String) (r3 : List Char) : Option (String × Option String × List Char) :=
      match r3.dropWhile isSpaceChar with
      | '}' :: rest => some (String.ofList name, fm, rest)
      | _ => none
    match r2 with
    | '.' :: r3 =>
      let fm := r3.takeWhile isWord
      if fm.isEmpty then none else close (some (String.ofList fm)) (r3.dropWhile isWord)
    | _ => close none r2

def flushLit (acc : List Char) : List Piece := if acc.isEmpty then [] else [.lit (String.ofList acc.reverse)]

/-- second pass: the text between matches is literal, every match is a reference (`acc` = literal text so far, reversed) -/
def pass2 : Nat → List Char → List Char → List Piece
  | 0, _, acc => flushLit acc
  | _ + 1, [], acc => flushLit acc
  | f + 1, c :: r, acc =>
    if c == '$' then
      match r with
      | '{' :: r' =>
        match matchRef r' with
        | some (n, fm, rest) => flushLit acc ++ .ref n fm :: pass2 f rest []
        | none => pass2 f r (c :: acc)
      | _ => pass2 f r (c :: acc)
    else pass2 f r (c :: acc)

/-- `TheCounter.format` → pieces -/
def splitFormat (format : String) : List Piece :=
  let t := pass1 false format.toList
  pass2 (t.length + 1) t []

def evalThe : Nat → TheEnv → Store → Name → Except Err String
  | 0, _, _, _ => .error .recursionError
  | f + 1, env, s, self =>
    match env.lookup self with
    | none => .error .keyError
    | some d => do
      let parts ← d.pieces.mapM (evalPiece (evalThe f env s) s self)
      let t := String.join parts
      pure (if d.trimLeft then trimLeftStr t else t)

def theFuel (env : TheEnv) : Nat := env.length + 1

/-- `Context.newcounter(..., format, trimLeft)`: the macro `the<name>` is (re)defined only when the counter is new -/
def newThe (env : TheEnv) (n : Name) (d : TheDef) : TheEnv := ("the" ++ n, d) :: env

end PlasVerif.Model.Counters
