/-!
# Model of the per-document state holders  (property C17)

`TeXDocument.__init__`, `Context.__init__`, `TeX.__init__` and `Config.defaultConfig()` build, for every document,
a graph of mutable objects (dicts, lists, sets, instances).  Processing a document mutates objects it can reach from
its own holders.  What the property needs is that the holders of two documents share no mutable object (a default
argument, a class-level dict used as an instance default, a memo table …): then nothing one document does can be
seen by the other.

Objects are numbers; `refs o` are the objects `o` refers to (container elements, attribute values).
-/
namespace PlasVerif.Model.Holders

abbrev Heap := Nat → List Nat

/-- reachable from the holders `roots` by following references -/
inductive Reach (h : Heap) (roots : List Nat) : Nat → Prop
  | root {o : Nat} : o ∈ roots → Reach h roots o
  | step {a b : Nat} : Reach h roots a → b ∈ h a → Reach h roots b

/-- a mutation of object `c`: afterwards it refers to `new` -/
def write (h : Heap) (c : Nat) (new : List Nat) : Heap := fun o => if o = c then new else h o

/-- a reference a document may store: to an object it can reach, or to a freshly allocated (still empty) object
    that the other document cannot reach -/
def Storable (h : Heap) (RA RB : List Nat) (x : Nat) : Prop := Reach h RA x ∨ (h x = [] ∧ ¬ Reach h RB x)

/-- what a document does while it is processed: a sequence of mutations of objects reachable from its own holders
    `RA`, each storing storable references -/
inductive Steps (RA RB : List Nat) : Heap → Heap → Prop
  | done (h : Heap) : Steps RA RB h h
  | write {h h' : Heap} (c : Nat) (new : List Nat) :
      Reach h RA c → (∀ x ∈ new, Storable h RA RB x) → Steps RA RB (write h c new) h' → Steps RA RB h h'

/-- a sequence of mutations none of which touches an object reachable from `R` (at the time it happens) -/
inductive WritesAvoid (R : List Nat) : Heap → Heap → Prop
  | done (h : Heap) : WritesAvoid R h h
  | write {h h' : Heap} (c : Nat) (new : List Nat) :
      ¬ Reach h R c → WritesAvoid R (write h c new) h' → WritesAvoid R h h'

/-! executable reachability for the driver: graph as an edge list, iterate to a fixed point -/

def insertNat (n : Nat) : List Nat → List Nat
  | [] => [n]
  | x :: xs => if n < x then n :: x :: xs else if n = x then x :: xs else x :: insertNat n xs

def expand (edges : List (Nat × Nat)) (seen : List Nat) : List Nat :=
  edges.foldl (fun acc e => if seen.contains e.1 && !acc.contains e.2 then insertNat e.2 acc else acc) seen

def reachList (edges : List (Nat × Nat)) : Nat → List Nat → List Nat
  | 0, seen => seen
  | fuel + 1, seen =>
    let next := expand edges seen
    if next.length = seen.length then seen else reachList edges fuel next

def shared (edges : List (Nat × Nat)) (ra rb : List Nat) : List Nat :=
  let a := reachList edges (edges.length + 1) (ra.foldr insertNat [])
  let b := reachList edges (edges.length + 1) (rb.foldr insertNat [])
  a.filter b.contains

end PlasVerif.Model.Holders
