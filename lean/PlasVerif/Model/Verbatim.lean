import PlasVerif.Model.Tokenizer
/-!
Model of verbatim mode: `VerbatimEnvironment.invoke` (plasTeX/__init__.py) and
`verb.invoke` / `verb.digest` (plasTeX/Base/LaTeX/Verbatim.py), for a string source.

Both switch the category codes to `VERBATIM_CATEGORIES` (`setVerbatimCatcodes`) and then
pull tokens from the (lazy) tokenizer one at a time.  Under that table the tokenizer
delivers exactly one token per character (`C01.verbatim_identity`), so the unread input
after `k` tokens is `input.drop k`.

The model is of the code after two `fix:` commits:
* D11: `verb.invoke` switches the category codes *before* `parse` (whose look-ahead for the
  `*` modifier tokenises the delimiter);
* D15: `VerbatimEnvironment.invoke` only looks for the end marker that matches the way it was
  invoked (`\end{name}` after `\begin{name}`, `\endname` after `\name`).
-/
namespace PlasVerif.Model.Verbatim
open PlasVerif.Model.Catcodes PlasVerif.Model.Tokenizer PlasVerif.Generated.Catcodes

/-- `Token.__eq__(str)`: only the text of the token is compared with the one-character string -/
def tokIsChar : Tok → Nat → Bool
  | .ch _ c, d => c == d
  | .space, d => d == 32
  | .cs [c], d => c == d
  | .cs _, _ => false

/-- `str(token)` -/
def tokText : Tok → List Nat
  | .ch _ c => [c]
  | .space => [32]
  | .cs n => n

/-- entries of the Python list `tokens`: the environment node itself, then tokens -/
inductive Item where
  | self
  | tok (t : Tok)
  deriving DecidableEq, Repr

def itemIsChar : Item → Nat → Bool
  | .self, _ => false
  | .tok t, d => tokIsChar t d

/-- Python `list == list` of items against the characters of the pattern -/
def matchesPat : List Item → List Nat → Bool
  | [], [] => true
  | i :: is, c :: cs => itemIsChar i c && matchesPat is cs
  | _, _ => false

/-- `len(tokens) >= n and tokens[-n:] == pattern` -/
def endsWith (tokens : List Item) (pat : List Nat) : Bool :=
  decide (tokens.length ≥ pat.length) && matchesPat (tokens.drop (tokens.length - pat.length)) pat

structure ScanRes where
  tokens : List Item      -- the returned list (the node itself first)
  rest : List Tok         -- tokens not read
  found : Nat             -- 0: input exhausted, 1: `endpattern`, 2: `endpattern2`
  deriving DecidableEq, Repr

/-- the `for tok in tex:` loop of `VerbatimEnvironment.invoke` -/
def scanLoop (pat pat2 : List Nat) (tokens : List Item) : List Tok → ScanRes
  | [] => ⟨tokens, [], 0⟩
  | t :: ts =>
    let tokens' := tokens ++ [.tok t]
    if endsWith tokens' pat then ⟨tokens'.take (tokens'.length - pat.length), ts, 1⟩
    else if endsWith tokens' pat2 then ⟨tokens'.take (tokens'.length - pat2.length), ts, 2⟩
    else scanLoop pat pat2 tokens' ts

def strEnd : List Nat := [101, 110, 100]   -- "end"

/-- `list(r'%send%s%s%s' % (escape, bgroup, name, egroup))` -/
def endPattern (esc bg eg : Nat) (name : List Nat) : List Nat := esc :: strEnd ++ bg :: name ++ [eg]
/-- `list(r'%send%s' % (escape, name))` -/
def endPattern2 (esc : Nat) (name : List Nat) : List Nat := esc :: strEnd ++ name

/-- the pair of patterns the loop looks for; `begun` = invoked by `\begin{name}` (macroMode ≠ MODE_NONE) -/
def patterns (begun : Bool) (esc bg eg : Nat) (name : List Nat) : List Nat × List Nat :=
  let p1 := endPattern esc bg eg name
  let p2 := endPattern2 esc name
  if begun then (p1, p1) else (p2, p2)

/-- the pinned code looked for both markers whatever the invocation (D15) -/
def patternsAsIs (_begun : Bool) (esc bg eg : Nat) (name : List Nat) : List Nat × List Nat :=
  (endPattern esc bg eg name, endPattern2 esc name)

structure VerbRes where
  content : List Nat      -- characters of the tokens that become the node's children (`textContent`)
  closed : Bool           -- the end marker / closing delimiter was found
  resume : List Nat       -- unread input: processed again under the restored category codes
  deriving DecidableEq, Repr

def itemsText : List Item → List Nat
  | [] => []
  | .self :: r => itemsText r
  | .tok t :: r => tokText t ++ itemsText r

/-- `VerbatimEnvironment.invoke` on the input that follows `\begin{name}` (resp. `\name`);
    `esc bg eg` = first characters of the escape / begin-group / end-group classes at invocation time. -/
def verbatimEnvWith (pats : List Nat × List Nat) (input : List Nat) : VerbRes :=
  let toks := tokenize verbatimCats input
  let r := scanLoop pats.1 pats.2 [.self] toks
  { content := itemsText r.tokens, closed := r.found != 0, resume := input.drop (toks.length - r.rest.length) }

def verbatimEnv (begun : Bool) (esc bg eg : Nat) (name input : List Nat) : VerbRes :=
  verbatimEnvWith (patterns begun esc bg eg name) input

/-- `begin.invoke` (Base/LaTeX/Environments.py): `context.currenvir = name`, the name *written* in `\begin{…}` — not the
    class's own name (`obj.nodeName`), which differs when the environment is used under a `\let` alias
    (`\let\code\verbatim \let\endcode\endverbatim … \begin{code}`).  `VerbatimEnvironment.invoke` takes the name of
    its end marker from `currenvir`. -/
def currenvir (written _className : List Nat) : List Nat := written

/-- `\begin{written}` resolved to a verbatim class named `className`, followed by `input` -/
def verbatimBegun (esc bg eg : Nat) (written className input : List Nat) : VerbRes :=
  verbatimEnv true esc bg eg (currenvir written className) input

def verbatimEnvAsIs (begun : Bool) (esc bg eg : Nat) (name input : List Nat) : VerbRes :=
  verbatimEnvWith (patternsAsIs begun esc bg eg name) input

/-! ## `\verb` -/

/-- `for tok in tex: tokens.append(tok); if tok == endpattern: break` — returns the tokens read before the
    closing one, whether it was found, and the unread tokens -/
def untilTok (ep : Tok) : List Tok → List Tok × Bool × List Tok
  | [] => ([], false, [])
  | t :: ts => if t = ep then ([], true, ts) else
      let r := untilTok ep ts
      (t :: r.1, r.2.1, r.2.2)

structure VerbCmdRes where
  star : Bool
  res : VerbRes
  deriving DecidableEq, Repr

/-- `verb.invoke` + `verb.digest` on the input that follows `\verb` (fixed code: verbatim category codes are
    in force from the first character on).  `none` = `UnboundLocalError` (nothing follows). -/
def verbCmd (input : List Nat) : Option VerbCmdRes :=
  let toks := tokenize verbatimCats input
  -- `parse`: args = '*'  (readCharacter('*'): the token is consumed when its text is `*`, else pushed back)
  let (star, toks1) : Bool × List Tok := match toks with
    | t :: r => if tokIsChar t 42 then (true, r) else (false, toks)
    | [] => (false, [])
  match toks1 with
  | [] => none
  | d :: r =>
    let ep : Tok := if tokIsChar d 123 then .ch 12 125 else d
    let u := untilTok ep r
    -- digest: children = the tokens before the first one equal to the delimiter
    some { star := star,
           res := { content := (u.1.map tokText).flatten, closed := u.2.1,
                    resume := input.drop (toks.length - u.2.2.length) } }

/-- the pinned `verb.invoke` (D11): `parse` runs under the *current* category codes, so the token after
    `\verb` (the delimiter, or `*`) is produced by the ordinary tokenizer and then expanded; only characters
    whose ordinary token is a plain letter/other character token can match the closing delimiter.
    Modelled for the first character only: `some true` = delimiter usable. -/
def delimiterUsableAsIs (d : Nat) : Bool :=
  let code := whichCode defaultCats d
  code == 11 || code == 12 || code == 7 || code == 8   -- ^ and _ expand to `Other` outside math

end PlasVerif.Model.Verbatim
