import PlasVerif.Model.Args
import PlasVerif.Model.IfScan
/-!
Token-level model of the test primitives of `plasTeX/Base/TeX/Primitives.py` *including their operand
scanning*, and of the way `TeX.processIfContent` recognises the tokens it scans.  It composes the
models of `Macro.parse`/`readArgumentAndSource` (`Model/Args.lean`) and of `readInteger`/`readDimen`
(`Model/Numbers.lean`) as the code does:

```
class ifnum:  args = 'a:Number rel:Tok'
    def invoke(self, tex):
        self.parse(tex); attrs = self.attributes
        attrs['b'] = tex.readNumber()
        relation = attrs['rel']; a, b = attrs['a'], attrs['b']
        if relation == '<': tex.processIfContent(a < b) … elif '>' … elif '=' … raise ValueError
class ifdim:  args = 'a:Dimen rel:Tok b:Dimen'      (same chain)
class ifodd:  tex.processIfContent(bool(tex.readNumber() % 2))
class ifcase: tex.processIfContent(tex.readNumber())
```

and the head of the loop of `processIfContent`:
`name = getattr(t, 'macroName', '') or ''` then the chain `name == 'newif'`, `name.startswith('if')`,
`name == 'fi'`, `name == 'else'`, `name == 'or'`.
-/
namespace PlasVerif.Model.IfInvoke
open PlasVerif.Model.Numbers PlasVerif.Model.Args
open PlasVerif.Model.IfScan (Which)

inductive IErr where
  | num (e : Numbers.Err)     -- UnboundLocalError / TypeError out of a scanner
  | args (e : Args.Err)       -- the same out of `self.parse(tex)`
  | value                     -- ValueError: `"…" is not a valid relation`
  deriving DecidableEq, Repr

def numArg : Arg := { spec := .tok, ty := .tNumber }
def dimArg : Arg := { spec := .tok, ty := .tDimen }
def tokArg : Arg := { spec := .tok, ty := .token }

/-- the character a `rel:Tok` attribute compares equal to (`relation == '<'` is a string comparison:
    a character token is its character, an escape sequence is its name) -/
def relOf : Val → Option Nat
  | .toks [.ch c] => some c
  | .toks [.sp] => some 32
  | .toks [.cs [c] false] => some c
  | _ => none

/-- the `if relation == '<' … elif '>' … elif '=' … raise ValueError` chain -/
def relChain (rel : Option Nat) (lt gt eq : Bool) : Except IErr Which :=
  match rel with
  | some 60 => .ok (.bool lt)
  | some 62 => .ok (.bool gt)
  | some 61 => .ok (.bool eq)
  | _ => .error .value

/-- `ifnum.invoke` up to the `processIfContent` call: the selector and the stream left for the scan -/
def ifnumInvoke (ts : List Tok) : Except IErr (Which × List Tok) :=
  match parse [numArg, tokArg] ts with
  | .error e => .error (.args e)
  | .ok (vals, _, r) =>
    match readInteger true r with
    | .error e => .error (.num e)
    | .ok (b, r') =>
      match vals with
      | [.int a, rel] =>
        match relChain (relOf rel) (decide (a < b)) (decide (a > b)) (decide (a = b)) with
        | .ok w => .ok (w, r')
        | .error e => .error e
      | _ => .error .value

/-- `ifdim.invoke` -/
def ifdimInvoke (ts : List Tok) : Except IErr (Which × List Tok) :=
  match parse [dimArg, tokArg, dimArg] ts with
  | .error e => .error (.args e)
  | .ok (vals, _, r) =>
    match vals with
    | [.rat a, rel, .rat b] =>
      match relChain (relOf rel) (decide (a < b)) (decide (a > b)) (decide (a = b)) with
      | .ok w => .ok (w, r)
      | .error e => .error e
    | _ => .error .value

/-- `ifodd.invoke`: `bool(tex.readNumber() % 2)` (Python `%`) -/
def ifoddInvoke (ts : List Tok) : Except IErr (Which × List Tok) :=
  match readInteger true ts with
  | .error e => .error (.num e)
  | .ok (n, r) => .ok (.bool (n % 2 != 0), r)

/-- `ifcase.invoke` -/
def ifcaseInvoke (ts : List Tok) : Except IErr (Which × List Tok) :=
  match readInteger true ts with
  | .error e => .error (.num e)
  | .ok (n, r) => .ok (.case n, r)

inductive Kind where | num | dim | odd | case_
  deriving DecidableEq, Repr

def invoke : Kind → List Tok → Except IErr (Which × List Tok)
  | .num => ifnumInvoke | .dim => ifdimInvoke | .odd => ifoddInvoke | .case_ => ifcaseInvoke

/-! ### how the skipper recognises a token -/

def nmNewif : List Nat := [110, 101, 119, 105, 102]
def nmFi : List Nat := [102, 105]
def nmElse : List Nat := [101, 108, 115, 101]
def nmOr : List Nat := [111, 114]

/-- a token without the in-place expansion flag (the skipper reads `macroName`, which a token and the
    element it expanded to share; observations compare sources) -/
def flagless : Tok → Tok
  | .bg _ => .bg false | .eg _ => .eg false | .cs n _ => .cs n false | .reg v _ => .reg v false
  | t => t

/-- the `name == 'newif'` / `name.startswith('if')` / `name == 'fi'` / `'else'` / `'or'` chain.
    Character tokens, braces and registers have no such name. -/
def classify : Tok → IfScan.Tok (List Nat) Tok
  | .cs n x =>
    if n = nmNewif then .newif
    else if n.take 2 = [105, 102] then .ifl n
    else if n = nmFi then .fi
    else if n = nmElse then .else_
    else if n = nmOr then .or_
    else .other (.cs n false)
  | t => .other (flagless t)

def unclassify : IfScan.Tok (List Nat) Tok → Tok
  | .ifl n => .cs n false
  | .fi => .cs nmFi false
  | .else_ => .cs nmElse false
  | .or_ => .cs nmOr false
  | .newif => .cs nmNewif false
  | .other t => t

inductive PErr where
  | test (e : IErr)
  | scan (e : IfScan.Err)
  deriving DecidableEq, Repr

/-- `processIfContent(which)` on a raw token stream: the stream afterwards and `correctly_terminated` -/
def processIfRaw (w : Which) (ts : List Tok) : Except IfScan.Err (List Tok × Bool) :=
  match IfScan.processIf w (ts.map classify) with
  | .error e => .error e
  | .ok (r, t) => .ok (r.map unclassify, t)

/-- a whole test primitive: operand scanning, relation, branch scan, push-back -/
def condInvoke (k : Kind) (ts : List Tok) : Except PErr (List Tok × Bool) :=
  match invoke k ts with
  | .error e => .error (.test e)
  | .ok (w, r) =>
    match processIfRaw w r with
    | .error e => .error (.scan e)
    | .ok x => .ok x

/-! ### the pinned code before the D59 repair
`name = getattr(t, 'macroName', '') or ''` only: an element that a look-ahead pushed back has
`macroName = None` unless its class sets one (`else_`: `'else'`, `if_`: `'if'`), so an expanded `\fi`,
`\or`, `\iftrue`, `\if<switch>` is an ordinary token for the scanner. -/

def classifyAsIs : Tok → IfScan.Tok (List Nat) Tok
  | .cs n true =>
    if n = nmElse then .else_ else if n = [105, 102] then .ifl n else .other (.cs n false)
  | t => classify t

def condInvokeAsIs (k : Kind) (ts : List Tok) : Except PErr (List Tok × Bool) :=
  match invoke k ts with
  | .error e => .error (.test e)
  | .ok (w, r) =>
    match IfScan.processIf w (r.map classifyAsIs) with
    | .error e => .error (.scan e)
    | .ok (r', t) => .ok (r'.map unclassify, t)

end PlasVerif.Model.IfInvoke
