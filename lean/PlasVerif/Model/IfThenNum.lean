/-!
Model of how an operand of an `\ifthenelse` comparison becomes an integer: `ifthenelse.evaluate` collects the run of
CC_OTHER tokens (after the D54 repair also the blanks between the signs and the digits) and hands it to
`TeX.readInteger`, which is `readOptionalSigns` followed by `readSequence(string.digits)` and `int(…)`.
Transcribed from the code as written; characters stand for the (CC_OTHER / CC_SPACE) tokens.
-/
namespace PlasVerif.Model.IfThen

/-- `TeX.readOptionalSigns`: `sign = 1; for t in self: '+' → pass; '-' → sign = -sign; blank → continue;
    anything else → push back, break` -/
def readSigns : Int → List Char → Int × List Char
  | s, [] => (s, [])
  | s, c :: cs =>
    if c = '+' then readSigns s cs
    else if c = '-' then readSigns (-s) cs
    else if c = ' ' then readSigns s cs
    else (s, c :: cs)

/-- `int(t + self.readSequence(string.digits))`, accumulated left to right -/
def readDigits : Nat → List Char → Nat × List Char
  | acc, [] => (acc, [])
  | acc, c :: cs => if c.isDigit then readDigits (acc * 10 + (c.toNat - 48)) cs else (acc, c :: cs)

/-- `readInteger` on the characters of one operand.  `none` is the "Missing number, treating as 0" warning branch and
    the case of characters left over after the digits: the real code then goes on with other values; the property only
    speaks about well-formed operands, for which `some` is returned (theorem `signed_operand_value`). -/
def readSigned (cs : List Char) : Option Int :=
  match readSigns 1 cs with
  | (s, c :: r) =>
    if c.isDigit then
      match readDigits 0 (c :: r) with
      | (n, []) => some (s * (n : Int))
      | _ => none
    else none
  | (_, []) => none

end PlasVerif.Model.IfThen
