import PlasVerif.Generated.Catcodes
/-!
Model of LaTeX-source reconstruction (`node.source`) for mathematics:
`Macro.source` (plasTeX/__init__.py), `sourceChildren`, `sourceArguments`,
`bgroup.source` (Base/TeX/Text.py), `math.source`, `displaymath.source`,
`mathjax_lt_gt`, `math.mathjax_source` (Base/LaTeX/Math.py), `Array.source` (Base/LaTeX/Arrays.py).

The DOM is represented first-child / next-sibling: every constructor carries the rest of its
sibling list, so `sourceChildren(o) = ''.join(x.source for x in o.childNodes)` is `src kids`.
`argSrc` is the string `Macro.parse` accumulated in `self.argSource` while reading the arguments.
-/
namespace PlasVerif.Model.MathSource
open PlasVerif.Generated.Catcodes

inductive Dom where
  | nil
  | chr (c : Nat) (next : Dom)                                  -- a character token / text: source is the character
  | blank (next : Dom)                                          -- a `Space` token: source `' '`
  | macro (name argSrc : List Nat) (kids : Dom) (next : Dom)    -- a `Command` going through `Macro.source`
  | active (c : Nat) (argSrc : List Nat) (next : Dom)           -- `active::c` commands (`^`, `_`, `&`): no escape character
  | bgroup (kids : Dom) (next : Dom)                            -- `{ ... }`
  | math (kids : Dom) (next : Dom)                              -- the `math` environment
  | displaymath (kids : Dom) (next : Dom)
  | env (name argSrc : List Nat) (kids : Dom) (next : Dom)      -- environment node in MODE_BEGIN (`equation`, `array`)
  deriving DecidableEq, Repr

def Dom.isNil : Dom → Bool
  | .nil => true
  | _ => false

/-- `c in encoding.stringletters()` -/
def isLetter (c : Nat) : Bool := asciiLetters.contains c

/-- the argument part of `Macro.source`:
    `if not argSource: ' '  elif argSource[0] in letters and not (len(name) == 1 and name[0] not in letters): ' ' + argSource` -/
def fixArg (name argSrc : List Nat) : List Nat :=
  match argSrc with
  | [] => [32]
  | c :: _ =>
    if isLetter c && !(match name with | [n] => !isLetter n | _ => false) then 32 :: argSrc else argSrc

def strBegin : List Nat := [98, 101, 103, 105, 110]   -- "begin"
def strEnd : List Nat := [101, 110, 100]              -- "end"

/-- `x.source` concatenated along a sibling list -/
def src : Dom → List Nat
  | .nil => []
  | .chr c n => c :: src n
  | .blank n => 32 :: src n
  | .macro name a kids n => (92 :: name ++ fixArg name a ++ src kids) ++ src n
  | .active c a n => (c :: fixArg [c] a) ++ src n
  -- bgroup.source: '{%s}' with children, '{}' without (closed group)
  | .bgroup kids n => (123 :: src kids ++ [125]) ++ src n
  -- math.source: '$%s$' with children, '$' without
  | .math kids n => (if kids.isNil then [36] else 36 :: src kids ++ [36]) ++ src n
  -- displaymath.source: r'\[ %s \]' with children, r'\[' without
  | .displaymath kids n => (if kids.isNil then [92, 91] else [92, 91, 32] ++ src kids ++ [32, 92, 93]) ++ src n
  -- Macro.source / Array.source, MODE_BEGIN: '\begin{name}' argSource-or-blank, then children and '\end{name}' when there are children
  | .env name a kids n =>
    (92 :: strBegin ++ 123 :: name ++ 125 :: (if a.isEmpty then [32] else a) ++
      (if kids.isNil then [] else src kids ++ 92 :: strEnd ++ 123 :: name ++ [125])) ++ src n

/-- `readToken(expanded=True)`: the source of one argument: `{` children `}` for a group, else the token's node -/
def argSource (braced : Bool) (arg : Dom) : List Nat :=
  if braced then 123 :: src arg ++ [125] else src arg

/-- `readGrouping('[]', expanded=True)`: `[` children `]` -/
def optSource (arg : Dom) : List Nat := 91 :: src arg ++ [93]

/-- Python `s.replace(chr(c), r)` for a one-character needle -/
def replaceChar (c : Nat) (r : List Nat) : List Nat → List Nat
  | [] => []
  | x :: xs => if x = c then r ++ replaceChar c r xs else x :: replaceChar c r xs

def strLt : List Nat := [92, 108, 116, 32]    -- r'\lt '
def strGt : List Nat := [92, 103, 116, 32]    -- r'\gt '

/-- `mathjax_lt_gt(s) = s.replace('<', r'\lt ').replace('>', r'\gt ')` -/
def mathjaxLtGt (s : List Nat) : List Nat := replaceChar 62 strGt (replaceChar 60 strLt s)

/-- `math.mathjax_source`: `r'\({}\)'.format(mathjax_lt_gt(sourceChildren(self)))`, `''` without children -/
def mathjaxInline (kids : Dom) : List Nat :=
  if kids.isNil then [] else [92, 40] ++ mathjaxLtGt (src kids) ++ [92, 41]

/-! ## known finding D17 (as-is variant)

`bgroup.digest` and `ArrayCell.digest` end with `paragraphs()` → `normalize(document.charsubs)`; a brace group or an
array cell *inside mathematics* therefore gets TeX's text ligatures substituted in its text (`'` → U+2019, `--` → U+2013,
…) although `NoCharSubEnvironment.normalize` protects the direct children of the math environment.  `src` above is the
repaired behaviour (no substitution in mathematics); `srcGroupAsIs` is the pinned behaviour for the rule `'` → `’`. -/
def charsubQuote : List Nat → List Nat := replaceChar 39 [8217]

def srcGroupAsIs (kids : Dom) : List Nat := 123 :: charsubQuote (src kids) ++ [125]

end PlasVerif.Model.MathSource
