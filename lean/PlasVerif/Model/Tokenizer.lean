import PlasVerif.Model.Catcodes
/-!
Model of `plasTeX/Tokenizer.py`: `Tokenizer.iterchars` (character reader with `^^X`
decoding, ignored/invalid filtering, one-character push-back) and `Tokenizer.__iter__`
(the N/M/S state machine), for a string source.

The push-back buffer and the source are one list (`pushChar` = `cons`); `readline`
(bound to the source's own `readline` in `__init__`) drops the rest of the line.
The model is of the code after the two `fix:` commits (D1: `^^` at end of input;
D14: blanks are skipped after a control *word*, decided by the category of the
characters read, not by `string.ascii_letters`).
-/
namespace PlasVerif.Model.Tokenizer
open PlasVerif.Model.Catcodes PlasVerif.Generated.Catcodes

inductive Tok where
  | ch (cat c : Nat)        -- a character token of class `tokenClasses[cat]`
  | space                   -- Space(' ')
  | cs (name : List Nat)    -- EscapeSequence(name)   (also `par` and `active::c`)
  deriving DecidableEq, Repr

def parName : List Nat := [112, 97, 114]
def activePrefix : List Nat := [97, 99, 116, 105, 118, 101, 58, 58]   -- "active::"

/-- category carried by the token class `tokenClasses[code]` (regenerated table) -/
def classCat (code : Nat) : Nat := (tokenClassCat.lookup code).getD code

/-- `chr(num-64) if num >= 64 else chr(num+64)` -/
def hatDecode (e : Nat) : Nat := if e ≥ 64 then e - 64 else e + 64

/-- one step of `iterchars`: next significant (code, char) and the remaining input -/
def nextChar (t : CatTable) : List Nat → Option (Nat × Nat × List Nat)
  | [] => none
  | [c] =>
    let code := whichCode t c
    if code = 9 ∨ code = 15 then none else some (code, c, [])
  | [c, d] =>
    let code := whichCode t c
    if code = 7 then
      if d ≠ c then some (7, c, [d])
      else some (7, c, [c])           -- `^^` at end of input: second `^` pushed back (D1 fix)
    else if code = 9 ∨ code = 15 then nextChar t [d]
    else some (code, c, [d])
  | c :: d :: e :: es =>
    let code := whichCode t c
    if code = 7 then
      if d ≠ c then some (7, c, d :: e :: es)
      else
        let x := hatDecode e
        let code' := whichCode t x
        if code' = 9 ∨ code' = 15 then nextChar t es else some (code', x, es)
    else if code = 9 ∨ code = 15 then nextChar t (d :: e :: es)
    else some (code, c, d :: e :: es)

theorem nextChar_lt (t : CatTable) (cs : List Nat) :
    ∀ code ch rest, nextChar t cs = some (code, ch, rest) → rest.length < cs.length := by
  fun_induction nextChar t cs <;> intro _ _ _ h <;> simp_all <;> (try grind)

/-- `readline`: drop through the next `\n` -/
def dropLine : List Nat → List Nat
  | [] => []
  | c :: cs => if c = 10 then cs else dropLine cs

theorem dropLine_le (cs : List Nat) : (dropLine cs).length ≤ cs.length := by
  induction cs with
  | nil => simp [dropLine]
  | cons c cs ih => simp only [dropLine]; split <;> simp <;> omega

/-- inner loop of the escape branch: collect letters; the first non-letter is pushed back -/
def readWord (t : CatTable) (cs : List Nat) : List Nat × List Nat :=
  match h : nextChar t cs with
  | none => ([], [])
  | some (code, ch, rest) =>
    if code = 11 then
      let r := readWord t rest
      (ch :: r.1, r.2)
    else ([], ch :: rest)
termination_by cs.length
decreasing_by exact nextChar_lt t cs _ _ _ h

theorem readWord_le (t : CatTable) (cs : List Nat) : (readWord t cs).2.length ≤ cs.length := by
  fun_induction readWord t cs
  · simp
  · rename_i cs' ch rest r h ih
    have := nextChar_lt t cs' _ _ _ h
    simp only [r] at *; omega
  · rename_i cs' code ch rest h hc
    have := nextChar_lt t cs' _ _ _ h
    simp; omega

inductive St where | N | M | S
  deriving DecidableEq, Repr

/-- `Tokenizer.__iter__` on a string source.  `prevPar` = the last yielded token equals `\par`. -/
def tokFrom (t : CatTable) (st : St) (prevPar : Bool) (cs : List Nat) : List Tok :=
  match h : nextChar t cs with
  | none => []
  | some (code, ch, rest) =>
    if code = 11 ∨ code = 12 then .ch (classCat code) ch :: tokFrom t .M false rest
    else if code = 10 then
      match st with
      | .M => .space :: tokFrom t .S false rest
      | _ => tokFrom t st prevPar rest
    else if code = 5 then
      match st with
      | .S => tokFrom t .N prevPar rest
      | .M => .space :: tokFrom t .N false rest
      | .N =>
        if ch = 10 then
          if prevPar then tokFrom t .N true rest else .cs parName :: tokFrom t .N true rest
        else
          if prevPar then tokFrom t .N true (dropLine rest) else .cs parName :: tokFrom t .N true (dropLine rest)
    else if code = 0 then
      match h2 : nextChar t rest with
      | none => [.cs []]
      | some (c2, ch2, rest2) =>
        if c2 = 11 then
          let r := readWord t rest2
          .cs (ch2 :: r.1) :: tokFrom t .S (ch2 :: r.1 == parName) r.2
        else if c2 = 5 then .space :: tokFrom t .S false rest2
        else .cs [ch2] :: tokFrom t .M false rest2
    else if code = 14 then tokFrom t .N prevPar (dropLine rest)
    else if code = 13 then .cs (activePrefix ++ [ch]) :: tokFrom t .M false rest
    else .ch (classCat code) ch :: tokFrom t .M false rest
termination_by cs.length
decreasing_by
  all_goals (have h1 := nextChar_lt t cs _ _ _ h)
  all_goals (try have h3 := nextChar_lt t rest _ _ _ h2)
  all_goals (try have h4 := readWord_le t rest2)
  all_goals (try have h5 := dropLine_le rest)
  all_goals omega

/-- one pull from the token generator: the first token produced from the current state and the
    state afterwards (`none` = input exhausted).  Between two pulls the category table may change
    (`\catcode` executed by the consumer): the remaining input is re-read under the table of the
    next pull, exactly as the generator re-reads its character buffer. -/
def tokStep (t : CatTable) (st : St) (prevPar : Bool) (cs : List Nat) : Option (Tok × St × Bool × List Nat) :=
  match h : nextChar t cs with
  | none => none
  | some (code, ch, rest) =>
    if code = 11 ∨ code = 12 then some (.ch (classCat code) ch, .M, false, rest)
    else if code = 10 then
      match st with
      | .M => some (.space, .S, false, rest)
      | _ => tokStep t st prevPar rest
    else if code = 5 then
      match st with
      | .S => tokStep t .N prevPar rest
      | .M => some (.space, .N, false, rest)
      | .N =>
        if ch = 10 then
          if prevPar then tokStep t .N true rest else some (.cs parName, .N, true, rest)
        else
          if prevPar then tokStep t .N true (dropLine rest) else some (.cs parName, .N, true, dropLine rest)
    else if code = 0 then
      match nextChar t rest with
      | none => some (.cs [], .M, false, [])
      | some (c2, ch2, rest2) =>
        if c2 = 11 then
          let r := readWord t rest2
          some (.cs (ch2 :: r.1), .S, ch2 :: r.1 == parName, r.2)
        else if c2 = 5 then some (.space, .S, false, rest2)
        else some (.cs [ch2], .M, false, rest2)
    else if code = 14 then tokStep t .N prevPar (dropLine rest)
    else if code = 13 then some (.cs (activePrefix ++ [ch]), .M, false, rest)
    else some (.ch (classCat code) ch, .M, false, rest)
termination_by cs.length
decreasing_by
  all_goals (have h1 := nextChar_lt t cs _ _ _ h)
  all_goals (try have h5 := dropLine_le rest)
  all_goals omega

/-- a category-table operation issued by the consumer between pulls -/
inductive CatOp where
  | default | verbatim | set (c k : Nat)

def applyCatOp (t : CatTable) : CatOp → CatTable
  | .default => defaultCats
  | .verbatim => verbatimCats
  | .set c k => setCat t c k

/-- pull up to `n` tokens under the table `t` -/
def pullN (t : CatTable) : Nat → St → Bool → List Nat → List Tok × St × Bool × List Nat
  | 0, st, p, cs => ([], st, p, cs)
  | n + 1, st, p, cs =>
    match tokStep t st p cs with
    | none => ([], st, p, [])
    | some (tok, st', p', cs') =>
      let r := pullN t n st' p' cs'
      (tok :: r.1, r.2)

/-- a schedule: apply the operations, then pull that many tokens; after the schedule pull everything -/
def dynRun (t : CatTable) (st : St) (p : Bool) (cs : List Nat) : List (List CatOp × Nat) → List Tok
  | [] => tokFrom t st p cs
  | (ops, n) :: more =>
    let t' := ops.foldl applyCatOp t
    let r := pullN t' n st p cs
    r.1 ++ dynRun t' r.2.1 r.2.2.1 r.2.2.2 more

/-- `TeX().input(s).itertokens()` -/
def tokenize (t : CatTable) (s : List Nat) : List Tok := tokFrom t .N false s

end PlasVerif.Model.Tokenizer
