import PlasVerif.Generated.ListCounters
/-!
Model of the depth / counter bookkeeping of `plasTeX/Base/LaTeX/Lists.py`: `List.invoke`
(`userdata['list-depth']` ± 1, `setcounter(0)` of the list counters from the new depth on),
`List.item.invoke` (counter of the current depth — Python list indexing incl. negative
indices and the caught `IndexError` — and `position = value + 1`), `List.item.postArgument`
(`\item[label]` clears `self.counter`, then `refstepcounter` → `Counter.stepcounter`
→ `resetcounters`).  The list counters are `List.counters` = enumi … enumiv; the reset chain
(each reset by the previous one) is regenerated from the live context on every run
(`Generated.ListCounters.resetBy`; the theorems need only that a counter is reset by an EARLIER one,
theorem `enum_resets_downward`).
-/
namespace PlasVerif.Model.ListNumbering

/-- number of list counters, `len(List.counters)` -/
def nCounters : Nat := PlasVerif.Generated.ListCounters.counterNames.length

/-- the part of the document state the list macros touch -/
structure St where
  depth : Int            -- `ownerDocument.userdata.get('list-depth', 0)`
  c : Nat → Nat          -- value of `List.counters[i]` (i < 4)

/-- `List.counters[i]` for a Python index (negative indices count from the end); `none` = IndexError -/
def pyIndex (i : Int) : Option Nat :=
  if 0 ≤ i ∧ i < 4 then some i.toNat
  else if -4 ≤ i ∧ i < 0 then some (i + 4).toNat
  else none

/-- `setcounter(0)` of every list counter with index ≥ k -/
def zeroFrom (k : Nat) (c : Nat → Nat) : Nat → Nat := fun i => if k ≤ i then 0 else c i

/-- `for i in range(depth, len(List.counters)): counters[List.counters[i]].setcounter(0)` inside
    `try … except IndexError`: a start below -4 raises at once; a negative start touches every counter -/
def resetLoop (depth : Int) (c : Nat → Nat) : Nat → Nat :=
  if depth < -4 then c
  else if depth < 0 then zeroFrom 0 c
  else zeroFrom depth.toNat c

/-- `Counter.resetcounters` reaches counter `i` from counter `k`: `i` is reset by `k`, or by a counter that
    `k` reaches (the `resetby` table regenerated from the live context; fuel = number of list counters) -/
def reaches (tbl : List (Option Nat)) : Nat → Nat → Nat → Bool
  | 0, _, _ => false
  | f + 1, k, i =>
    match tbl[i]? with
    | some (some p) => p == k || reaches tbl f k p
    | _ => false

def resetsTo (k i : Nat) : Bool := reaches PlasVerif.Generated.ListCounters.resetBy nCounters k i

/-- `Counter.stepcounter`: `value += 1; resetcounters()` -/
def step (k : Nat) (c : Nat → Nat) : Nat → Nat := fun i => if i = k then c k + 1 else if resetsTo k i then 0 else c i

/-- `List.invoke` -/
def listInvoke (isBegin : Bool) (s : St) : St :=
  let d := if isBegin then s.depth + 1 else s.depth - 1
  { depth := d, c := resetLoop d s.c }

/-- what an item node carries afterwards: index of `self.counter` in `List.counters`
    (4 = the empty string left by `\item[label]`), and `self.position` -/
structure ItemObs where
  counter : Nat
  position : Nat
  deriving DecidableEq, Repr

/-- `List.item.invoke` + `postArgument` -/
def itemInvoke (hasTerm : Bool) (s : St) : ItemObs × St :=
  -- try: counter = List.counters[depth-1]; position = value + 1   except IndexError: class defaults ('enumi', 0)
  let (k, pos) := match pyIndex (s.depth - 1) with
    | some k => (k, s.c k + 1)
    | none => (0, 0)
  if hasTerm then (⟨4, pos⟩, s) else (⟨k, pos⟩, { s with c := step k s.c })

inductive Ev where
  | begin_ | end_ | item (hasTerm : Bool)
  deriving DecidableEq, Repr

/-- the macros invoked in document order -/
def run : List Ev → St → List ItemObs × St
  | [], s => ([], s)
  | .begin_ :: es, s => run es (listInvoke true s)
  | .end_ :: es, s => run es (listInvoke false s)
  | .item t :: es, s =>
    let (o, s') := itemInvoke t s
    let (os, s'') := run es s'
    (o :: os, s'')

def fresh : St := { depth := 0, c := fun _ => 0 }

end PlasVerif.Model.ListNumbering
