import PlasVerif.Model.Escape
/-!
# Model of the expression / filter layer of the Jinja2 templates (C12)

What a `{{ source | filter | … }}` interpolation of the HTML5 templates writes for a piece of document text:
* the *source* is either a DOM node (rendered through `Renderable.__str__`, i.e. through the escaping hook),
  or a raw Python string of document text (`.textContent`, `.source`, `.plain_listing`), or something that is
  not document text (urls, ids, configuration, pre-rendered markup): `trusted`;
* the filters are Jinja2's `e` / `escape` (markupsafe.escape) and `striptags` (markupsafe.Markup.striptags),
  mirrored as written;
* the position is element content or a double-quoted attribute value.
The table of all interpolations of the real template files is regenerated into `Generated/Templates.lean`.
-/
namespace PlasVerif.Model.TemplateExpr
open PlasVerif.Model.Escape

inductive Src where | rendered | raw | trusted
  deriving DecidableEq, Repr
inductive Filt where | striptags | esc
  deriving DecidableEq, Repr
inductive Pos where | text | attr
  deriving DecidableEq, Repr

structure Interp where
  file : String
  expr : String
  src : Src
  filts : List Filt
  pos : Pos
  /-- false: not one of the property's text positions (URL argument, math source, label, number); listed, not claimed -/
  inScope : Bool

/-- `markupsafe.escape`: `& < > ' "` become `&amp; &lt; &gt; &#39; &#34;` -/
def escape5Char (c : Nat) : List Nat :=
  if c = 38 then [38, 97, 109, 112, 59] else if c = 60 then [38, 108, 116, 59]
  else if c = 62 then [38, 103, 116, 59] else if c = 39 then [38, 35, 51, 57, 59]
  else if c = 34 then [38, 35, 51, 52, 59] else [c]

def escape5 (s : List Nat) : List Nat := s.flatMap escape5Char

/-- `value.find(pat)`: the text before the first occurrence and the text from it on -/
def findSplit (pat : List Nat) : List Nat → Option (List Nat × List Nat)
  | [] => if pat.isEmpty then some ([], []) else none
  | c :: cs =>
    if pat.isPrefixOf (c :: cs) then some ([], c :: cs)
    else match findSplit pat cs with
      | some (b, r) => some (c :: b, r)
      | none => none

/-- `while (start := value.find(open)) != -1: if (end := value.find(close, start)) == -1: break;
    value = value[:start] + value[end + len(close):]` -/
def removeDelimited (opn cls : List Nat) : Nat → List Nat → List Nat
  | 0, v => v
  | f + 1, v =>
    match findSplit opn v with
    | none => v
    | some (before, atStart) =>
      match findSplit cls atStart with
      | none => v
      | some (_, atClose) => removeDelimited opn cls f (before ++ atClose.drop cls.length)

/-- `" ".join(value.split())` -/
def collapseSpaces (s : List Nat) : List Nat :=
  let rec go : Bool → List Nat → List Nat
    | _, [] => []
    | pending, c :: cs =>
      if isSpace c then go true cs
      else (if pending then [32, c] else [c]) ++ go false cs
  match go false (dropSpaces s) with
  | r => r


/-- `Markup(value).striptags()`: comments removed, tags removed, white space collapsed, then `unescape`
    (`html.unescape`; passed in: the reader of references is Spec vocabulary) -/
def striptagsWith (unescape : List Nat → List Nat) (s : List Nat) : List Nat :=
  let v := removeDelimited [60, 33, 45, 45] [45, 45, 62] (s.length + 1) s
  let v := removeDelimited [60] [62] (v.length + 1) v
  unescape (collapseSpaces v)

/-- one filter step on a value with its type: `true` = `markupsafe.Markup` (already escaped: `escape` leaves it
    alone), `false` = plain `str`.  `escape` returns `Markup`, `striptags` returns `str`. -/
def applyFilt (unescape : List Nat → List Nat) : Filt → Bool × List Nat → Bool × List Nat
  | .esc, (true, x) => (true, x)
  | .esc, (false, x) => (true, escape5 x)
  | .striptags, (_, x) => (false, striptagsWith unescape x)

/-- the value the expression starts from, for document text `s` -/
def base (src : Src) (s : List Nat) : List Nat :=
  match src with
  | .rendered => textDefault false s
  | _ => s

/-- what the interpolation writes into the page for document text `s` -/
def emit (unescape : List Nat → List Nat) (i : Interp) (s : List Nat) : List Nat :=
  (i.filts.foldl (fun acc f => applyFilt unescape f acc) (false, base i.src s)).2

/-- the syntactic classes of interpolations that display document text as text (decidable, checked for every
    entry of the regenerated table) -/
def safe (i : Interp) : Bool :=
  match i.src, i.filts, i.pos with
  | .trusted, _, _ => true
  | .rendered, [], .text => true
  | .raw, [.esc], _ => true
  | .rendered, [.striptags, .esc], _ => true
  | .raw, [.striptags, .esc], _ => true
  | _, _, _ => false


/-! ## the TAL expressions of the XHTML templates (simpleTAL as plasTeX drives it)

`tal:content` / `tal:replace` insert a value as element content, `tal:attributes` as an attribute value.
A value that is a Python `str` (raw text such as `.textContent`, or anything that went through `string:…${path}…`)
is escaped by simpleTAL — `& < >` in content unless the expression says `structure`, `& < > " '` in attributes;
a DOM node is converted with `str(node)` (the render recursion, i.e. through the hook) and inserted as it is in
content, but escaped *again* in an attribute.  `stripped…` is not an expression type simpleTAL knows: it
evaluates to nothing. -/

inductive TalMode where | text | structure | dropped
  deriving DecidableEq, Repr
inductive TalPos where | content | attr
  deriving DecidableEq, Repr

structure TalInterp where
  file : String
  expr : String
  src : Src
  /-- the value is built by `string:` (so it is a `str` whatever the paths inside evaluate to) -/
  viaString : Bool
  mode : TalMode
  pos : TalPos
  inScope : Bool

/-- simpleTAL content escaping: `& < >` -/
def talEscapeText (s : List Nat) : List Nat :=
  s.flatMap fun c => if c = 38 then [38, 97, 109, 112, 59] else if c = 60 then [38, 108, 116, 59]
    else if c = 62 then [38, 103, 116, 59] else [c]

/-- simpleTAL attribute escaping (`html.escape(value, quote=True)`): `& < > "` and `'` (as `&#x27;`) -/
def talEscapeAttrChar (c : Nat) : List Nat :=
  if c = 38 then [38, 97, 109, 112, 59] else if c = 60 then [38, 108, 116, 59]
  else if c = 62 then [38, 103, 116, 59] else if c = 34 then [38, 113, 117, 111, 116, 59]
  else if c = 39 then [38, 35, 120, 50, 55, 59] else [c]

def talEscapeAttr (s : List Nat) : List Nat := s.flatMap talEscapeAttrChar

/-- what the TAL expression writes for document text `s` -/
def emitTal (i : TalInterp) (s : List Nat) : List Nat :=
  match i.mode with
  | .dropped => []
  | m =>
    let v := base i.src s
    let isStr := i.viaString || i.src != .rendered
    match i.pos with
    | .attr => talEscapeAttr v
    | .content => if isStr then (if m = .structure then v else talEscapeText v) else v

/-- the classes of TAL expressions that display document text as text -/
def safeTal (i : TalInterp) : Bool :=
  match i.src, i.mode, i.pos, i.viaString with
  | .trusted, _, _, _ => true
  | _, .dropped, _, _ => true
  | .rendered, _, .content, false => true
  | .raw, .text, .content, _ => true
  | .raw, _, .attr, _ => true
  | _, _, _, _ => false

end PlasVerif.Model.TemplateExpr
