import PlasVerif.Generated.Catcodes
/-!
Model of the category-code table of `plasTeX/Context.py`:
`Context.whichCode` (ordered membership tests, else 12), `Context.catcode`
(copy; delete the character from all 16 strings; append to the target unless 12),
`setVerbatimCatcodes`.  Characters are code points (`Nat`); a class is the list of the
characters of the Python string.
-/
namespace PlasVerif.Model.Catcodes
open PlasVerif.Generated.Catcodes

abbrev CatTable := List (List Nat)

def cls (t : CatTable) (i : Nat) : List Nat := t.getD i []

/-- `whichCode` with an explicit lookup order: first class in `order` containing `c`, else 12 -/
def whichCodeIn (t : CatTable) (c : Nat) : List Nat → Nat
  | [] => 12
  | i :: is => if c ∈ cls t i then i else whichCodeIn t c is

/-- `Context.whichCode` (lookup order regenerated from the source) -/
def whichCode (t : CatTable) (c : Nat) : Nat := whichCodeIn t c lookupOrder

/-- `Context.catcode(char, code)`:  `c[i] = c[i].replace(char, '')` for all i; `if code != 12: c[code] += char` -/
def setCat (t : CatTable) (c k : Nat) : CatTable :=
  let t' := t.map (fun s => s.filter (· != c))
  if k = 12 then t' else t'.modify k (· ++ [c])

def verbatimCats : CatTable := verbatimTable
def defaultCats : CatTable := defaultTable

end PlasVerif.Model.Catcodes
