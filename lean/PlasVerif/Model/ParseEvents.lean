import PlasVerif.Model.Labels
/-!
When does a macro become the current labelled object?  Model of the event protocol of `Macro.parse`
(`plasTeX/__init__.py`): `preParse`, the `for arg in self.arguments` loop with `preArgument` /
`postArgument`, `refstepcounter` and `postParse`, as far as `Context.currentlabel` and the `ref`
attribute are concerned.  Transcribed from the code as written:

* `preParse`:     `if not self.args: self.refstepcounter(tex)`
* `preArgument`:  `if arg.index == 0 and arg.name != '*modifier*': self.refstepcounter(tex)`
* `postArgument`: `if arg.index == 0 and arg.name == '*modifier*': if value: self.counter = ''; self.refstepcounter(tex)`
* `refstepcounter`: `if self.counter is not None: context.currentlabel = self; self.stepcounter(tex)`
* `postParse`:    `if self.counter:` (a non-empty name) and the level test → `self.ref = \the<counter>`

The events of a call are `Labels.Op`s: `numbered n` (the macro became `currentlabel`), `number n v`
(its `ref` was written), interleaved with whatever reading each argument produces (`\label`,
`\ref`, nested numbered macros).  Counter values are C08's; here `num` is the value captured.
-/
namespace PlasVerif.Model.ParseEvents
open PlasVerif.Model.Labels

/-- `self.counter`: `None`, `''` (starred form) or a counter name -/
inductive Ctr where
  | none | empty | named
  deriving DecidableEq, Repr

structure Arg where
  isModifier : Bool        -- `arg.name == '*modifier*'`
  given : Bool             -- the value read is truthy (the `*` is there / an optional argument is present)
  content : List Op        -- events while the argument is read and expanded
  deriving Repr

structure MacroCall where
  node : NodeId
  counter : Ctr
  num : Num                -- what `\the<counter>` expands to in `postParse`
  numberedLevel : Bool     -- `secnumdepth >= self.level or self.level > ENDSECTIONS_LEVEL`
  args : List Arg
  deriving Repr

/-- `refstepcounter` -/
def refstep (n : NodeId) : Ctr → List Op
  | .none => []
  | _ => [.numbered n]

/-- `postParse` -/
def postParse (n : NodeId) (c : Ctr) (v : Num) (lvl : Bool) : List Op :=
  if c = .named ∧ lvl = true then [.number n v] else []

/-- the argument loop; `idx` = `arg.index`, `c` = `self.counter` (the `*` may change it).
    Returns the events and the final counter. -/
def argLoop (n : NodeId) : Nat → Ctr → List Arg → List Op × Ctr
  | _, c, [] => ([], c)
  | idx, c, a :: as =>
    let pre := if idx = 0 ∧ a.isModifier = false then refstep n c else []
    let c' := if idx = 0 ∧ a.isModifier = true ∧ a.given = true then Ctr.empty else c
    let post := if idx = 0 ∧ a.isModifier = true then refstep n c' else []
    let r := argLoop n (idx + 1) c' as
    (pre ++ a.content ++ post ++ r.1, r.2)

/-- `Macro.parse` (begin / command mode) -/
def parse (m : MacroCall) : List Op :=
  match m.args with
  | [] => refstep m.node m.counter ++ postParse m.node m.counter m.num m.numberedLevel
  | as =>
    let r := argLoop m.node 0 m.counter as
    r.1 ++ postParse m.node r.2 m.num m.numberedLevel

/-- what reading all arguments produces -/
def contents (as : List Arg) : List Op := as.flatMap Arg.content

end PlasVerif.Model.ParseEvents
