/-!
# Model of the plasTeX DOM child-list editing (plasTeX/DOM/__init__.py), as written

A heap of nodes (`kids`, `parent`, `owner`, `kind`, `text`, `name`, `attr`, `attr2`), every operation transcribed
from the Python method of the same name: `Node.append`, `insert`, `pop`, `removeChild`, `insertBefore`,
`insertAfter`, `replaceChild`, `__setitem__`, `extend`, `appendText`, `normalize`, `cloneNode`,
`CharacterData.cloneNode`, `NamedNodeMap.__setitem__/_resetPosition` (only the key `self` holding a
fragment), `Node.childNodes` aliasing `attributes['self']`, and the derived views `_previousSibling`,
`_nextSibling`, `firstChild`, `lastChild`, `textContent`, `_getElementsByTagName`, `allChildNodes`,
`_compareDocumentPosition`.

Quirks kept on purpose: a fragment
receiver gives its *own parent* to the inserted node; a spliced-in fragment keeps listing its items and
gets the receiver as parent; `insertBefore/insertAfter/replaceChild` remove `newChild` first and then
search the reference (so the state changes even when `NotFoundErr` is raised); `__setitem__` is
insert-then-pop (observation O3); `normalize` pops everything and rebuilds, allocating a fresh text node
even for a single text child; Python list index rules (`list.insert` clamps, `list.pop` raises).
Recursion that Python bounds by its stack is bounded here by a fuel argument.
-/
namespace PlasVerif.Model.Dom

abbrev Id := Nat

inductive Kind | doc | elem | text | frag
  deriving DecidableEq, Repr, Inhabited

/-- Python exception classes raised by the modelled methods (`diverge` = the Python loop never ends:
    a list is extended while it is being iterated). -/
inductive Err | indexError | notFound | diverge | attributeError
  deriving DecidableEq, Repr

structure Heap where
  kids : Id → List Id          -- `_dom_childNodes`
  parent : Id → Option Id      -- `parentNode`
  owner : Id → Option Id       -- `ownerDocument`
  kind : Id → Kind
  text : Id → List Nat         -- characters of a text node (code points)
  name : Id → Nat              -- `nodeName` of an element (index into a small alphabet)
  attr : Id → Option Id        -- the fragment stored as `attributes['self']` (then `childNodes` *is* that fragment)
  attr2 : Id → Option Id       -- a fragment stored under another attribute key (`attributes['title']`): not the child list
  next : Id                    -- allocation counter

def upd {α} (f : Id → α) (i : Id) (v : α) : Id → α := fun j => if j = i then v else f j

/-- `Document()` -/
def init : Heap :=
  { kids := fun _ => [], parent := fun _ => none, owner := fun _ => some 0,
    kind := fun i => if i = 0 then .doc else .elem, text := fun _ => [], name := fun _ => 0,
    attr := fun _ => none, attr2 := fun _ => none, next := 1 }

/-- `createElement / createTextNode / createDocumentFragment` -/
def create (h : Heap) (d : Id) (k : Kind) (nm : Nat) (tx : List Nat) : Heap × Id :=
  let v := h.next
  ({ h with next := v + 1, kids := upd h.kids v [], parent := upd h.parent v none,
            owner := upd h.owner v (some d), kind := upd h.kind v k, text := upd h.text v tx,
            name := upd h.name v nm, attr := upd h.attr v none, attr2 := upd h.attr2 v none }, v)

/-! ## Python list primitives -/

/-- position used by `list.insert(i, x)` -/
def pyInsPos (n : Nat) (i : Int) : Nat :=
  if i < 0 then (if i + n < 0 then 0 else (i + n).toNat) else (if i > n then n else i.toNat)

def pyInsert (l : List Id) (i : Int) (x : Id) : List Id :=
  l.take (pyInsPos l.length i) ++ x :: l.drop (pyInsPos l.length i)

/-- index used by `list.pop(i)`; `none` = IndexError -/
def pyPopPos (n : Nat) (i : Int) : Option Nat :=
  let j := if i < 0 then i + n else i
  if j < 0 ∨ j ≥ n then none else some j.toNat

/-! ## child list access -/

/-- the node whose `_dom_childNodes` list is `self.childNodes` (the `self` attribute fragment if present) -/
def cn (h : Heap) (s : Id) : Id := (h.attr s).getD s

/-- `iter(self)` -/
def childList (h : Heap) (s : Id) : List Id := h.kids (cn h s)

/-- `self.childNodes.append(x)` for a non-fragment `x`; when `childNodes` is the attribute fragment
    this is `Node.append(fragment, x)`, which also sets parent and owner from the fragment. -/
def rawAppend (h : Heap) (s x : Id) : Heap :=
  match h.attr s with
  | none => { h with kids := upd h.kids s (h.kids s ++ [x]) }
  | some f => { h with kids := upd h.kids f (h.kids f ++ [x]),
                       parent := upd h.parent x (h.parent f), owner := upd h.owner x (h.owner f) }

def rawInsert (h : Heap) (s : Id) (i : Int) (x : Id) : Heap :=
  match h.attr s with
  | none => { h with kids := upd h.kids s (pyInsert (h.kids s) i x) }
  | some f => { h with kids := upd h.kids f (pyInsert (h.kids f) i x),
                       parent := upd h.parent x (h.parent f), owner := upd h.owner x (h.owner f) }

/-- the tail of `append`/`insert` with `setParent=True` -/
def setPO (h : Heap) (s c : Id) : Heap :=
  { h with parent := upd h.parent c (if h.kind s = .frag then h.parent s else some s),
           owner := upd h.owner c (h.owner s) }

def appendLeaf (h : Heap) (s c : Id) : Heap := setPO (rawAppend h s c) s c
def insertLeaf (h : Heap) (s : Id) (i : Int) (c : Id) : Heap := setPO (rawInsert h s i c) s c

/-- `Node.append(self, newChild)`; the `for item in newChild: self.append(item)` recursion is bounded by fuel -/
def append : Nat → Heap → Id → Id → Heap
  | 0, h, _, _ => h
  | fuel + 1, h, s, c =>
    if h.kind c = .frag then setPO ((h.kids c).foldl (fun a it => append fuel a s it) h) s c
    else appendLeaf h s c

/-- `Node.insert(self, i, newChild)` -/
def insert : Nat → Heap → Id → Int → Id → Heap
  | 0, h, _, _, _ => h
  | fuel + 1, h, s, i, c =>
    if h.kind c = .frag then
      setPO ((h.kids c).foldl (fun (a : Heap × Int) it => (insert fuel a.1 s a.2 it, a.2 + 1)) (h, i)).1 s c
    else insertLeaf h s i c

/-- fuel that covers every fragment nesting a heap of this size can have -/
def fuelOf (h : Heap) : Nat := h.next + 2

/-- `Node.pop(self, index)`: `none` = IndexError -/
def pop (h : Heap) (s : Id) (i : Int) : Heap × Option Id :=
  let f := cn h s
  match pyPopPos (h.kids f).length i with
  | none => (h, none)
  | some j =>
    match (h.kids f)[j]? with
    | none => (h, none)
    | some x =>
      -- `if node.parentNode is self: node.parentNode = None` (first in `Node.pop` of the attribute fragment, then here)
      let p1 := if h.parent x = some f then none else h.parent x
      let p2 := if p1 = some s then none else p1
      ({ h with kids := upd h.kids f ((h.kids f).eraseIdx j), parent := upd h.parent x p2 }, some x)

/-- `Node.removeChild` -/
def removeChild (h : Heap) (s c : Id) : Heap × Option Err :=
  let l := childList h s
  if c ∈ l then ((pop h s (l.idxOf c)).1, none) else (h, some .notFound)

/-- does the Python loop `for item in c: s.append(item)` terminate?  (not when it extends the list it iterates) -/
def splices (h : Heap) (s c : Id) : Bool := h.kind c = .frag && cn h c = cn h s && !(h.kids (cn h c)).isEmpty

def opAppend (h : Heap) (s c : Id) : Heap × Option Err :=
  if splices h s c then (h, some .diverge) else (append (fuelOf h) h s c, none)

def opInsert (h : Heap) (s : Id) (i : Int) (c : Id) : Heap × Option Err :=
  if splices h s c then (h, some .diverge) else (insert (fuelOf h) h s i c, none)

def opPop (h : Heap) (s : Id) (i : Int) : Heap × Option Err :=
  match pop h s i with
  | (h', some _) => (h', none)
  | (h', none) => (h', some .indexError)

/-- `Node.insertBefore(newChild, refChild)` / `insertAfter` (`off = 1`) -/
def insertRel (off : Nat) (h : Heap) (s new ref : Id) : Heap × Option Err :=
  let h1 := (removeChild h s new).1
  let l := childList h1 s
  if ref ∈ l then
    if splices h1 s new then (h1, some .diverge)
    else (insert (fuelOf h1) h1 s ((l.idxOf ref + off : Nat) : Int) new, none)
  else (h1, some .notFound)

def insertBefore := insertRel 0
def insertAfter := insertRel 1

/-- `Node.replaceChild(newChild, oldChild)` -/
def replaceChild (h : Heap) (s new old : Id) : Heap × Option Err :=
  let h1 := (removeChild h s new).1
  let l := childList h1 s
  if old ∈ l then
    let h2 := (pop h1 s (l.idxOf old)).1
    if splices h2 s new then (h2, some .diverge)
    else (insert (fuelOf h2) h2 s (l.idxOf old) new, none)
  else (h1, some .notFound)

/-- `Node.__setitem__(i, node)` with an integer index -/
def setItem (h : Heap) (s : Id) (i : Int) (c : Id) : Heap × Option Err :=
  if splices h s c then (h, some .diverge) else
  if h.kind c = .frag then
    let r := (h.kids c).foldl (fun (a : Heap × Int) it => (insert (fuelOf h) a.1 s a.2 it, a.2 + 1)) (h, i)
    opPop r.1 s r.2
  else opPop (insert (fuelOf h) h s i c) s (i + 1)

/-- `Node.extend(other)` with `other` a Python list of nodes -/
def extend (h : Heap) (s : Id) (items : List Id) : Heap × Option Err :=
  items.foldl (fun (a : Heap × Option Err) it => match a.2 with
    | some _ => a
    | none => opAppend a.1 s it) (h, none)

/-- `Node.extend(other)` with `other` a node (its children are iterated live) -/
def extendNode (h : Heap) (s o : Id) : Heap × Option Err :=
  if cn h o = cn h s && !(childList h o).isEmpty then (h, some .diverge) else extend h s (childList h o)

/-- `NamedNodeMap.__setitem__('self', f)` for a fragment `f` on an element whose `childNodes` was never
    touched: `_resetPosition` gives the items the fragment as parent and the element's document. -/
def setSelfAttr (h : Heap) (e f : Id) : Heap :=
  let h1 := (h.kids f).foldl (fun a it => { a with parent := upd a.parent it (some f), owner := upd a.owner it (a.owner e) }) h
  { h1 with attr := upd h1.attr e (some f) }

/-- `NamedNodeMap.__setitem__('title', f)` for a fragment `f`: an attribute-held fragment that is *not* the child
    list; `_resetPosition` gives the items the fragment as parent and the element's document. -/
def setAttr2 (h : Heap) (e f : Id) : Heap :=
  let h1 := (h.kids f).foldl (fun a it => { a with parent := upd a.parent it (some f), owner := upd a.owner it (a.owner e) }) h
  { h1 with attr2 := upd h1.attr2 e (some f) }

/-! ## normalize -/

/-- `Node.appendText(text)` (no character substitutions) -/
def appendText (h : Heap) (s : Id) (txt : List Id) : Heap :=
  if txt.isEmpty then h else
  let (h1, v) := create h ((h.owner s).getD 0) .text 0 (txt.flatMap h.text)
  let h2 := { h1 with parent := upd h1.parent v (some s), owner := upd h1.owner v (h1.owner s) }
  append (fuelOf h2) h2 s v

/-- `Node.normalize` -/
def normalize : Nat → Heap → Id → Heap
  | 0, h, _ => h
  | fuel + 1, h, s =>
    if h.kind s = .text then h else
    -- `for key, value in self.attributes.items(): if isinstance(value, Node): value.normalize()`
    let h00 := match h.attr s with
      | some f => normalize fuel h f
      | none => h
    let h0 := match h00.attr2 s with
      | some f => normalize fuel h00 f
      | none => h00
    let nodes := childList h0 s
    -- `while self.childNodes: self.pop()`
    let h1 := { h0 with kids := upd h0.kids (cn h0 s) [],
                        parent := fun j => if j ∈ nodes ∧ (h0.parent j = some s ∨ h0.parent j = some (cn h0 s)) then none else h0.parent j }
    let r := nodes.foldl (fun (a : Heap × List Id) item =>
      if a.1.kind item = .text then (a.1, a.2 ++ [item])
      else
        let a1 := appendText a.1 s a.2
        let a2 := append (fuelOf a1) a1 s item
        (normalize fuel a2 item, [])) (h1, [])
    appendText r.1 s r.2

def opNormalize (h : Heap) (s : Id) : Heap × Option Err :=
  if h.owner s = none then (h, some .attributeError) else (normalize (fuelOf h) h s, none)

/-! ## cloneNode -/

/-- `Node.cloneNode(deep)` / `CharacterData.cloneNode`; returns the heap and the clone -/
def clone : Nat → Heap → Id → Bool → Heap × Id
  | 0, h, s, _ => (h, s)
  | fuel + 1, h, s, deep =>
    let (h1, v) := create h 0 (h.kind s) (h.name s) (h.text s)
    let h2 := { h1 with parent := upd h1.parent v none, owner := upd h1.owner v (h.owner s) }
    if h.kind s = .text then (h2, v) else
    -- `node.attributes[key] = value`, with a fresh (shallow) clone of the fragment that is the child list
    let h3 := match h.attr s with
      | some f =>
        let (hf, f') := create h2 0 .frag (h.name f) []
        let hf := { hf with parent := upd hf.parent f' none, owner := upd hf.owner f' (h.owner f) }
        setSelfAttr hf v f'
      | none => h2
    -- other Node-valued attributes are stored in the clone as they are (the very same fragment)
    let h3 := match h.attr2 s with
      | some f2 => setAttr2 h3 v f2
      | none => h3
    if deep then
      ((childList h3 s).foldl (fun (a : Heap) x =>
          let (a1, cx) := clone fuel a x true
          append (fuelOf a1) a1 v cx) h3, v)
    else (h3, v)

/-- the pinned code before the repair: a shallow clone appends the *original's own children* to the clone -/
def cloneAsIs (h : Heap) (s : Id) : Heap × Id :=
  let (h3, v) := clone (fuelOf h) h s false
  ((childList h3 s).foldl (fun a x => append (fuelOf a) a v x) h3, v)

def opClone (h : Heap) (s : Id) (deep : Bool) : (Heap × Id) × Option Err :=
  (clone (fuelOf h) h s deep, none)

/-! ## derived views -/

def firstChild (h : Heap) (s : Id) : Option Id := (childList h s).head?
def lastChild (h : Heap) (s : Id) : Option Id := (childList h s).getLast?

/-- `_previousSibling` -/
def prevSibling (h : Heap) (n : Id) : Option Id :=
  match h.parent n with
  | none => none
  | some p =>
    let l := childList h p
    if n ∈ l then (if l.idxOf n = 0 then none else l[l.idxOf n - 1]?) else none

/-- `_nextSibling` -/
def nextSibling (h : Heap) (n : Id) : Option Id :=
  match h.parent n with
  | none => none
  | some p =>
    let l := childList h p
    if n ∈ l then l[l.idxOf n + 1]? else none

/-- `Node.textContent` (characters) -/
def textContent : Nat → Heap → Id → List Nat
  | 0, _, _ => []
  | fuel + 1, h, n =>
    if h.kind n = .text then h.text n
    else (childList h n).flatMap (fun c => if h.kind c = .text then h.text c else textContent fuel h c)

/-- `Node.allChildNodes` -/
def allChildNodes : Nat → Heap → Id → List Id
  | 0, _, _ => []
  | fuel + 1, h, n => (childList h n).flatMap (fun c => c :: allChildNodes fuel h c)

/-- `_getElementsByTagName(self, [tag])` -/
def getElementsByTagName : Nat → Heap → Id → Nat → List Id
  | 0, _, _, _ => []
  | fuel + 1, h, n, tag =>
    if h.kind n = .text then [] else
    -- "look in attributes dictionary for document fragments as well" (not the one that is the child list)
    (match h.attr2 n with
      | some f => getElementsByTagName fuel h f tag
      | none => []) ++
    (childList h n).flatMap (fun c =>
      (if h.kind c = .elem ∧ h.name c = tag then [c] else []) ++ getElementsByTagName fuel h c tag)

/-- the pinned code before the repair also walks `attributes.values()`, so the children held by the
    `self` attribute are reported twice -/
def getElementsByTagNameAsIs : Nat → Heap → Id → Nat → List Id
  | 0, _, _, _ => []
  | fuel + 1, h, n, tag =>
    if h.kind n = .text then [] else
    (match h.attr n with
      | some f => getElementsByTagNameAsIs fuel h f tag
      | none => []) ++
    (childList h n).flatMap (fun c =>
      (if h.kind c = .elem ∧ h.name c = tag then [c] else []) ++ getElementsByTagNameAsIs fuel h c tag)

/-- Python `list.__eq__`: same length and pairwise equal (identity first, then `==`) -/
def all2 {α} (p : α → α → Bool) : List α → List α → Bool
  | [], [] => true
  | x :: xs, y :: ys => p x y && all2 p xs ys
  | _, _ => false

/-- equality of two attribute values that are fragments or absent -/
def eqOpt (p : Id → Id → Bool) : Option Id → Option Id → Bool
  | none, none => true
  | some f, some g => p f g
  | _, _ => false

/-- `Node.__eq__` / `isEqualNode` (text nodes compare as strings): same `nodeName`, equal `attributes` (the
    fragments held under `self` and `title`), equal child lists -/
def eqNode : Nat → Heap → Id → Id → Bool
  | 0, _, a, b => a == b
  | fuel + 1, h, a, b =>
    if h.kind a = .text ∨ h.kind b = .text then
      h.kind a = .text && h.kind b = .text && h.text a == h.text b
    else
      h.kind a == h.kind b && (h.kind a != .elem || h.name a == h.name b) &&
      eqOpt (fun f g => f == g || eqNode fuel h f g) (h.attr a) (h.attr b) &&
      eqOpt (fun f g => f == g || eqNode fuel h f g) (h.attr2 a) (h.attr2 b) &&
      all2 (fun x y => x == y || eqNode fuel h x y) (childList h a) (childList h b)

/-- `parent = self; while parent is not None: …` : the chain from `n` upwards, or `inl` when `stop` is met -/
def chainUp : Nat → Heap → Id → Id → List Id → Option (List Id)
  | 0, _, _, _, acc => some acc
  | fuel + 1, h, n, stop, acc =>
    if n = stop then none else
    match h.parent n with
    | none => some (n :: acc)
    | some p => chainUp fuel h p stop (n :: acc)

def scanItems (l : List Id) (s o : Id) : Option Nat :=
  match l with
  | [] => none
  | x :: xs => if x = s then some 4 else if x = o then some 2 else scanItems xs s o

/-- the double loop at the end of `_compareDocumentPosition`; `sp`, `op` are root-first chains -/
def cmpLoop (h : Heap) (sp op : List Id) : Nat :=
  let rec outer (i : Nat) (rest : List Id) : Nat :=
    match rest with
    | [] => 1
    | x :: xs =>
      let rec inner (j : Nat) (r2 : List Id) : Option Nat :=
        match r2 with
        | [] => none
        | y :: ys =>
          if x = y then
            match sp[i + 1]?, op[j + 1]? with
            | some s, some o =>
              if s = o then inner (j + 1) ys      -- (repair) not yet the lowest common ancestor
              else match scanItems (childList h x) s o with
                | some r => some r
                | none => inner (j + 1) ys
            | _, _ => some 99                     -- IndexError in the Python code
          else inner (j + 1) ys
      match inner 0 op with
      | some r => r
      | none => outer (i + 1) xs
  outer 0 sp

/-- `_compareDocumentPosition(self, other)`; 1 disconnected, 2 other precedes, 4 other follows,
    8 other contains self, 16 other is contained by self, 32 same node -/
def compareDocumentPosition (h : Heap) (a b : Id) : Nat :=
  if h.owner a ≠ h.owner b then 1
  else if prevSibling h a = some b then 2
  else if nextSibling h a = some b then 4
  else if a = b then 32
  else match chainUp (fuelOf h) h a b [] with
    | none => 8
    | some sp => match chainUp (fuelOf h) h b a [] with
      | none => 16
      | some op => cmpLoop h sp op

end PlasVerif.Model.Dom
