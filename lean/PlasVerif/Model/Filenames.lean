import PlasVerif.Generated.Filenames
/-!
Model of `plasTeX/Filenames.py` (class `Filenames`), transcribed from the code as written
(after the `fix:` commits for D12, D14, D15, D16, D17 — see `known_findings.txt`).

Strings are lists of code points (`Nat`).  Reusable API:
* `parseTemplate : Str → Option (List Item)`   — `Filenames.parseFilenames`
* `initial : List Item → Env → List Str → State` — `Filenames.__init__` + the prologue of `_newFilename`
* `request : Config → State → Env → State × Result × List Event` — the caller updates `variables`
  with the bindings and calls the object once (`__call__` → `__next__` → generator step)

The regexes of `parseFilenames` / `_newFilename` / `string.Template` are hand-written scanners
(`scan` with a per-position matcher returning replacement and consumed length).  Template text is
assumed ASCII (`\w`, `\d` are modelled on ASCII only); variable values are arbitrary code points.
-/
namespace PlasVerif.Model.Filenames
open PlasVerif.Generated.Filenames

abbrev Str := List Nat
/-- a Python `dict` of `str → str`: association list, first match wins -/
abbrev Env := List (Str × Str)

def envGet : Env → Str → Option Str
  | [], _ => none
  | (k, v) :: r, x => if k = x then some v else envGet r x

def envHas (e : Env) (x : Str) : Bool := (envGet e x).isSome

/-- `d[x] = v` -/
def envSet : Env → Str → Str → Env
  | [], x, v => [(x, v)]
  | (k, w) :: r, x, v => if k = x then (k, v) :: r else (k, w) :: envSet r x v

/-- `del d[x]` (when present) -/
def envErase : Env → Str → Env
  | [], _ => []
  | (k, w) :: r, x => if k = x then envErase r x else (k, w) :: envErase r x

/-- `d.update(b)` -/
def envUpdate (e b : Env) : Env := b.foldl (fun e kv => envSet e kv.1 kv.2) e

/-! ### character classes -/
def isSpace (c : Nat) : Bool := spaceCodes.contains c
def isDigit (c : Nat) : Bool := decide (48 ≤ c ∧ c ≤ 57)
def isAlpha (c : Nat) : Bool := decide ((65 ≤ c ∧ c ≤ 90) ∨ (97 ≤ c ∧ c ≤ 122))
/-- `\w` on ASCII -/
def isWord (c : Nat) : Bool := isDigit c || isAlpha c || c == 95
/-- first character of `string.Template.idpattern` `[_a-z][_a-z0-9]*` (IGNORECASE) -/
def isIdStart (c : Nat) : Bool := isAlpha c || c == 95

def cDollar : Nat := 36
def cLBrace : Nat := 123
def cRBrace : Nat := 125
def cLPar : Nat := 40
def cRPar : Nat := 41
def cLBrack : Nat := 91
def cRBrack : Nat := 93
def cComma : Nat := 44
def cDot : Nat := 46
def cSlash : Nat := 47
def cZero : Nat := 48
/-- the key `'num'` -/
def numKey : Str := [110, 117, 109]

/-- `re.sub(pattern, repl, s)` for a pattern that never matches the empty string: at each position
    the matcher either fails (the character is copied) or gives the replacement and the number of
    characters consumed; `skip` counts characters of the current match still to be dropped. -/
def scan (m : Str → Option (Str × Nat)) : Nat → Str → Str
  | _, [] => []
  | skip + 1, _ :: cs => scan m skip cs
  | 0, c :: cs =>
    match m (c :: cs) with
    | some (rep, n) => rep ++ scan m (n - 1) cs
    | none => c :: scan m 0 cs

/-! ### `parseFilenames`: the normalising substitutions -/

/-- `\$(\w+)` → `${\1}` -/
def mDollarWord : Str → Option (Str × Nat)
  | c :: r =>
    let w := r.takeWhile isWord
    if c = cDollar ∧ w ≠ [] then some (cDollar :: cLBrace :: w ++ [cRBrace], 1 + w.length) else none
  | [] => none

/-- `\${\s*(\w+)\s*}` → `${\1}` -/
def mBraced : Str → Option (Str × Nat)
  | c :: d :: r =>
    let s1 := r.takeWhile isSpace
    let r1 := r.dropWhile isSpace
    let w := r1.takeWhile isWord
    let r2 := r1.dropWhile isWord
    let s2 := r2.takeWhile isSpace
    match r2.dropWhile isSpace with
    | e :: _ =>
      if c = cDollar ∧ d = cLBrace ∧ w ≠ [] ∧ e = cRBrace then
        some (cDollar :: cLBrace :: w ++ [cRBrace], 2 + s1.length + w.length + s2.length + 1)
      else none
    | [] => none
  | _ => none

/-- `\}\(\s*(\d+)\s*\)` → `.\1}` -/
def mFormat : Str → Option (Str × Nat)
  | c :: d :: r =>
    let s1 := r.takeWhile isSpace
    let r1 := r.dropWhile isSpace
    let w := r1.takeWhile isDigit
    let r2 := r1.dropWhile isDigit
    let s2 := r2.takeWhile isSpace
    match r2.dropWhile isSpace with
    | e :: _ =>
      if c = cRBrace ∧ d = cLPar ∧ w ≠ [] ∧ e = cRPar then
        some (cDot :: w ++ [cRBrace], 2 + s1.length + w.length + s2.length + 1)
      else none
    | [] => none
  | _ => none

/-- `\[\s*` → `[` -/
def mOpen : Str → Option (Str × Nat)
  | c :: r => if c = cLBrack then some ([cLBrack], 1 + (r.takeWhile isSpace).length) else none
  | [] => none

/-- `\s*\]` → `]` -/
def mClose (l : Str) : Option (Str × Nat) :=
  match l.dropWhile isSpace with
  | e :: _ => if e = cRBrack then some ([cRBrack], (l.takeWhile isSpace).length + 1) else none
  | [] => none

/-- `\s*,\s*` → `,` -/
def mComma (l : Str) : Option (Str × Nat) :=
  match l.dropWhile isSpace with
  | e :: r =>
    if e = cComma then some ([cComma], (l.takeWhile isSpace).length + 1 + (r.takeWhile isSpace).length) else none
  | [] => none

/-- `str.strip()` -/
def strip (s : Str) : Str := ((s.dropWhile isSpace).reverse.dropWhile isSpace).reverse

def normalise (spec : Str) : Str :=
  scan mComma 0 (scan mClose 0 (scan mOpen 0 (scan mFormat 0 (scan mBraced 0 (scan mDollarWord 0 (strip spec))))))

/-! ### `parseFilenames`: the character loop -/

/-- one element of `Filenames.files`: a `str` or a `list` of `str` -/
inductive Item where
  | name (s : Str)
  | alts (xs : List Str)
  deriving DecidableEq, Repr

/-- loop state: finished elements (reversed), the current last element `files[-1]`,
    inside `[ … ]`: the options collected so far (reversed; head = `options[-1]`) and the prefix;
    `bad` = a second `[` inside one name (the code then builds lists of lists; outside the model). -/
structure PState where
  done : List Item
  cur : Item
  br : Option (Str × List Str)
  bad : Bool

def pStep (st : PState) (c : Nat) : PState :=
  match st.br with
  | some (p, o :: os) =>
    if c = cComma then { st with br := some (p, p :: o :: os) }
    else if c = cRBrack then { st with cur := .alts ((o :: os).reverse.filter (· ≠ [])), br := none }
    else { st with br := some (p, (o ++ [c]) :: os) }
  | some (_, []) => st   -- unreachable: the option list starts with the prefix
  | none =>
    if isSpace c then { st with done := st.cur :: st.done, cur := .name [] }
    else if c = cLBrack then
      match st.cur with
      | .name p => { st with br := some (p, [p]) }
      | .alts _ => { st with bad := true }
    else
      match st.cur with
      | .name p => { st with cur := .name (p ++ [c]) }
      | .alts xs => { st with cur := .alts (xs.map (· ++ [c])) }

def Item.nonempty : Item → Bool
  | .name s => s ≠ []
  | .alts xs => xs ≠ []

/-- `Filenames.parseFilenames`; `none` = outside the model (two bracket groups in one name) -/
def parseTemplate (spec : Str) : Option (List Item) :=
  let st := (normalise spec).foldl pStep { done := [], cur := .name [], br := none, bad := false }
  -- an unterminated `[` ends like a closed one
  let cur := match st.br with
    | some (_, os) => Item.alts (os.reverse.filter (· ≠ []))
    | none => st.cur
  if st.bad then none else some ((cur :: st.done).reverse.filter Item.nonempty)

/-! ### one candidate: the body of the `for item in …` loops -/

/-- `keysre = \$\{(\w+)(?:\.(\d+))?}` at the start of the string: key, format, length of the match -/
def matchKey : Str → Option (Str × Str × Nat)
  | c :: d :: r =>
    let key := r.takeWhile isWord
    if c = cDollar ∧ d = cLBrace ∧ key ≠ [] then
      match r.dropWhile isWord with
      | e :: r2 =>
        if e = cRBrace then some (key, [], key.length + 3)
        else if e = cDot then
          let ds := r2.takeWhile isDigit
          match r2.dropWhile isDigit with
          | f :: _ => if f = cRBrace ∧ ds ≠ [] then some (key, ds, key.length + ds.length + 4) else none
          | [] => none
        else none
      | [] => none
    else none
  | _ => none

/-- `keysre.findall(item)` -/
def findKeys : Nat → Str → List (Str × Str)
  | _, [] => []
  | skip + 1, _ :: cs => findKeys skip cs
  | 0, c :: cs =>
    match matchKey (c :: cs) with
    | some (k, f, n) => (k, f) :: findKeys (n - 1) cs
    | none => findKeys 0 cs

/-- `re.sub(r'(\$\{\w+)\.\d+(\})', r'\1\2', item)` -/
def mStrip (l : Str) : Option (Str × Nat) :=
  match matchKey l with
  | some (k, f, n) => if f ≠ [] then some (cDollar :: cLBrace :: k ++ [cRBrace], n) else none
  | none => none

def stripFormats (item : Str) : Str := scan mStrip 0 item

/-- `int(format)` of a digit string -/
def digitsVal (ds : Str) : Nat := ds.foldl (fun a d => 10 * a + (d - cZero)) 0

/-- decimal digits of `n` as code points -/
def natDigits (n : Nat) : Str := (Nat.toDigits 10 n).map Char.toNat

/-- `('%%.%sd' % format) % num` -/
def pad (w n : Nat) : Str := List.replicate (w - (natDigits n).length) cZero ++ natDigits n

/-- `str.split()` -/
def wordsAux : Str → Str → List Str
  | [], cur => if cur = [] then [] else [cur.reverse]
  | c :: cs, cur =>
    if isSpace c then (if cur = [] then wordsAux cs [] else cur.reverse :: wordsAux cs [])
    else wordsAux cs (c :: cur)
def words (s : Str) : List Str := wordsAux s []

/-- `' '.join(ws)` -/
def joinSp : List Str → Str
  | [] => []
  | [w] => w
  | w :: ws => w ++ 32 :: joinSp ws

/-- `for i in range(n): if not value: break; newvalue.append(value.pop(0))` (after the D12 repair) -/
def limitLoop : Nat → List Str → List Str → List Str
  | 0, _, acc => acc
  | _ + 1, [], acc => acc
  | n + 1, w :: ws, acc => limitLoop n ws (acc ++ [w])

/-- `value = v.split(); …loop…; ' '.join(newvalue)` -/
def limitWords (n : Nat) (v : Str) : Str := joinSp (limitLoop n (words v) [])

/-- the pinned loop before the D12 repair: `newvalue.append(value.pop(0)); if not value: break` —
    `pop(0)` on an empty list raises `IndexError` (`none`) -/
def limitLoopAsIs : Nat → List Str → List Str → Option (List Str)
  | 0, _, acc => some acc
  | _ + 1, [], _ => none
  | n + 1, w :: ws, acc => if ws = [] then some (acc ++ [w]) else limitLoopAsIs n ws (acc ++ [w])

def limitWordsAsIs (n : Nat) (v : Str) : Option Str := (limitLoopAsIs n (words v) []).map joinSp

/-- `value.replace(char, sub)` -/
def replaceChar (c : Nat) (sub : Str) (v : Str) : Str := v.flatMap (fun x => if x = c then sub else [x])

/-- `for char in self.charsub[0]: value = value.replace(char, self.charsub[1])` -/
def clean (bad sub : Str) (v : Str) : Str := bad.foldl (fun v c => replaceChar c sub v) v

structure Config where
  bad : Str      -- `charsub[0]` (`[]` when there is no `charsub`)
  sub : Str      -- `charsub[1]`
  ext : Str      -- `extension`

/-- `for key, format in keysre.findall(item): …` -/
def applyKeys (num : Nat) : List (Str × Str) → Env → Env
  | [], ns => ns
  | (k, f) :: r, ns =>
    if k = numKey then applyKeys num r (envSet ns numKey (pad (digitsVal f) num))
    else match envGet ns k with
      | some v => if f ≠ [] then applyKeys num r (envSet ns k (limitWords (digitsVal f) v)) else applyKeys num r ns
      | none => applyKeys num r ns

def cleanEnv (cfg : Config) (ns : Env) : Env := ns.map (fun kv => (kv.1, clean cfg.bad cfg.sub kv.2))

inductive SubstErr where | keyError | valueError
  deriving DecidableEq, Repr

/-- what follows a `$` in `string.Template.pattern`: `$$`, `$name`, `${name}`, or invalid;
    result = (`none` for the escape | `some name`, characters consumed after the `$`) -/
def matchPlaceholder : Str → Option (Option Str × Nat)
  | [] => none
  | c :: r =>
    if c = cDollar then some (none, 1)
    else if isIdStart c then
      let nm := c :: r.takeWhile isWord
      some (some nm, nm.length)
    else if c = cLBrace then
      match r with
      | d :: r1 =>
        let nm := d :: r1.takeWhile isWord
        match r1.dropWhile isWord with
        | e :: _ => if isIdStart d ∧ e = cRBrace then some (some nm, nm.length + 2) else none
        | [] => none
      | [] => none
    else none

/-- `string.Template(item).substitute(ns)`: the leftmost problem raises -/
def substitute (ns : Env) : Nat → Str → Except SubstErr Str
  | _, [] => .ok []
  | skip + 1, _ :: cs => substitute ns skip cs
  | 0, c :: cs =>
    if c = cDollar then
      match matchPlaceholder cs with
      | none => .error .valueError
      | some (none, n) => (substitute ns n cs).map (cDollar :: ·)
      | some (some k, n) =>
        match envGet ns k with
        | none => .error .keyError
        | some v => (substitute ns n cs).map (v ++ ·)
    else (substitute ns 0 cs).map (c :: ·)

inductive Expand where
  | unbound                            -- `KeyError` from `substitute` (caught)
  | invalid                            -- `ValueError` from `string.Template` (escapes)
  | ok (r : Str) (usedNum : Bool)      -- `usedNum` = `'num' in currentns`
  deriving DecidableEq, Repr

/-- namespace copy, number / word limit, character substitution, format stripping, substitution -/
def expand (cfg : Config) (vars : Env) (num : Nat) (item : Str) : Expand :=
  let ns := cleanEnv cfg (applyKeys num (findKeys 0 item) vars)
  match substitute ns 0 (stripFormats item) with
  | .error .keyError => .unbound
  | .error .valueError => .invalid
  | .ok r => .ok r (envHas ns numKey)

/-- `os.path.splitext(filename)[-1]` is non-empty: the last path component, after its leading dots,
    contains a dot -/
def hasExt (s : Str) : Bool :=
  (((s.reverse.takeWhile (· ≠ cSlash)).reverse).dropWhile (· = cDot)).contains cDot

/-- `Filenames.addExtension` -/
def addExt (ext : Str) (s : Str) : Str := if hasExt s then s else s ++ ext

/-! ### the generator -/

inductive Err where
  | valueError      -- `Filename could not be created.` / invalid placeholder
  | indexError      -- only the pinned code before the D12 repair
  deriving DecidableEq, Repr

inductive Result where
  | name (s : Str)
  | error (e : Err)
  deriving DecidableEq, Repr

/-- what happened to one candidate (ghost trace, used to state the numbering and order clauses) -/
inductive Fate where
  | unbound | invalid | taken (name : Str) | issued (name : Str)
  deriving DecidableEq, Repr

structure Event where
  item : Str          -- the template alternative that was tried
  num : Nat           -- value of the running number when it was tried
  numbered : Bool     -- the candidate was formed and `'num' in currentns`
  fate : Fate
  deriving DecidableEq, Repr

structure State where
  statics : List Str      -- static templates not yet visited
  wildcard : List Str
  num : Nat
  passes : Nat
  taken : List Str        -- keys of `self.invalid`
  vars : Env              -- `self.variables`
  base : Env              -- `g`
  dead : Bool             -- the generator has raised
  deriving Repr

/-- split of `self.files` into static names and the wildcard (first list; else the last name) -/
def splitItems : List Item → List Str × List Str
  | [] => ([], [])
  | .alts xs :: _ => ([], xs)
  | .name s :: rest =>
    match splitItems rest with
    | ([], []) => ([], [s])
    | (st, w) => (s :: st, w)

def initial (items : List Item) (vars : Env) (reserved : List Str) : State :=
  let (st, w) := splitItems items
  { statics := st, wildcard := w, num := firstNum, passes := 0, taken := reserved, vars := vars, base := vars, dead := false }

inductive Walk where
  | issued (name : Str) (rest : List Str) (num : Nat)
  | raised (rest : List Str) (num : Nat)
  | fell (vars : Env) (num : Nat)

def bump (num : Nat) (used : Bool) : Nat := if used then num + 1 else num

/-- `for item in static:` — a `KeyError` or an already used name goes on to the next static name -/
def staticWalk (cfg : Config) (taken : List Str) : List Str → Env → Nat → Walk × List Event
  | [], vars, num => (.fell vars num, [])
  | item :: rest, vars, num =>
    match expand cfg vars num item with
    | .unbound =>
      let (w, ev) := staticWalk cfg taken rest vars num
      (w, ⟨item, num, false, .unbound⟩ :: ev)
    | .invalid => (.raised rest num, [⟨item, num, false, .invalid⟩])
    | .ok r used =>
      let name := addExt cfg.ext r
      if name ∈ taken then
        let (w, ev) := staticWalk cfg taken rest vars (bump num used)
        (w, ⟨item, num, used, .taken name⟩ :: ev)
      else (.issued name rest (bump num used), [⟨item, num, used, .issued name⟩])

/-- one pass `for item in wildcard:`; a `KeyError` deletes `'num'` from `self.variables` -/
def altWalk (cfg : Config) (taken : List Str) : List Str → Env → Nat → Walk × List Event
  | [], vars, num => (.fell vars num, [])
  | item :: rest, vars, num =>
    match expand cfg vars num item with
    | .unbound =>
      let (w, ev) := altWalk cfg taken rest (envErase vars numKey) num
      (w, ⟨item, num, false, .unbound⟩ :: ev)
    | .invalid => (.raised rest num, [⟨item, num, false, .invalid⟩])
    | .ok r used =>
      let name := addExt cfg.ext r
      if name ∈ taken then
        let (w, ev) := altWalk cfg taken rest vars (bump num used)
        (w, ⟨item, num, used, .taken name⟩ :: ev)
      else (.issued name rest (bump num used), [⟨item, num, used, .issued name⟩])

inductive Loop where
  | issued (name : Str) (num passes : Nat)
  | raised (num passes : Nat)
  | gaveUp (num passes : Nat)

/-- `while 1: passes += 1; for …; else: if passes > bound: break` with `fuel` passes left -/
def passLoop (cfg : Config) (taken wild : List Str) : Nat → Env → Nat → Nat → Loop × List Event
  | 0, _, num, passes => (.gaveUp num passes, [])
  | fuel + 1, vars, num, passes =>
    match altWalk cfg taken wild vars num with
    | (.issued name _ num', ev) => (.issued name num' (passes + 1), ev)
    | (.raised _ num', ev) => (.raised num' (passes + 1), ev)
    | (.fell vars' num', ev) =>
      if fuel = 0 then (.gaveUp num' (passes + 1), ev)
      else
        let (l, ev') := passLoop cfg taken wild fuel vars' num' (passes + 1)
        (l, ev ++ ev')

/-- number of passes a request may still run: the loop stops after the pass that makes
    `passes > passBound` (always at least one pass) -/
def passesLeft (passes : Nat) : Nat := (passBound - passes) + 1

def wildcardPhase (cfg : Config) (st : State) (vars : Env) (num : Nat) : State × Result × List Event :=
  match passLoop cfg st.taken st.wildcard (passesLeft st.passes) vars num st.passes with
  | (.issued name num' p, ev) =>
    ({ st with statics := [], num := num', passes := p, taken := name :: st.taken, vars := st.base }, .name name, ev)
  | (.raised num' p, ev) => ({ st with statics := [], num := num', passes := p, vars := vars, dead := true }, .error .valueError, ev)
  | (.gaveUp num' p, ev) => ({ st with statics := [], num := num', passes := p, vars := vars, dead := true }, .error .valueError, ev)

/-- one call of the object after the caller did `variables.update(b)` -/
def request (cfg : Config) (st : State) (b : Env) : State × Result × List Event :=
  let vars := envUpdate st.vars b
  if st.dead then ({ st with vars := vars }, .error .valueError, [])
  else
    match staticWalk cfg st.taken st.statics vars st.num with
    | (.issued name rest num', ev) =>
      ({ st with statics := rest, num := num', taken := name :: st.taken, vars := st.base }, .name name, ev)
    | (.raised rest num', ev) => ({ st with statics := rest, num := num', vars := vars, dead := true }, .error .valueError, ev)
    | (.fell vars' num', ev) =>
      let (st', r, ev') := wildcardPhase cfg st vars' num'
      (st', r, ev ++ ev')

/-- a whole history of requests -/
def run (cfg : Config) : State → List Env → List (Result × List Event)
  | _, [] => []
  | st, b :: bs =>
    let (st', r, ev) := request cfg st b
    (r, ev) :: run cfg st' bs

def results (cfg : Config) (st : State) (bs : List Env) : List Result := (run cfg st bs).map (·.1)

/-! ### several generators in one process

Every `Filenames` object owns its namespace (`self.variables = variables or {}`: a fresh dict when the
caller gives none), its taken set (`invalid or {}`) and its generator.  A process is a list of objects;
the caller creates objects, binds variables on one of them (`obj.variables[k] = v`) and calls one of them,
in any interleaving. -/

/-- one `Filenames` object: its configuration and generator state -/
structure Gen where
  cfg : Config
  st : State

inductive WOp where
  | new (g : Gen)               -- `Filenames(spec, charsub, variables, extension, invalid)`
  | bind (i : Nat) (b : Env)    -- `objs[i].variables.update(b)`
  | call (i : Nat)              -- `objs[i]()`

def modifyAt {α : Type} (f : α → α) : Nat → List α → List α
  | _, [] => []
  | 0, x :: xs => f x :: xs
  | i + 1, x :: xs => x :: modifyAt f i xs

def Gen.bind (g : Gen) (b : Env) : Gen := { g with st := { g.st with vars := envUpdate g.st.vars b } }

def Gen.call (g : Gen) : Gen × Result :=
  ({ g with st := (request g.cfg g.st []).1 }, (request g.cfg g.st []).2.1)

/-- one step of the process; a call reports (object index, result) -/
def stepW (w : List Gen) : WOp → List Gen × Option (Nat × Result)
  | .new g => (w ++ [g], none)
  | .bind i b => (modifyAt (·.bind b) i w, none)
  | .call i =>
    match w[i]? with
    | none => (w, none)
    | some g => (modifyAt (fun x => x.call.1) i w, some (i, g.call.2))

def runW : List Gen → List WOp → List (Nat × Result)
  | _, [] => []
  | w, op :: ops =>
    match stepW w op with
    | (w', none) => runW w' ops
    | (w', some r) => r :: runW w' ops

/-- one object alone: `some b` = bind, `none` = call -/
def runG : Gen → List (Option Env) → List Result
  | _, [] => []
  | g, some b :: r => runG (g.bind b) r
  | g, none :: r => g.call.2 :: runG g.call.1 r

end PlasVerif.Model.Filenames
