import PlasVerif.Generated.Units
/-!
Model of the numeric scanners of `plasTeX/TeX.py`: `readOptionalSpaces`, `readOptionalSigns`,
`readOneOptionalSpace`, `readSequence`, `readKeyword`, `readInteger`, `readDecimal`,
`readUnitOfMeasure`, `readDimen`, `readGlue`, `readStretch`/`readShrink`, and of the value classes
`number`/`dimen`/`glue` (`plasTeX/__init__.py`), transcribed as written.

The input is the token stream (head = next token).  Two ways of taking a token exist in the code:
`self.itertokens()` (raw) and `for t in self` (expanding).  Expansion turns `{`, `}`, a control
sequence and a register into an *element* object that is pushed back as such; the flag `x` records
that, because `readKeyword` silently drops an element (it `break`s before `matched.append`) while it
pushes a raw token back.  Control sequences of the model are `\relax`-like (they expand to
themselves); registers are `ParameterCommand`s whose expansion is disabled (every scanner calls
`ParameterCommand.disable()` first) and carry their value.  Dimensions are exact rationals (sp);
`fil/fill/filll` are encoded by the offsets 2e9/4e9/6e9 exactly as in `dimen.__new__`.
-/
namespace PlasVerif.Model.Numbers
open PlasVerif.Generated.Units

inductive Tok where
  | ch (c : Nat)                      -- letter or other character (the scanners compare the character only)
  | sp                                -- space token
  | bg (x : Bool) | eg (x : Bool)     -- `{` `}`; x = already expanded into a bgroup/egroup element
  | cs (name : List Nat) (x : Bool)   -- control sequence expanding to itself (`\relax`)
  | reg (v : Int) (x : Bool)          -- register/parameter token with its value (sp for dimensions)
  deriving DecidableEq, Repr

inductive Err where
  | unbound    -- UnboundLocalError: `log.warning(..., t)` with `t` never bound (empty stream)
  | typeErr    -- TypeError: `ord()` of something that is not one character
  deriving DecidableEq, Repr

/-- `t.nodeType == ELEMENT_NODE` -/
def isElem : Tok → Bool
  | .bg x | .eg x | .cs _ x | .reg _ x => x
  | _ => false

/-- what `for t in self` yields for the raw token `t` (and pushes back as such) -/
def expand : Tok → Tok
  | .bg _ => .bg true | .eg _ => .eg true | .cs n _ => .cs n true | .reg v _ => .reg v true
  | t => t

/-- the stream as the code leaves it when it read one token with `for t in self` and pushed it back -/
def settle : List Tok → List Tok
  | [] => []
  | t :: ts => expand t :: ts

def isDigit (c : Nat) : Bool := 48 ≤ c && c ≤ 57
def isOct (c : Nat) : Bool := 48 ≤ c && c ≤ 55
/-- `string.hexdigits` = 0-9 a-f A-F -/
def isHex (c : Nat) : Bool := isDigit c || (65 ≤ c && c ≤ 70) || (97 ≤ c && c ≤ 102)
def digitVal (c : Nat) : Nat :=
  if c ≤ 57 then c - 48 else if c ≤ 70 then c - 55 else c - 87
/-- `int(s, base)` of a digit string -/
def natOfDigits (base : Nat) (ds : List Nat) : Nat := ds.foldl (fun a c => a * base + digitVal c) 0

/-- `readOptionalSpaces` (raw iteration): an element or a non-space is pushed back -/
def readOptionalSpaces : List Tok → List Tok
  | [] => []
  | t :: ts => if t = .sp then readOptionalSpaces ts else t :: ts

/-- loop of `readOptionalSigns` (expanding iteration) -/
def signLoop (s : Int) : List Tok → Int × List Tok
  | [] => (s, [])
  | t :: ts =>
    match expand t with
    | .ch 43 => signLoop s ts
    | .ch 45 => signLoop (-s) ts
    | .sp => signLoop s ts
    | t' => (s, t' :: ts)

def readOptionalSigns (ts : List Tok) : Int × List Tok := signLoop 1 (readOptionalSpaces ts)

/-- `readOneOptionalSpace` -/
def readOneOptionalSpace : List Tok → List Tok
  | .sp :: ts => ts
  | ts => ts

/-- `readSequence(chars, optspace)` without the `default` (callers apply it): expanding iteration -/
def readSeq (p : Nat → Bool) (opt : Bool) : List Tok → List Nat × List Tok
  | [] => ([], [])
  | t :: ts =>
    match expand t with
    | .ch c => if p c then let r := readSeq p opt ts; (c :: r.1, r.2) else ([], .ch c :: ts)
    | .sp => if opt then ([], ts) else ([], .sp :: ts)
    | t' => ([], t' :: ts)

/-- `ord(t)` of a raw token in the `` ` `` branch -/
def ordTok : Tok → Except Err Int
  | .ch c => .ok c
  | .sp => .ok 32
  | .bg false => .ok 123
  | .eg false => .ok 125
  | .cs [c] false => .ok c
  | _ => .error .typeErr

/-- `readInteger(optspace)` -/
def readInteger (opt : Bool) (ts0 : List Tok) : Except Err (Int × List Tok) :=
  let (sign, ts) := readOptionalSigns ts0
  match ts with
  | [] => .error .unbound
  | t :: ts' =>
    match expand t with
    | .reg v _ => .ok (sign * v, ts')
    | .ch c =>
      if isDigit c then
        let r := readSeq isDigit opt ts'
        let num : Int := sign * (natOfDigits 10 (c :: r.1) : Nat)
        match r.2 with
        | [] => .ok (num, [])
        | u :: us =>
          match expand u with
          | .reg v _ => .ok (num * v, us)
          | u' => .ok (num, u' :: us)
      else if c = 39 then
        let r := readSeq isOct opt ts'
        .ok (sign * (natOfDigits 8 r.1 : Nat), r.2)
      else if c = 34 then
        let r := readSeq isHex opt ts'
        .ok (sign * (natOfDigits 16 r.1 : Nat), r.2)
      else if c = 96 then
        match ts' with
        | [] => .ok (0, [])
        | u :: us => match ordTok u with
          | .ok n => .ok (sign * n, us)
          | .error e => .error e
      else .ok (0, ts')            -- consumed, "Missing number", number(0)
    | .sp => .ok (0, ts')
    | t' => .ok (0, t' :: ts')     -- other element: pushed back, number(0)

/-- `float(ip + '.' + fp)` as an exact rational -/
def decVal (ip fp : List Nat) : Rat :=
  (natOfDigits 10 ip : Nat) + ((natOfDigits 10 fp : Nat) : Rat) / ((10 ^ fp.length : Nat) : Rat)

/-- `readDecimal` -/
def readDecimal (ts0 : List Tok) : Except Err (Rat × List Tok) :=
  let (sign, ts) := readOptionalSigns ts0
  match ts with
  | [] => .ok (0, [])
  | t :: ts' =>
    match expand t with
    | .ch c =>
      if isDigit c then
        let r := readSeq isDigit false ts'
        let ip := c :: r.1
        match r.2 with
        | [] => .ok (sign * decVal ip [], [])
        | u :: us =>
          match expand u with
          | .ch d =>
            if d = 46 || d = 44 then
              let f := readSeq isDigit true us
              .ok (sign * decVal ip f.1, f.2)
            else .ok (sign * decVal ip [], .ch d :: us)
          | u' => .ok (sign * decVal ip [], u' :: us)
      else if c = 46 || c = 44 then
        let f := readSeq isDigit true ts'
        .ok (sign * decVal [] f.1, f.2)
      else if c = 39 || c = 34 || c = 96 then
        match readInteger true (.ch c :: ts') with
        | .ok (n, r) => .ok (sign * (n : Rat), r)
        | .error e => .error e
      else .ok (0, ts')
    | .sp => .ok (0, ts')
    | t' => .ok (0, t' :: ts')

/-- `str.upper()` restricted to ASCII -/
def upper (c : Nat) : Nat := if 97 ≤ c && c ≤ 122 then c - 32 else c

/-- `t.upper()` of a raw token when it is one character long -/
def tokUpper : Tok → Option Nat
  | .ch c => some (upper c)
  | .cs [c] false => some (upper c)
  | _ => none

/-- inner loop of `readKeyword` for one word: `(matched?, stream afterwards)`; `acc` = `matched` reversed -/
def matchWord : List Nat → List Tok → List Tok → Bool × List Tok
  | [], ts, _ => (true, ts)
  | _ :: _, [], acc => (false, acc.reverse)
  | l :: ls, t :: ts, acc =>
    if isElem t then (false, acc.reverse ++ ts)          -- `break` before `matched.append`: element dropped
    else if tokUpper t = some (upper l) then
      match ls with
      | [] => (true, ts)
      | _ => matchWord ls ts (t :: acc)
    else (false, (t :: acc).reverse ++ ts)

def tryWords : List (List Nat × Rat) → List Tok → Option (List Nat × Rat) × List Tok
  | [], ts => (none, ts)
  | w :: ws, ts =>
    match matchWord w.1 ts [] with
    | (true, r) => (some w, readOneOptionalSpace r)
    | (false, r) => tryWords ws r

/-- `readKeyword(words)` (optspace = True); words carry the value of `dimen('1<word>')` -/
def readKeyword (words : List (List Nat × Rat)) (ts : List Tok) : Option (List Nat × Rat) × List Tok :=
  tryWords words (readOptionalSpaces ts)

def kwTrue : List Nat := [116, 114, 117, 101]
def kwPlus : List Nat := [112, 108, 117, 115]
def kwMinus : List Nat := [109, 105, 110, 117, 115]

/-- `readUnitOfMeasure(units)`: value of `dimen('1<unit>')` (or of the register) -/
def readUnit (units : List (List Nat × Rat)) (ts0 : List Tok) : Rat × List Tok :=
  let ts := readOptionalSpaces ts0
  let go (ts : List Tok) : Rat × List Tok :=
    let r1 := readKeyword [(kwTrue, 0)] ts
    let r2 := readKeyword units r1.2
    match r2.1 with
    | some w => (w.2, r2.2)
    | none => ((units.head?.map (·.2)).getD 0, r2.2)
  match ts with
  | [] => go []
  | t :: ts' =>
    match expand t with
    | .reg v _ => (v, ts')
    | t' => go (t' :: ts')

def absR (r : Rat) : Rat := if r < 0 then -r else r

/-- `dimen.fill` (also `.fil`, `.filll`) for a value known to be `≥ 2e9` in absolute value -/
def filAmount (v : Rat) : Rat :=
  let s : Rat := if v < 0 then -1 else 1
  if absR v ≥ 6000000000 then s * (absR v - 6000000000)
  else if absR v ≥ 4000000000 then s * (absR v - 4000000000)
  else s * (absR v - 2000000000)

/-- the product in `readDimen` after the D14 repair: the fil order is an offset, only the amount scales -/
def combine (value unit : Rat) : Rat :=
  if absR unit ≥ 2000000000 then
    let amt := filAmount unit
    let off := unit - amt
    let v := value * amt
    if v < 0 then v - off else v + off
  else value * unit

/-- the pinned code: `dimen(sign * readDecimal() * readUnitOfMeasure())` -/
def combineAsIs (value unit : Rat) : Rat := value * unit

/-- `readDimen(units)`, parametrised by the product (`combine` = repaired code) -/
def readDimenWith (comb : Rat → Rat → Rat) (units : List (List Nat × Rat)) (ts0 : List Tok) :
    Except Err (Rat × List Tok) :=
  let (sign, ts) := readOptionalSigns ts0
  let go (ts : List Tok) : Except Err (Rat × List Tok) :=
    match readDecimal ts with
    | .error e => .error e
    | .ok (d, r) =>
      let u := readUnit units r
      .ok (comb ((sign : Rat) * d) u.1, u.2)
  match ts with
  | [] => go []
  | t :: ts' =>
    match expand t with
    | .reg v _ => .ok ((sign : Rat) * (v : Rat), ts')
    | t' => go (t' :: ts')

def readDimen := readDimenWith combine
def readDimenAsIs := readDimenWith combineAsIs

/-- `dimen.units + ['filll','fill','fil']` -/
def stretchUnits : List (List Nat × Rat) := dimenUnits ++ filUnits

/-- `readStretch` / `readShrink` -/
def readPlusMinus (comb : Rat → Rat → Rat) (kw : List Nat) (ts : List Tok) : Except Err (Option Rat × List Tok) :=
  match readKeyword [(kw, 0)] ts with
  | (some _, r) =>
    match readDimenWith comb stretchUnits r with
    | .ok (v, r') => .ok (some v, r')
    | .error e => .error e
  | (none, r) => .ok (none, r)

structure Glue where
  dim : Rat
  stretch : Option Rat
  shrink : Option Rat
  deriving DecidableEq, Repr

/-- `readGlue` -/
def readGlueWith (comb : Rat → Rat → Rat) (ts0 : List Tok) : Except Err (Glue × List Tok) :=
  let (sign, ts) := readOptionalSigns ts0
  let go (ts : List Tok) : Except Err (Glue × List Tok) :=
    match readDimenWith comb dimenUnits ts with
    | .error e => .error e
    | .ok (d, r) =>
      match readPlusMinus comb kwPlus r with
      | .error e => .error e
      | .ok (st, r1) =>
        match readPlusMinus comb kwMinus r1 with
        | .error e => .error e
        | .ok (sh, r2) => .ok (⟨(sign : Rat) * d, st, sh⟩, r2)
  match ts with
  | [] => go []
  | t :: ts' =>
    match expand t with
    | .reg v _ => .ok (⟨(sign : Rat) * (v : Rat), none, none⟩, ts')
    | t' => go (t' :: ts')

def readGlue := readGlueWith combine
def readGlueAsIs := readGlueWith combineAsIs

/-- how `dimen.source`/`.fil` read an encoded value back: (fil order 0..3, amount) -/
def decode (v : Rat) : Nat × Rat :=
  if absR v ≥ 6000000000 then (3, filAmount v)
  else if absR v ≥ 4000000000 then (2, filAmount v)
  else if absR v ≥ 2000000000 then (1, filAmount v)
  else (0, v)

end PlasVerif.Model.Numbers
