/-!
Model of plasTeX's user-macro machinery, mirroring the Python as written:

* `substBody`          = `plasTeX/__init__.py expandDef`
* `readToken`/`readArgument`/`readOptional` = `TeX.readToken`, `readArgument()`, `readGrouping('[]')`
  (unexpanded, on the raw token stream; push-back = cons)
* `collectNewcommand`/`invokeNewcommand` = `NewCommand.invoke`
* `matchPattern`/`invokeDef` = `Definition.invoke` (after the D8 `fix:` commit: a delimited
  argument that is exactly one group loses its braces; `matchPatternAsIs` is the pinned variant)
* `readDefParts` = `DefCommand.invoke` (after the D52 fix: no removal of `#` levels any more)
* `Env` operations    = `Context.newdef/newcommand/let/__getitem__` on a stack of frames
* `next`/`run`         = the expansion loop `TeX.__iter__` with `pushTokens`, and the primitives
  `\def \gdef \newcommand \renewcommand \let \csname \expandafter \relax`, `{ }`, `\begingroup \endgroup`.

The token stream is one list (the input stack and all push-back buffers); an already
expanded macro instance pushed back into the stream is the token `.el name`.
-/
namespace PlasVerif.Model.Macro

inductive Tok where
  | ch (cat c : Nat)        -- character token of category `cat` (1 `{`, 2 `}`, 3 `$`, 6 `#`, 10 blank, 11 letter, 12 other)
  | cs (name : List Nat)    -- EscapeSequence(name)
  | el (name : List Nat)    -- an expanded macro instance (ELEMENT_NODE) travelling in the token stream
  deriving DecidableEq, Repr, Inhabited

abbrev Name := List Nat

def Tok.isParam : Tok → Bool | .ch 6 _ => true | _ => false
def Tok.isBg : Tok → Bool | .ch 1 _ => true | _ => false
def Tok.isEg : Tok → Bool | .ch 2 _ => true | _ => false
def Tok.isMath : Tok → Bool | .ch 3 _ => true | _ => false
def Tok.isSpace : Tok → Bool | .ch 10 _ => true | _ => false
/-- `str(token)` -/
def Tok.text : Tok → List Nat | .ch _ c => [c] | .cs n => n | .el n => n

/-- `BeginGroup(' ')`, `EndGroup(' ')` as created by `expandDef` -/
def bgTok : Tok := .ch 1 32
def egTok : Tok := .ch 2 32

inductive Err where
  | valueError | typeError | indexError | attributeError | hang | fuel
  | unsupported      -- a situation the model does not follow (outside NF-prog): reported, never compared with the Spec
  deriving DecidableEq, Repr

abbrev Params := List (Option (List Tok))

/-! ## expandDef -/

def isDigit (c : Nat) : Bool := 48 ≤ c && c ≤ 57

/-- `int(t)` for a token whose text is a run of ASCII digits -/
def tokInt (t : Tok) : Option Nat :=
  match t with
  | .el _ => none
  | t => if t.text ≠ [] ∧ t.text.all isDigit then some (t.text.foldl (fun a c => 10 * a + (c - 48)) 0) else none

def ifxName : Name := [105, 102, 120]
/-- `previous == 'ifx'` (string comparison with the token text) -/
def isIfx (t : Tok) : Bool := match t with | .el _ => false | t => t.text == ifxName

/-- what `#n` contributes: `params[n]` if present and not `None`, wrapped in a group after `\ifx` -/
def paramText (params : Params) (prevIfx : Bool) (n : Nat) : List Tok :=
  match params[n]? with
  | some (some p) => if prevIfx then bgTok :: p ++ [egTok] else p
  | _ => []

/-- the loop of `expandDef`; `prevIfx` is `previous == 'ifx'` -/
def substGo (params : Params) : Bool → List Tok → Except Err (List Tok)
  | _, [] => .ok []
  | _, [t] => if t.isParam then .ok [] else .ok [t]
  | prev, t :: u :: rest =>
    if t.isParam then
      if u.isParam then (substGo params false rest).map (u :: ·)
      else match tokInt u with
        | none => .error .valueError
        | some n => (substGo params false rest).map (paramText params prev n ++ ·)
    else (substGo params (isIfx t) (u :: rest)).map (t :: ·)

def substBody (body : List Tok) (params : Params) : Except Err (List Tok) := substGo params false body

/-! ## raw readers -/

/-- `readOptionalSpaces` -/
def dropSpaces : List Tok → List Tok
  | [] => []
  | t :: ts => if t.isSpace then dropSpaces ts else t :: ts

/-- inner loop of `readToken` after `{`: up to the matching `}` (or the end of input) -/
def readGroup : Nat → List Tok → List Tok × List Tok
  | _, [] => ([], [])
  | level, t :: ts =>
    if t.isBg then let r := readGroup (level + 1) ts; (t :: r.1, r.2)
    else if t.isEg then
      if level = 1 then ([], ts) else let r := readGroup (level - 1) ts; (t :: r.1, r.2)
    else let r := readGroup level ts; (t :: r.1, r.2)

/-- `$ … $` branch of `readToken`: through the next math shift, inclusive -/
def readMath : List Tok → List Tok × List Tok
  | [] => ([], [])
  | t :: ts => if t.isMath then ([t], ts) else let r := readMath ts; (t :: r.1, r.2)

/-- `TeX.readToken(expanded=False)` -/
def readToken : List Tok → Option (List Tok) × List Tok
  | [] => (none, [])
  | t :: ts =>
    if t.isBg then let r := readGroup 1 ts; (some r.1, r.2)
    else if t.isMath then let r := readMath ts; (some (t :: r.1), r.2)
    else (some [t], ts)

/-- `tex.readArgument()` : optional blanks, then `readToken`; `None` at end of input -/
def readArgument (s : List Tok) : Option (List Tok) × List Tok := readToken (dropSpaces s)

def isOpenBr : Tok → Bool | .ch _ 91 => true | _ => false
def isCloseBr : Tok → Bool | .ch _ 93 => true | _ => false

/-- inner loop of `readGrouping('[]')` -/
def readBracket : Nat → List Tok → List Tok × List Tok
  | _, [] => ([], [])
  | level, t :: ts =>
    if isOpenBr t then let r := readBracket (level + 1) ts; (t :: r.1, r.2)
    else if isCloseBr t then
      if level = 1 then ([], ts) else let r := readBracket (level - 1) ts; (t :: r.1, r.2)
    else let r := readBracket level ts; (t :: r.1, r.2)

/-- `tex.readArgument('[]')`: `none` when the next non-blank token is not `[` (it is pushed back) -/
def readOptional (s : List Tok) : Option (List Tok) × List Tok :=
  match dropSpaces s with
  | [] => (none, [])
  | t :: ts => if isOpenBr t then let r := readBracket 1 ts; (some r.1, r.2) else (none, t :: ts)

/-- the scan added by the D8 fix: does the group opened by the first token close exactly at the last one -/
def closesAtEnd : Nat → List Tok → Bool
  | _, [] => false
  | level, t :: ts =>
    let level' := if t.isBg then level + 1 else if t.isEg then level - 1 else level
    if level' = 0 then ts.isEmpty else closesAtEnd level' ts

def stripDelimited (p : List Tok) : List Tok :=
  match p with
  | b :: r => if r ≠ [] ∧ b.isBg ∧ closesAtEnd 0 p then r.dropLast else p
  | [] => p

/-! ## NewCommand.invoke -/

def readArgs : Nat → List Tok → Params × List Tok
  | 0, s => ([], s)
  | n + 1, s => let a := readArgument s; let r := readArgs n a.2; (a.1 :: r.1, r.2)

/-- the value of the optional argument: the bracket content (one-group content loses its braces, D17 fix) or the default -/
def optValue (o : Option (List Tok)) (d : List Tok) : List Tok :=
  match o with
  | some x => stripDelimited x
  | none => d

def collectNewcommand (nargs : Nat) (opt : Option (List Tok)) (s : List Tok) : Params × List Tok :=
  match opt with
  | none => let r := readArgs nargs s; (none :: r.1, r.2)
  | some d =>
    let o := readOptional s
    let first := optValue o.1 d
    let r := readArgs (nargs - 1) o.2
    (none :: some first :: r.1, r.2)

def invokeNewcommand (nargs : Nat) (opt : Option (List Tok)) (body : List Tok) (s : List Tok) :
    Except Err (List Tok × List Tok) :=
  let c := collectNewcommand nargs opt s
  (substBody body c.1).map (·, c.2)

/-! ## Definition.invoke -/

/-- `for t in tex.itertokens(): if t == a: break; param.append(t)` -/
def collectUntil (a : Tok) : List Tok → List Tok × List Tok
  | [] => ([], [])
  | t :: ts => if t = a then ([], ts) else let r := collectUntil a ts; (t :: r.1, r.2)

/-- `a in string.digits` (substring test on "0123456789") -/
def inDigits (t : Tok) : Bool :=
  let x := t.text
  x.all isDigit && (x.zip x.tail).all (fun p => p.2 == p.1 + 1)

/-- the walk of `Definition.invoke` over `self.args`, one pattern token per step.
    `afterHash` = we are in the inner `for a in argIter` that follows a `#`; `strip` = the D8 fix is present -/
def matchGo (strip : Bool) : List Tok → Bool → Bool → Params → List Tok → Except Err (Params × List Tok)
  | [], _, inparam, ps, s =>
    if inparam then let a := readArgument s; .ok (ps ++ [a.1], a.2) else .ok (ps, s)
  | a :: as, true, inparam, ps, s =>
    if inDigits a then matchGo strip as false true ps s
    else if a.isParam then matchGo strip as true inparam ps s
    else if a.isBg then
      -- `#{`: every `{` is pushed back and read again for ever; without one the whole input is taken
      if s.any Tok.isBg then .error .hang else matchGo strip as false false (ps ++ [some s]) []
    else .error .valueError
  | a :: as, false, inparam, ps, s =>
    if a.isParam then
      if inparam then let r := readArgument s; matchGo strip as true inparam (ps ++ [r.1]) r.2
      else matchGo strip as true inparam ps s
    else if inparam then
      let r := collectUntil a s
      matchGo strip as false false (ps ++ [some (if strip then stripDelimited r.1 else r.1)]) r.2
    else matchGo strip as false false ps s.tail

def matchPattern (args : List Tok) (s : List Tok) : Except Err (Params × List Tok) :=
  matchGo true args false false [none] s
def matchPatternAsIs (args : List Tok) (s : List Tok) : Except Err (Params × List Tok) :=
  matchGo false args false false [none] s

/-- `Definition.invoke` : (pushed-back expansion, rest of the stream) -/
def invokeDefWith (strip : Bool) (args body : List Tok) (s : List Tok) : Except Err (List Tok × List Tok) :=
  -- no parameter text: `expandDef(self.definition, [None])` (after the D52 fix: `##` becomes `#` here too)
  if args = [] then (substBody body [none]).map (·, s)
  else match matchGo strip args false false [none] s with
    | .error e => .error e
    | .ok (ps, rest) => (substBody body ps).map (·, rest)

def invokeDef := invokeDefWith true
def invokeDefAsIs := invokeDefWith false

/-! ## DefCommand.invoke -/

def Tok.isEl : Tok → Bool | .el _ => true | _ => false

/-- type `Tok` argument: optional blanks, then the next raw token -/
def readTok (s : List Tok) : Option Tok × List Tok :=
  match dropSpaces s with
  | [] => (none, [])
  | t :: ts => (some t, ts)

/-- type `Args` argument: optional blanks, then everything before the next `{` -/
def untilBg : List Tok → List Tok × List Tok
  | [] => ([], [])
  | t :: ts => if t.isBg then ([], t :: ts) else let r := untilBg ts; (t :: r.1, r.2)

structure DefParts where
  name : Name
  args : List Tok
  body : Option (List Tok)
  rest : List Tok

/-- `DefCommand.invoke` up to the call of `Context.newdef` -/
def readDefParts (s : List Tok) : Except Err DefParts :=
  let n := readTok s
  let a := untilBg (dropSpaces n.2)
  let d := readArgument a.2
  match n.1 with
  | none => .error .attributeError
  | some t =>
    -- a character token in the name position is a DOM text node: its `nodeName` is "#text"
    let nm := match t with | .ch _ _ => [35, 116, 101, 120, 116] | .cs nm => nm | .el nm => nm
    .ok ⟨nm, a.1, d.1, d.2⟩

/-! ## Context: frames of macro classes -/

inductive Prim where
  | def_ | gdef | newcommand | let_ | csname | endcsname | expandafter | relax
  | bgroup | egroup
  | ifx              -- `\ifx`
  | inert            -- a `Command` with the default `invoke` and no arguments (`\else`, `\fi`): its instance is yielded
  deriving DecidableEq, Repr

inductive Meaning where
  | defn (args : List Tok) (body : Option (List Tok))             -- subclass of `Definition`
  | newcmd (nargs : Nat) (opt : Option (List Tok)) (body : Option (List Tok))  -- subclass of `NewCommand`
  | prim (p : Prim) (name : Name)                                   -- a Python macro class; `name` = its nodeName
  | unrec (name : Name)                                             -- subclass of `UnrecognizedMacro`
  deriving DecidableEq, Repr

abbrev Frame := List (Name × Meaning)
/-- top frame first; the last frame is `contexts[0]` -/
abbrev Env := List Frame

def lookup (n : Name) : Env → Option Meaning
  | [] => none
  | f :: fs => match f.lookup n with | some m => some m | none => lookup n fs

def setGlobal (n : Name) (m : Meaning) : Env → Env
  | [] => [[(n, m)]]
  | [f] => [(n, m) :: f]
  | f :: fs => f :: setGlobal n m fs

def setLocal (n : Name) (m : Meaning) : Env → Env
  | [] => [[(n, m)]]
  | f :: fs => ((n, m) :: f) :: fs

/-- remove the bindings of `n` from every frame but the global one -/
def dropLocals (n : Name) : Env → Env
  | [] => []
  | [f] => [f]
  | f :: fs => f.filter (fun p => p.1 ≠ n) :: dropLocals n fs

/-- `Context.__getitem__`: an unknown name becomes a global `UnrecognizedMacro` class -/
def getItem (n : Name) (e : Env) : Meaning × Env :=
  match lookup n e with
  | some m => (m, e)
  | none => (.unrec n, setGlobal n (.unrec n) e)

/-- `Context.newdef` (after the fix: a global definition also removes shadowing local ones) -/
def newdef (n : Name) (args : List Tok) (body : Option (List Tok)) (isLocal : Bool) (e : Env) : Env :=
  if isLocal then setLocal n (.defn args body) e else setGlobal n (.defn args body) (dropLocals n e)

/-- `Context.newcommand`: silently ignored when the name is bound to something that is not a
    `NewCommand`/`Definition`/`UnrecognizedMacro`/`relax` class; (after the fix) local to the group -/
def newcommand (n : Name) (nargs : Nat) (opt body : Option (List Tok)) (e : Env) : Env :=
  match lookup n e with
  | some (.prim .relax _) | some (.defn ..) | some (.newcmd ..) | some (.unrec _) | none =>
    setLocal n (.newcmd nargs opt body) e
  | some (.prim ..) => e

/-- `Context.let` for a control-sequence source: the class bound *now* is stored in the top frame -/
def letCs (dest src : Name) (e : Env) : Env :=
  let g := getItem src e
  setLocal dest g.1 g.2

def push (e : Env) : Env := [] :: e
def pop : Env → Env
  | _ :: f :: fs => f :: fs
  | e => e

def prims : Frame :=
  let n (s : String) : Name := s.toList.map Char.toNat
  [ (n "def", .prim .def_ (n "def")), (n "edef", .prim .def_ (n "edef")), (n "gdef", .prim .gdef (n "gdef")),
    (n "xdef", .prim .gdef (n "xdef")),
    (n "newcommand", .prim .newcommand (n "newcommand")), (n "renewcommand", .prim .newcommand (n "renewcommand")),
    (n "providecommand", .prim .newcommand (n "providecommand")),
    (n "let", .prim .let_ (n "let")), (n "csname", .prim .csname (n "csname")),
    (n "endcsname", .prim .endcsname (n "endcsname")), (n "expandafter", .prim .expandafter (n "expandafter")),
    (n "relax", .prim .relax (n "relax")), (n "bgroup", .prim .bgroup (n "bgroup")),
    (n "begingroup", .prim .bgroup (n "begingroup")), (n "egroup", .prim .egroup (n "egroup")),
    (n "endgroup", .prim .egroup (n "endgroup")),
    (n "ifx", .prim .ifx (n "ifx")), (n "else", .prim .inert (n "else")), (n "fi", .prim .inert (n "fi")) ]

def initEnv : Env := [prims]

/-! ## the expansion loop -/

structure St where
  input : List Tok
  env : Env
  deriving Repr

/-- `token.macroName` -/
def macroNameOf : Tok → Option Name
  | .cs n => some n
  | .ch 1 _ => some [98, 103, 114, 111, 117, 112]      -- bgroup
  | .ch 2 _ => some [101, 103, 114, 111, 117, 112]     -- egroup
  | _ => none

def starTok (t : Tok) : Bool := match t with | .el _ => false | t => t.text == [42]
def eqTok (t : Tok) : Bool := match t with | .el _ => false | t => t.text == [61]

/-- `readCharacter(c)` after optional blanks -/
def skipChar (p : Tok → Bool) (s : List Tok) : List Tok :=
  match dropSpaces s with
  | [] => []
  | t :: ts => if p t then ts else t :: ts

/-- `castControlSequence`: the first escape token of the argument -/
def firstCs : List Tok → Option Name
  | [] => none
  | .cs n :: _ => some n
  | _ :: ts => firstCs ts

/-- the integer in `[ nargs:int ]` (digit runs only; anything else is outside the model) -/
def digitsVal (ts : List Tok) : Option Nat :=
  if ts.all (fun t => match t with | .ch _ c => isDigit c | _ => false) then
    some (ts.foldl (fun a t => match t with | .ch _ c => 10 * a + (c - 48) | _ => a) 0)
  else none

/-- the nodeName of the element a token becomes when `\expandafter`/`\csname` meet it unexpanded -/
def endcsnameName : Name := [101, 110, 100, 99, 115, 110, 97, 109, 101]

/-! ## `\ifx` (Primitives.ifx, `XTok` arguments, `TeX.processIfContent`) -/

/-- what an `XTok` argument evaluates to inside NF-prog 4: one token, or the children of the fragment `expandTokens` returns -/
inductive IfVal where
  | tok (t : Tok)
  | frag (ts : List Tok)
  deriving DecidableEq, Repr

def plainChar : Tok → Bool
  | .ch 11 _ => true
  | .ch 12 _ => true
  | _ => false

/-- `if len(toks) == 1: return toks[0]` else the fragment -/
def ifValOf (ts : List Tok) : IfVal := match ts with | [x] => .tok x | b => .frag b

/-- `expandTokens([t])` for a character token, or for a macro without parameters whose text is plain characters;
    everything else (macros with arguments, other primitives, nested macros) is outside NF-prog 4 and not followed -/
def xtokOfTok (env : Env) (t : Tok) : Except Err IfVal :=
  match t with
  | .ch cat c => if cat = 11 ∨ cat = 12 then .ok (.tok (.ch cat c)) else .error .unsupported
  | .cs n =>
    match lookup n env with
    | some (.defn [] body) => if (body.getD []).all plainChar then .ok (ifValOf (body.getD [])) else .error .unsupported
    | _ => .error .unsupported
  | .el _ => .error .unsupported

/-- one `XTok` argument: optional blanks, then a token or a brace group (the group `expandDef` puts around a parameter
    that follows `\ifx`), expanded -/
def readXTok (env : Env) (s : List Tok) : Except Err (IfVal × List Tok) :=
  match dropSpaces s with
  | [] => .error .unsupported
  | t :: ts =>
    if t.isBg then
      let r := readGroup 1 ts
      match r.1 with
      | [x] => (xtokOfTok env x).map (·, r.2)
      | c => if c.all plainChar then .ok (ifValOf c, r.2) else .error .unsupported
    else (xtokOfTok env t).map (·, ts)

/-- `a['a'] == a['b']`: tokens by category and character, fragments child by child (and by length) -/
def ifValEq : IfVal → IfVal → Bool
  | .tok a, .tok b => a == b
  | .frag a, .frag b => a == b
  | _, _ => false

/-- `macroName` of anything that can travel in the token stream -/
def anyMacroName : Tok → Name
  | .cs n => n
  | .el n => n
  | .ch 1 _ => [98, 103, 114, 111, 117, 112]
  | .ch 2 _ => [101, 103, 114, 111, 117, 112]
  | _ => []

def startsWithIf : Name → Bool
  | 105 :: 102 :: _ => true
  | _ => false

/-- how `processIfContent` classifies a token, by its `macroName` alone: `\newif`, a name starting with `if` (O4),
    `\fi`, `\else` or `\or`, anything else -/
inductive NameKind where
  | newif | opens | closes | alt | other
  deriving DecidableEq, Repr

def nameKind (t : Tok) : NameKind :=
  let name := anyMacroName t
  if name = [110, 101, 119, 105, 102] then .newif
  else if startsWithIf name then .opens
  else if name = [102, 105] then .closes
  else if name = [101, 108, 115, 101] ∨ name = [111, 114] then .alt
  else .other

/-- the scan of `processIfContent`: `nest` = nesting, `cur` = the case being collected (reversed), `done` = finished cases
    (reversed).  Any macro whose name starts with `if` opens a level (O4), `\fi` closes one, `\else`/`\or` at level 0 start
    a new case, `\newif` swallows the next token.  Result: the cases in order, and the input after the closing `\fi`. -/
def ifScan : Nat → List Tok → List (List Tok) → List Tok → List (List Tok) × List Tok
  | _, cur, done, [] => ((cur.reverse :: done).reverse, [])
  | nest, cur, done, [t] =>
    match nameKind t with
    | .newif => (((t :: cur).reverse :: done).reverse, [])
    | .opens => (((t :: cur).reverse :: done).reverse, [])
    | .closes => if nest = 0 then ((cur.reverse :: done).reverse, []) else (((t :: cur).reverse :: done).reverse, [])
    | .alt => if nest = 0 then (([] :: cur.reverse :: done).reverse, []) else (((t :: cur).reverse :: done).reverse, [])
    | .other => (((t :: cur).reverse :: done).reverse, [])
  | nest, cur, done, t :: u :: ts =>
    match nameKind t with
    | .newif => ifScan nest (u :: t :: cur) done ts
    | .opens => ifScan (nest + 1) (t :: cur) done (u :: ts)
    | .closes => if nest = 0 then ((cur.reverse :: done).reverse, u :: ts) else ifScan (nest - 1) (t :: cur) done (u :: ts)
    | .alt => if nest = 0 then ifScan 0 [] (cur.reverse :: done) (u :: ts) else ifScan nest (t :: cur) done (u :: ts)
    | .other => ifScan nest (t :: cur) done (u :: ts)

/-- `cases.append([])`, then `cases[which]` with `True → 0`, `False → 1` -/
def ifChoose (cases : List (List Tok)) (b : Bool) : List Tok := (cases ++ [[]]).getD (if b then 0 else 1) []

/-- resource bound of the model (like `fuel`): an input that has grown beyond this is not followed further -/
def tooBig (s : List Tok) : Bool := s.length > 4000

mutual
/-- one round of `TeX.__iter__`: the next token that is *yielded* (not expandable), and the state after it -/
def next (fx : Bool) : Nat → St → Except Err (Option (Tok × St))
  | 0, _ => .error .fuel
  | fuel + 1, st =>
    if tooBig st.input then .error .fuel else
    match st.input with
    | [] => .ok none
    | t :: rest =>
      match macroNameOf t with
      | none => .ok (some (t, { st with input := rest }))
      | some name => invoke fx fuel name rest st.env

/-- `createElement(name).invoke(tex)` followed by the push-back and `continue` of the loop -/
def invoke (fx : Bool) : Nat → Name → List Tok → Env → Except Err (Option (Tok × St))
  | 0, _, _, _ => .error .fuel
  | fuel + 1, name, rest, env0 =>
      let g := getItem name env0
      let env := g.2
      match g.1 with
      | .defn args body =>
        match invokeDef args (body.getD []) rest with
        | .error e => .error e
        | .ok (exp, rest') => next fx fuel ⟨exp ++ rest', env⟩
      | .newcmd nargs opt body =>
        match invokeNewcommand nargs opt (body.getD []) rest with
        | .error e => .error e
        | .ok (exp, rest') => next fx fuel ⟨exp ++ rest', env⟩
      | .unrec nm => .ok (some (.el nm, ⟨rest, env⟩))
      | .prim .relax nm | .prim .endcsname nm | .prim .inert nm => .ok (some (.el nm, ⟨rest, env⟩))
      | .prim .ifx _ =>
        -- `self.parse(tex)` (two `XTok`s), `tex.processIfContent(a == b)`, `return []`
        match readXTok env rest with
        | .error e => .error e
        | .ok (a, r1) =>
          match readXTok env r1 with
          | .error e => .error e
          | .ok (b, r2) =>
            let sc := ifScan 0 [] [] r2
            next fx fuel ⟨ifChoose sc.1 (ifValEq a b) ++ sc.2, env⟩
      | .prim .bgroup nm => .ok (some (.el nm, ⟨rest, push env⟩))
      | .prim .egroup nm => .ok (some (.el nm, ⟨rest, pop env⟩))
      | .prim .def_ nm =>
        match readDefParts rest with
        | .error e => .error e
        | .ok d => .ok (some (.el nm, ⟨d.rest, newdef d.name d.args d.body true env⟩))
      | .prim .gdef nm =>
        match readDefParts rest with
        | .error e => .error e
        | .ok d => .ok (some (.el nm, ⟨d.rest, newdef d.name d.args d.body false env⟩))
      | .prim .newcommand nm =>
        let s1 := skipChar starTok rest
        let a := readArgument s1
        let n := readOptional a.2
        let o := readOptional n.2
        let d := readArgument o.2
        match a.1 with
        | none => .error .typeError
        | some toks =>
          match firstCs toks, digitsVal (n.1.getD []) with
          | none, _ => .error .indexError
          | _, none => .error .valueError
          -- (after the D51 fix: a default that is exactly one group is stored without its braces)
          | some nmac, some k => .ok (some (.el nm, ⟨d.2, newcommand nmac k (o.1.map stripDelimited) d.1 env⟩))
      | .prim .let_ nm =>
        let a := readTok rest
        let b := readTok (skipChar eqTok a.2)
        match a.1, b.1 with
        | some (.cs d), some (.cs s) => .ok (some (.el nm, ⟨b.2, letCs d s env⟩))
        | _, _ => .error .attributeError        -- character `\let`s are outside the model
      | .prim .csname _ =>
        match csnameGo fx fuel [] ⟨rest, env⟩ with
        | .error e => .error e
        | .ok (nm, st') => next fx fuel { st' with input := .cs nm :: st'.input }
      | .prim .expandafter _ =>
        match expAfter fx fuel rest env with
        | .error e => .error e
        | .ok (toks, st') => next fx fuel { st' with input := toks ++ st'.input }

/-- `expandafter.invoke`: `[nexttok] + (aftertok expanded once)` -/
def expAfter (fx : Bool) : Nat → List Tok → Env → Except Err (List Tok × St)
  | 0, _, _ => .error .fuel
  | fuel + 1, rest, env =>
    match rest with
    | [] | [_] => .error .indexError      -- StopIteration out of `next(tex.itertokens())`
    | t1 :: t2 :: rest' =>
      match t2 with
      | .cs n2 =>
        match expandOnce fx fuel n2 rest' env with
        | .error e => .error e
        | .ok (exp, st') => .ok (t1 :: exp, st')
      | _ => .ok ([t1, t2], ⟨rest', env⟩)

/-- `for t in tex:` inside `\csname` until the `endcsname` element -/
def csnameGo (fx : Bool) : Nat → List Nat → St → Except Err (Name × St)
  | 0, _, _ => .error .fuel
  | fuel + 1, acc, st =>
    match next fx fuel st with
    | .error e => .error e
    | .ok none => .ok (acc, ⟨[], st.env⟩)
    | .ok (some (.el n, st')) => if n = endcsnameName then .ok (acc, st') else .error .typeError
    | .ok (some (t, st')) => csnameGo fx fuel (acc ++ t.text) st'

/-- `obj.invoke(tex)` as called by `\expandafter`: the returned tokens (or the object itself) -/
def expandOnce (fx : Bool) : Nat → Name → List Tok → Env → Except Err (List Tok × St)
  | 0, _, _, _ => .error .fuel
  | fuel + 1, name, rest, env0 =>
      let g := getItem name env0
      let env := g.2
      match g.1 with
      | .defn args body =>
        match invokeDef args (body.getD []) rest with
        | .error e => .error e
        | .ok (exp, rest') =>
          -- `if expanded is None: expanded = [aftertok]`: `Definition.invoke` never returns `None` (an empty expansion stays empty)
          .ok (exp, ⟨rest', env⟩)
      | .newcmd nargs opt body =>
        match invokeNewcommand nargs opt (body.getD []) rest with
        | .error e => .error e
        | .ok (exp, rest') => .ok (exp, ⟨rest', env⟩)
      | .prim .csname _ =>
        match csnameGo fx fuel [] ⟨rest, env⟩ with
        | .error e => .error e
        | .ok (nm, st') => .ok ([.cs nm], st')
      | .prim .expandafter _ => expAfter fx fuel rest env
      | _ =>
        -- repaired variant (D49): anything else is unexpandable and stays in place, untouched
        if fx then .ok ([.cs name], ⟨rest, env⟩) else
        -- as is: every other class is invoked (an assignment such as `\def` is *executed*); it yields its own instance
        match invoke fx fuel name rest env with
        | .error e => .error e
        | .ok none => .ok ([], ⟨[], env⟩)
        | .ok (some (t, st')) => .ok ([t], st')
end

/-- visible characters of a yielded token (letters and others) -/
def visibleOf : Tok → List Nat
  | .ch 11 c => [c]
  | .ch 12 c => [c]
  | .ch 6 c => [c]
  | _ => []

/-- `TeX.parse()` as far as `textContent` without blanks is concerned -/
def run (fx : Bool) : Nat → St → Except Err (List Nat)
  | 0, _ => .error .fuel
  | fuel + 1, st =>
    match next fx fuel st with
    | .error e => .error e
    | .ok none => .ok []
    | .ok (some (t, st')) => (run fx fuel st').map (visibleOf t ++ ·)

/-- the code as it is (known finding D49 present) -/
def runProgram (fuel : Nat) (p : List Tok) : Except Err (List Nat) := run false fuel ⟨p, initEnv⟩
/-- the repaired variant: `\expandafter` leaves an unexpandable second token alone -/
def runProgramRepaired (fuel : Nat) (p : List Tok) : Except Err (List Nat) := run true fuel ⟨p, initEnv⟩

end PlasVerif.Model.Macro
