/-!
Model of the file-splitting logic of `plasTeX/Renderers/__init__.py`:

* `Renderable.filename` (cached property: no `config` ⇒ none; `level > splitlevel` ⇒ none; otherwise the
  generator namespace is filled with `id` (only an explicit one, not a generated `a0000000001`), `title`,
  `ref` (only when non-empty), `name`, and the next name is requested),
* `Renderer.cacheFilenames` (pre-order walk over `childNodes`, requesting the names in document order),
* `Renderer.render` (split level from the configuration; a template without blank and without `[` forces
  level −10; generator created; names cached; `str(document)`),
* `Renderable.__str__` (only `DOCUMENT_LEVEL` children of the document node; text nodes inline; a node with a unicode
  equivalent (`node.str`, constructor `uni`) is printed as that text without template, children or file; a child with a
  file name is wrapped by its layout, written to its file and contributes *nothing* to the parent's string),
* `SectionUtils.footnotes` (a footnote belongs to the nearest enclosing node with `level < ENDSECTIONS_LEVEL`
  that has a file name).

Abstractions (tied by the `split` correspondence stream, where the real `Renderer`, `Renderable`, `Filenames`,
`SectionUtils` run over stub string templates):
* the name generator (`plasTeX/Filenames.py`, property C15) is a parameter `Gen σ ν` (state type `σ`, type of names `ν`): a state machine that
  answers a request (the namespace bindings) with a name or dies with `ValueError`
  (`Model/RenderNames.lean` instantiates it with the model of `Filenames`);
* a template is "open tag, the rendering of the children in order, close tag"; the template of a footnote
  emits only its mark; a layout wraps the content and then emits the footnotes owned by the file, each as
  "open, the rendering of the footnote's children, close";
* `SectionUtils.footnotes` scans `userdata['footnotes']` (registration order: a footnote is appended *after*
  its argument has been parsed, so nested footnotes come first) and walks `currentSection` upwards; the model
  computes the same list bottom-up (`footOut`): footnotes bubble up until a node with a file name and
  `level < 100` claims them.  Footnotes that nobody claims are never rendered.
* nodes carrying a `filenameoverride` / `splitlevel` attribute (set nowhere in plasTeX itself) are outside the model.
-/
namespace PlasVerif.Model.Render

/-- `Node.DOCUMENT_LEVEL = -sys.maxsize` -/
def DOCUMENT_LEVEL : Int := -9223372036854775807
/-- `Node.ENDSECTIONS_LEVEL` -/
def ENDSECTIONS_LEVEL : Int := 100

/-- Python exception escaping `Renderer.render` from the name generator -/
inductive Err where
  | valueError      -- `Filename could not be created.`
  deriving DecidableEq, Repr

/-- the bindings `Renderable.filename` adds to `r.newFilename.variables` before calling the generator -/
structure Req where
  id : Option String
  title : Option String
  ref : Option String
  name : Option String
  deriving DecidableEq, Repr

/-- what the splitting logic reads on an element node -/
structure Attrs where
  tag : Nat                -- identity of the node as the (stub) templates print it
  level : Int              -- `node.level`
  foot : Bool              -- a `\footnote`: registered in `userdata['footnotes']`, its template prints a mark only
  id : Option String       -- explicit id (`\label`); `none` = the id is generated (`@hasgenid`)
  title : Option String    -- `none` = no `title` attribute; `some ""` = blank title
  ref : Option String      -- `none` = `ref is None`
  name : String            -- `nodeName`
  deriving DecidableEq, Repr

/-- document tree as the renderer sees it: text nodes (no `config` attribute) and element nodes -/
inductive Tree where
  | text (m : Nat)
  | elem (a : Attrs) (kids : List Tree)
  | uni (a : Attrs) (kids : List Tree)     -- an element with a unicode equivalent (`node.str is not None`: `\\S`, `\\ldots`, …)
  deriving Repr

/-- the tree after `cacheFilenames`: every element carries its cached `r.files[node]` (or nothing) -/
inductive ATree (ν : Type) where
  | text (m : Nat)
  | elem (a : Attrs) (file : Option ν) (kids : List (ATree ν))
  | uni (a : Attrs) (file : Option ν) (kids : List (ATree ν))
  deriving Repr

/-- the filename generator as the renderer uses it -/
structure Gen (σ ν : Type) where
  next : σ → Req → Except Err (ν × σ)

/-- namespace population in `Renderable.filename` -/
def req (a : Attrs) : Req :=
  { id := a.id
    title := a.title
    ref := match a.ref with | some r => if r = "" then none else some r | none => none
    name := if a.name = "" then none else some a.name }

/-- `Renderable.filename` on an element that is not yet cached -/
def filenameOf {σ ν} (g : Gen σ ν) (level : Int) (s : σ) (a : Attrs) : Except Err (Option ν × σ) :=
  if a.level > level then .ok (none, s)
  else match g.next s (req a) with
    | .error e => .error e
    | .ok (n, s') => .ok (some n, s')

mutual
/-- `Renderer.cacheFilenames(node)` -/
def assign {σ ν} (g : Gen σ ν) (level : Int) : σ → Tree → Except Err (ATree ν × σ)
  | s, .text m => .ok (.text m, s)
  | s, .elem a ks =>
    match filenameOf g level s a with
    | .error e => .error e
    | .ok (f, s1) =>
      match assignL g level s1 ks with
      | .error e => .error e
      | .ok (ks', s2) => .ok (.elem a f ks', s2)
  | s, .uni a ks =>       -- `cacheFilenames` does not look at `str`: same walk, same request
    match filenameOf g level s a with
    | .error e => .error e
    | .ok (f, s1) =>
      match assignL g level s1 ks with
      | .error e => .error e
      | .ok (ks', s2) => .ok (.uni a f ks', s2)
/-- `for child in node.childNodes: self.cacheFilenames(child)` -/
def assignL {σ ν} (g : Gen σ ν) (level : Int) : σ → List Tree → Except Err (List (ATree ν) × σ)
  | s, [] => .ok ([], s)
  | s, t :: ts =>
    match assign g level s t with
    | .error e => .error e
    | .ok (t', s1) =>
      match assignL g level s1 ts with
      | .error e => .error e
      | .ok (ts', s2) => .ok (t' :: ts', s2)
end

/-- pieces of rendered output -/
inductive Tok where
  | txt (m : Nat)        -- a text node (`r.textDefault(child)`)
  | op (tag : Nat) | cl (tag : Nat)      -- the node's template around its children
  | mark (tag : Nat)                      -- a footnote's template: the mark only
  | uni (tag : Nat)                       -- `r.textDefault(node.str)`: the unicode equivalent of a node
  | lop (tag : Nat) | lcl (tag : Nat)    -- the layout around a file's content
  | fop (tag : Nat) | fcl (tag : Nat)    -- the layout around one footnote's text
  deriving DecidableEq, Repr

abbrev File (ν : Type) := ν × List Tok

/-- `node.filename and node.level < ENDSECTIONS_LEVEL`: the node ends the `currentSection` walk of
    `SectionUtils.footnotes` -/
def claims {ν} (a : Attrs) (file : Option ν) : Bool := file.isSome && decide (a.level < ENDSECTIONS_LEVEL)

mutual
/-- `Renderable.__str__` of a node with these children: (returned string, files written) -/
def strKids {ν} : List (ATree ν) → List Tok × List (File ν)
  | [] => ([], [])
  | c :: cs =>
    let a := child c
    let b := strKids cs
    (a.1 ++ b.1, a.2 ++ b.2)
/-- one iteration of `for child in childNodes` -/
def child {ν} : ATree ν → List Tok × List (File ν)
  | .text m => ([.txt m], [])
  | .elem a file ks =>
    -- `val = func(child)`
    let val : List Tok × List (File ν) :=
      if a.foot then ([.mark a.tag], [])
      else let o := strKids ks; (.op a.tag :: (o.1 ++ [.cl a.tag]), o.2)
    match file with
    | none => val
    | some name =>
      -- `child.footnotes`, rendered by the layout after the content
      let fo : List Tok × List (File ν) := if a.level < ENDSECTIONS_LEVEL then footOutL ks else ([], [])
      ([], val.2 ++ fo.2 ++ [(name, .lop a.tag :: (val.1 ++ fo.1 ++ [.lcl a.tag]))])
  -- `uni = child.str; if uni is not None: s.append(r.textDefault(uni)); continue` — before the file name is looked at:
  -- no template, no children, no file (even if a name was cached for the node)
  | .uni a _ _ => ([.uni a.tag], [])
/-- the footnotes registered in this subtree that an enclosing file owns, as the owner's layout prints them -/
def footOut {ν} : ATree ν → List Tok × List (File ν)
  | .text _ => ([], [])
  | .elem a file ks =>
    let below : List Tok × List (File ν) := if claims a file then ([], []) else footOutL ks
    if a.foot then
      let o := strKids ks
      (below.1 ++ (.fop a.tag :: (o.1 ++ [.fcl a.tag])), below.2 ++ o.2)
    else below
  | .uni a file ks =>
    -- footnotes below the node are registered all the same; `str(footnote)` of a footnote with a unicode equivalent
    -- starts with the same short circuit
    let below : List Tok × List (File ν) := if claims a file then ([], []) else footOutL ks
    if a.foot then (below.1 ++ [.fop a.tag, .uni a.tag, .fcl a.tag], below.2) else below
def footOutL {ν} : List (ATree ν) → List Tok × List (File ν)
  | [] => ([], [])
  | c :: cs =>
    let a := footOut c
    let b := footOutL cs
    (a.1 ++ b.1, a.2 ++ b.2)
end

def ATree.isDocLevel {ν} : ATree ν → Bool
  | .text _ => false      -- text nodes have `level = CHARACTER_LEVEL`
  | .elem a _ _ => a.level == DOCUMENT_LEVEL
  | .uni a _ _ => a.level == DOCUMENT_LEVEL

def hasBlankOrBracket (template : List Char) : Bool :=
  template.any fun c => c == ' ' || c == '['

/-- Python `str.strip()` on the characters the model distinguishes -/
def isWs (c : Char) : Bool := c == ' ' || c == '\t' || c == '\n' || c == '\r' || c == '\x0b' || c == '\x0c'
def strip (cs : List Char) : List Char := ((cs.dropWhile isWs).reverse.dropWhile isWs).reverse

/-- `self.level = config['files']['split-level']`; a template that names a single file forces −10 -/
def effLevel (split : Int) (template : List Char) : Int :=
  if hasBlankOrBracket (strip template) then split else -10

/-- the `TeXDocument` node as `Renderable.filename` sees it -/
def documentNode : Attrs :=
  { tag := 0, level := 1001, foot := false, id := none, title := none, ref := none, name := "#document" }

/-- `Renderer.render(document)`: the children of the document node are `tops`; result = files written
    (in the order they are written) -/
def render {σ ν} (g : Gen σ ν) (s0 : σ) (split : Int) (template : List Char) (tops : List Tree) :
    Except Err (List (File ν)) :=
  -- `cacheFilenames(document)` starts with the document node itself (it has a `config`; its level is the
  -- default `CHARACTER_LEVEL`, so it only asks for a name when the split level is ≥ 1001; nothing is ever
  -- written under that name)
  match filenameOf g (effLevel split template) s0 documentNode with
  | .error e => .error e
  | .ok (_, s1) =>
    match assignL g (effLevel split template) s1 tops with
    | .error e => .error e
    | .ok (atops, _) => .ok (strKids (atops.filter ATree.isDocLevel)).2

/-- what is found in the output directory afterwards: `open(filename, 'w')` truncates, so of several writes under one
    name only the last one survives -/
def disk {ν} [DecidableEq ν] : List (File ν) → ν → Option (List Tok)
  | [], _ => none
  | f :: fs, n =>
    match disk fs n with
    | some c => some c
    | none => if f.1 = n then some f.2 else none

/-- a generator for the driver: the k-th request gets the name `f<k>`; it dies at request number `dieAt` -/
def counterGen (dieAt : Option Nat) : Gen Nat String :=
  { next := fun k _ => if dieAt = some k then .error .valueError else .ok (s!"f{k}", k + 1) }

end PlasVerif.Model.Render
