import PlasVerif.Model.IfScan
/-!
Model of the test primitives of `plasTeX/Base/TeX/Primitives.py` (`iftrue`, `iffalse`, `ifnum`,
`ifdim`, `ifodd`, `ifcase`, `ifx`, `ifdefined`) and of the `\newif` triple
(`plasTeX/__init__.py` `NewIf/IfTrue/IfFalse`, `Context.newif`), over the part of the
interpreter state they read or write.

Abstractions (tied by the `cond` correspondence stream only):
* an operand is the value `readInteger`/`readDimen` returns for a `\relax`-terminated literal
  (`lit`), for `\value{counter}` (`cnt`) or for a macro whose expansion is a literal (`mac`);
  dimensions are integer numbers of scaled points (only exactly representable literals are generated);
* `\ifx` operands (type `XTok` in the code): the code *expands* each operand and compares the
  results, so a macro is its body text and a character is itself;
* counters, `\newif` switches and `\gdef` are global in the code: `{`/`}` do not touch them.
-/
namespace PlasVerif.Model.Tests
open PlasVerif.Model.IfScan

inductive Rel where | lt | gt | eq | bad
  deriving DecidableEq, Repr

inductive Operand where
  | lit (n : Int) | cnt (c : Nat) | mac (n : Int)
  deriving DecidableEq, Repr

inductive XTok where
  | chr (c : Nat)
  | mac (variant : Nat) (body : List Nat)   -- `variant` distinguishes two macros with the same body
  deriving DecidableEq, Repr

inductive Test where
  | tru | fls
  | num (a : Operand) (r : Rel) (b : Operand)
  | dim (a : Int) (r : Rel) (b : Int)
  | odd (a : Operand)
  | case_ (a : Operand)
  | ifx (a b : XTok)
  | defined (name : Nat)
  | sw (k : Nat)
  deriving DecidableEq, Repr

inductive Act where
  | chr (c : Nat)                 -- a text character
  | step (c : Nat)                -- `\stepcounter{c}`
  | add (c : Nat) (n : Int)       -- `\addtocounter{c}{n}`
  | setsw (k : Nat) (b : Bool)    -- `\<k>true` / `\<k>false`
  | gdef (name : Nat)             -- `\gdef\<name>{}`
  | bgroup | egroup               -- `{` `}`
  deriving DecidableEq, Repr

structure St where
  cnt : Nat → Int
  sw : Nat → Option Bool     -- `none`: the switch has not been created
  defd : Nat → Bool

def Operand.val (s : St) : Operand → Int
  | .lit n => n
  | .cnt c => s.cnt c
  | .mac n => n

/-- the `if relation == '<' … elif '>' … elif '=' … raise ValueError` chain -/
def Rel.cmp : Rel → Int → Int → Except Err Which
  | .lt, a, b => .ok (.bool (decide (a < b)))
  | .gt, a, b => .ok (.bool (decide (a > b)))
  | .eq, a, b => .ok (.bool (decide (a = b)))
  | .bad, _, _ => .error .valueError

/-- `readArgument(type='XTok')`: the expansion of the operand -/
def XTok.expand : XTok → List Nat
  | .chr c => [c]
  | .mac _ body => body

/-- each primitive's `invoke` up to its `tex.processIfContent(...)` call -/
def ev : Test → St → Except Err Which
  | .tru, _ => .ok (.bool true)
  | .fls, _ => .ok (.bool false)
  | .num a r b, s => r.cmp (a.val s) (b.val s)
  | .dim a r b, _ => r.cmp a b
  | .odd a, s => .ok (.bool (a.val s % 2 != 0))         -- `bool(tex.readNumber() % 2)`, Python `%`
  | .case_ a, s => .ok (.case (a.val s))
  | .ifx a b, _ => .ok (.bool (a.expand == b.expand))
  | .defined n, s => .ok (.bool (s.defd n))
  | .sw k, s => .ok (.bool ((s.sw k).getD false))        -- `type(self).state`

def isCase : Test → Bool
  | .case_ _ => true
  | _ => false

def setCnt (s : St) (c : Nat) (v : Int) : St := { s with cnt := fun k => if k = c then v else s.cnt k }
def setSw (s : St) (k : Nat) (b : Bool) : St := { s with sw := fun j => if j = k then some b else s.sw j }

def eff : Act → St → St
  | .chr _, s => s
  | .step c, s => setCnt s c (s.cnt c + 1)
  | .add c n, s => setCnt s c (s.cnt c + n)
  | .setsw k b, s => if (s.sw k).isSome then setSw s k b else s   -- `ifclass.setTrue()/setFalse()`
  | .gdef n, s => { s with defd := fun k => if k = n then true else s.defd k }
  | .bgroup, s => s
  | .egroup, s => s

/-- `Context.newif(name)`: `if name in self.keys(): return`, else a new class with `state = False` -/
def decl : Tok Test Act → St → St
  | .ifl (.sw k), s => if (s.sw k).isSome then s else setSw s k false
  | _, s => s

def sem : Sem Test Act St := ⟨ev, eff, decl⟩

end PlasVerif.Model.Tests
