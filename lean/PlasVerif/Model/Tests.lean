import PlasVerif.Model.IfScan
/-!
Model of the test primitives of `plasTeX/Base/TeX/Primitives.py` (`iftrue`, `iffalse`, `ifnum`,
`ifdim`, `ifodd`, `ifcase`, `ifx`, `ifdefined`) and of the `\newif` triple
(`plasTeX/__init__.py` `NewIf/IfTrue/IfFalse`, `Context.newif`), over the part of the
interpreter state they read or write.

Abstractions (tied by the `cond` correspondence stream only):
* an operand is the value `readInteger`/`readDimen` returns for a `\relax`-terminated literal
  (`lit`), for `\value{counter}` (`cnt`) or for a macro whose expansion is a literal (`mac`);
  dimensions are integer numbers of scaled points (only exactly representable literals are generated);
* `\ifx` operands (type `XTok` in the code): the code *expands* each operand and compares the
  results, so a macro is its body text and a character is itself;
* operands may carry `-` signs and may be `\newcount`/`\newdimen` registers or integer multiples of
  them (`-\reg`, `2\reg`); `valS` mirrors how `readInteger`/`readDimen` accumulate the sign and multiply;
  registers are assigned in the preamble only (their scope is not C03's subject);
* counters, `\newif` switches and `\gdef` are global in the code: `{`/`}` do not touch them.
-/
namespace PlasVerif.Model.Tests
open PlasVerif.Model.IfScan

inductive Rel where | lt | gt | eq | bad
  deriving DecidableEq, Repr

inductive Operand where
  | lit (n : Int) | cnt (c : Nat) | mac (n : Int)
  | reg (r : Nat)               -- a `\newcount` register: an internal integer (the `ParameterCommand` branch of `readInteger`)
  | neg (o : Operand)           -- a `-` in front of the operand (`readOptionalSigns`: `sign = -sign`)
  deriving DecidableEq, Repr

/-- operands of `\ifdim` (values in sp): a literal, a `\newdimen` register, an integer multiple of one, a `-` in front -/
inductive DOperand where
  | lit (sp : Int)
  | reg (d : Nat)
  | coef (k : Nat) (d : Nat)
  | neg (o : DOperand)
  deriving DecidableEq, Repr

inductive XTok where
  | chr (c : Nat)
  | mac (variant : Nat) (body : List Nat)   -- `variant` distinguishes two macros with the same body
  deriving DecidableEq, Repr

inductive Test where
  | tru | fls
  | num (a : Operand) (r : Rel) (b : Operand)
  | dim (a : DOperand) (r : Rel) (b : DOperand)
  | odd (a : Operand)
  | case_ (a : Operand)
  | ifx (a b : XTok)
  | defined (name : Nat)
  | sw (k : Nat)
  deriving DecidableEq, Repr

inductive Act where
  | chr (c : Nat)                 -- a text character
  | step (c : Nat)                -- `\stepcounter{c}`
  | add (c : Nat) (n : Int)       -- `\addtocounter{c}{n}`
  | setsw (k : Nat) (b : Bool)    -- `\<k>true` / `\<k>false`
  | gdef (name : Nat)             -- `\gdef\<name>{}`
  | bgroup | egroup               -- `{` `}`
  deriving DecidableEq, Repr

structure St where
  cnt : Nat → Int
  sw : Nat → Option Bool     -- `none`: the switch has not been created
  defd : Nat → Bool
  reg : Nat → Int            -- `\newcount` registers (assigned in the preamble only)
  dreg : Nat → Int           -- `\newdimen` registers, in sp (assigned in the preamble only)

/-- `readInteger`: `sign = self.readOptionalSigns()` is accumulated first, then
    `number(sign * number(t))` for an internal integer, `number(sign * int(digits))` for a
    constant.  (`digits\reg` as a product is an extension of the code that TeX's ⟨number⟩ does not have; not modelled.) -/
def Operand.valS (s : St) : Int → Operand → Int
  | sign, .neg o => Operand.valS s (-sign) o
  | sign, .lit n => sign * n
  | sign, .cnt c => sign * s.cnt c
  | sign, .mac n => sign * n
  | sign, .reg r => sign * s.reg r

def Operand.val (s : St) (o : Operand) : Int := o.valS s 1

/-- `readDimen`: `sign = self.readOptionalSigns()`, then `dimen(sign * dimen(t))` for a register,
    else `dimen(sign * readDecimal() * readUnitOfMeasure())` where the unit may be a register. -/
def DOperand.valS (s : St) : Int → DOperand → Int
  | sign, .neg o => DOperand.valS s (-sign) o
  | sign, .lit n => sign * n
  | sign, .reg d => sign * s.dreg d
  | sign, .coef k d => (sign * k) * s.dreg d

def DOperand.val (s : St) (o : DOperand) : Int := o.valS s 1

/-- the `if relation == '<' … elif '>' … elif '=' … raise ValueError` chain -/
def Rel.cmp : Rel → Int → Int → Except Err Which
  | .lt, a, b => .ok (.bool (decide (a < b)))
  | .gt, a, b => .ok (.bool (decide (a > b)))
  | .eq, a, b => .ok (.bool (decide (a = b)))
  | .bad, _, _ => .error .valueError

/-- `readArgument(type='XTok')`: the expansion of the operand -/
def XTok.expand : XTok → List Nat
  | .chr c => [c]
  | .mac _ body => body

/-- each primitive's `invoke` up to its `tex.processIfContent(...)` call -/
def ev : Test → St → Except Err Which
  | .tru, _ => .ok (.bool true)
  | .fls, _ => .ok (.bool false)
  | .num a r b, s => r.cmp (a.val s) (b.val s)
  | .dim a r b, s => r.cmp (a.val s) (b.val s)
  | .odd a, s => .ok (.bool (a.val s % 2 != 0))         -- `bool(tex.readNumber() % 2)`, Python `%`
  | .case_ a, s => .ok (.case (a.val s))
  | .ifx a b, _ => .ok (.bool (a.expand == b.expand))
  | .defined n, s => .ok (.bool (s.defd n))
  | .sw k, s => .ok (.bool ((s.sw k).getD false))        -- `type(self).state`

def isCase : Test → Bool
  | .case_ _ => true
  | _ => false

def setCnt (s : St) (c : Nat) (v : Int) : St := { s with cnt := fun k => if k = c then v else s.cnt k }
def setSw (s : St) (k : Nat) (b : Bool) : St := { s with sw := fun j => if j = k then some b else s.sw j }

def eff : Act → St → St
  | .chr _, s => s
  | .step c, s => setCnt s c (s.cnt c + 1)
  | .add c n, s => setCnt s c (s.cnt c + n)
  | .setsw k b, s => if (s.sw k).isSome then setSw s k b else s   -- `ifclass.setTrue()/setFalse()`
  | .gdef n, s => { s with defd := fun k => if k = n then true else s.defd k }
  | .bgroup, s => s
  | .egroup, s => s

/-- `Context.newif(name)`: `if name in self.keys(): return`, else a new class with `state = False` -/
def decl : Tok Test Act → St → St
  | .ifl (.sw k), s => if (s.sw k).isSome then s else setSw s k false
  | _, s => s

/-! ### the names `Context.newif(name)` registers

```
ifclass  = type(name, (NewIf,), {'state': initial});           self.addGlobal(name, ifclass)
truename = name[2:] + 'true';   type(truename, (IfTrue,), {'ifclass': ifclass});   self.addGlobal(truename, …)
falsename = name[2:] + 'false'; type(falsename, (IfFalse,), {'ifclass': ifclass}); self.addGlobal(falsename, …)
```
Names are lists of code points.  The model's switch index `k` stands for the name; this function is
what ties a setter macro `\<rest>true` to its switch `\if<rest>`. -/

def trueSuffix : List Nat := [116, 114, 117, 101]          -- "true"
def falseSuffix : List Nat := [102, 97, 108, 115, 101]     -- "false"

/-- (name of the switch, name of its true-setter, name of its false-setter) -/
def newifNames (name : List Nat) : List Nat × List Nat × List Nat :=
  (name, name.drop 2 ++ trueSuffix, name.drop 2 ++ falseSuffix)

def sem : Sem Test Act St := ⟨ev, eff, decl⟩

end PlasVerif.Model.Tests
