import PlasVerif.Model.Digest
/-!
C11's use of the C07 digestion / normalisation model (`Model/Digest.lean`): the nodes of verbatim text
and mathematics, and the two variants of the digest-time normalisation of a brace group or array cell
*inside mathematics* (known finding D17, `charsub-in-math-group`).

* `NoCharSubEnvironment.normalize` (verbatim, math environments) and `verb.normalize` drop the
  substitution list: their items carry `nosub = true`.
* `bgroup.digest` / `ArrayCell.digest` end with `self.paragraphs(force=False)`, which — when the group
  holds no paragraph — calls `self.normalize(self.ownerDocument.charsubs)` *at digest time*, before the
  group is attached below the math node.  `paragraphs false` of the C07 model is that code as written
  (as-is variant).  `paragraphsInMath` is the repaired variant: `paragraphs` passes no substitution list
  when an ancestor is in math mode.
-/
namespace PlasVerif.Model.NoCharsub
open PlasVerif.Model.Digest PlasVerif.Generated.Digest

/-- one character token as it sits in the token list returned by `VerbatimEnvironment.invoke` / `verb.invoke` -/
def charTok (c : Nat) : Tree :=
  .node { ref := .unset, elem := false, level := characterLevel, depth := defaultContextDepth, block := false,
          dk := .none, ty := 0, modeEnd := false, egroup := false, isItem := false, ws := false, dynws := false,
          setctr := false, forcePars := false, nosub := false, chars := [c], src := [], argLeaves := [] } .unset []

/-- an element whose class suppresses substitution (`verbatim`, `verb`, `math`, `displaymath`, `equation`, …) -/
def nosubItem (ref : Ref) (ty : Nat) (dk : DK) : Item :=
  { ref := ref, elem := true, level := environmentLevel, depth := defaultContextDepth, block := false, dk := dk,
    ty := ty, modeEnd := false, egroup := false, isItem := false, ws := false, dynws := false, setctr := false,
    forcePars := false, nosub := true, chars := [], src := [], argLeaves := [] }

/-- the verbatim / `\verb` node after digestion: its children are the character tokens of the content -/
def verbatimNode (ref : Ref) (content : List Nat) : Tree :=
  .node (nosubItem ref 1 .env) .unset (content.map charTok)

/-- a brace group (or array cell) element: its class does *not* suppress substitution -/
def groupItem (ref : Ref) : Item :=
  { ref := ref, elem := true, level := characterLevel, depth := defaultContextDepth, block := false, dk := .bgroup,
    ty := 2, modeEnd := false, egroup := false, isItem := false, ws := false, dynws := false, setctr := false,
    forcePars := false, nosub := false, chars := [], src := [], argLeaves := [] }

/-- repaired `Macro.paragraphs(force=False)` for a node without paragraph children: inside mathematics the
    node is normalised without a substitution list -/
def paragraphsInMath (inMath : Bool) (t : Tree) : Tree :=
  if inMath then norm false t else paragraphs false t

end PlasVerif.Model.NoCharsub
