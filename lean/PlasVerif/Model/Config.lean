/-!
# Model of plasTeX's configuration layering (C16)

Mirrors, as written, `plasTeX/ConfigManager.py` (`ConfigOption.setFromString/updateFromDict`,
`BooleanOption`, `MultiStringOption`, `DictOption`, `ConfigSection.__getitem__`,
`ConfigManager.read`, `InterpolationWrapper`), the `LinksOption` of `plasTeX/Config.py`
and the order of `plasTeX/client.py main` (parse_args → read(files) → updateFromDict).

Strings are lists of code points (`Nat`).  `configparser`, `argparse`, `shlex`, `int()`,
`float()` are trusted: the model receives what `configparser` hands over (lower-cased keys,
stripped values) and the command line as a list of option occurrences `flag args…`;
`parseInt`/`parseDec`/`shlexSplit` model the builtins on the restricted input language
(ASCII decimal literals, blank-separated shell-safe words).
-/
namespace PlasVerif.Model.Config

abbrev Str := List Nat

inductive Err | valueError | keyError | systemExit | argumentTypeError | recursionError | unsupported
  deriving DecidableEq, Repr

inductive ATy | str | int | flt | bool
  deriving DecidableEq, Repr

/-- `dict t links`: a `DictOption` with entries of type `t`; `links` marks `LinksOption`'s own `updateFromDict` -/
inductive Ty | atom (t : ATy) | list | dict (t : ATy) (links : Bool)
  deriving DecidableEq, Repr

/-- a float is the exact decimal `m / 10^e` (normalised: `e = 0` or `10 ∤ m`) -/
inductive Atom | str (s : Str) | int (n : Int) | flt (m : Int) (e : Nat) | bool (b : Bool)
  deriving DecidableEq, Repr

inductive Val | atom (a : Atom) | list (xs : List Str) | dict (kvs : List (Str × Atom))
  deriving DecidableEq, Repr

structure Opt where
  sec : Str
  key : Str
  /-- `option.name`: the argparse `dest` and the key of `data.get(self.name)` (`options[0].lstrip("-")` in the pinned code) -/
  dest : Str
  ty : Ty
  dflt : Val
  /-- option strings not starting with `!` -/
  flags : List Str
  /-- option strings given with a leading `!` (only `BooleanOption` interprets them) -/
  noflags : List Str
  deriving DecidableEq, Repr

abbrev Table := List Opt
/-- current values, by index into the table -/
abbrev St := Nat → Val

def St.set (st : St) (i : Nat) (v : Val) : St := fun j => if j = i then v else st j

def init (T : Table) : St := fun i => match T[i]? with | some o => o.dflt | none => .list []

/-! ## builtins on the restricted language -/

def isDigit (c : Nat) : Bool := 48 ≤ c && c ≤ 57

def digitsVal : Str → Nat → Nat
  | [], acc => acc
  | c :: cs, acc => digitsVal cs (acc * 10 + (c - 48))

def allDigits (s : Str) : Bool := !s.isEmpty && s.all isDigit

/-- `int(s)` on `[+-]?[0-9]+` -/
def parseInt (s : Str) : Except Err Int :=
  match s with
  | 45 :: r => if allDigits r then .ok (-(digitsVal r 0 : Int)) else .error .valueError
  | 43 :: r => if allDigits r then .ok (digitsVal r 0 : Int) else .error .valueError
  | r => if allDigits r then .ok (digitsVal r 0 : Int) else .error .valueError

/-- strip trailing zeros of the fraction: `(m, e)` with `e = 0 ∨ m % 10 ≠ 0` -/
def normDec : Nat → Nat → Nat × Nat
  | m, 0 => (m, 0)
  | m, e + 1 => if m % 10 = 0 then normDec (m / 10) e else (m, e + 1)

/-- `float(s)` on `[+-]?[0-9]+(\.[0-9]+)?`, as an exact decimal -/
def parseDec (s : Str) : Except Err (Int × Nat) :=
  let (neg, r) := match s with | 45 :: r => (true, r) | 43 :: r => (false, r) | r => (false, r)
  let ip := r.takeWhile (· ≠ 46)
  let rest := r.dropWhile (· ≠ 46)
  match rest with
  | [] => if allDigits ip then .ok ((if neg then -1 else 1) * (digitsVal ip 0 : Int), 0) else .error .valueError
  | _ :: fp =>
    if allDigits ip && allDigits fp then
      let (m, e) := normDec (digitsVal (ip ++ fp) 0) fp.length
      .ok ((if neg then -1 else 1) * (m : Int), e)
    else .error .valueError

/-- `shlex.split` on blank-separated shell-safe words -/
def splitWords : Str → Str → List Str
  | [], cur => if cur.isEmpty then [] else [cur.reverse]
  | c :: cs, cur => if c = 32 then (if cur.isEmpty then splitWords cs [] else cur.reverse :: splitWords cs [])
                    else splitWords cs (c :: cur)
def shlexSplit (s : Str) : List Str := splitWords s []

/-- `str.strip()` for blanks -/
def strip (s : Str) : Str := ((s.dropWhile (· = 32)).reverse.dropWhile (· = 32)).reverse

/-- `str.split(sep)` -/
def splitOn (sep : Nat) : Str → Str → List Str
  | [], cur => [cur.reverse]
  | c :: cs, cur => if c = sep then cur.reverse :: splitOn sep cs [] else splitOn sep cs (c :: cur)

/-- `entry.split("=", maxsplit=1)`; `none` when there is no `=` (the unpacking raises ValueError) -/
def splitEq : Str → Str → Option (Str × Str)
  | [], _ => none
  | c :: cs, cur => if c = 61 then some (cur.reverse, cs) else splitEq cs (c :: cur)

/-- `str.lower()` on ASCII -/
def lower (s : Str) : Str := s.map fun c => if 65 ≤ c && c ≤ 90 then c + 32 else c

/-! ## per-type conversion -/

def sYes : Str := [121, 101, 115]
def sTrue : Str := [116, 114, 117, 101]
def sOn : Str := [111, 110]
def sOne : Str := [49]
def sNo : Str := [110, 111]
def sFalse : Str := [102, 97, 108, 115, 101]
def sOff : Str := [111, 102, 102]
def sZero : Str := [48]

/-- `BooleanOption.setFromString` after the D3 repair: the words of `configparser`, case-insensitive -/
def boolFromString (s : Str) : Except Err Bool :=
  let w := lower (strip s)
  if w = sOne ∨ w = sYes ∨ w = sTrue ∨ w = sOn then .ok true
  else if w = sZero ∨ w = sNo ∨ w = sFalse ∨ w = sOff then .ok false
  else .error .valueError

/-- the pinned code: `ConfigOption.setFromString` → `bool(string)` -/
def boolFromStringAsIs (s : Str) : Except Err Bool := .ok (!s.isEmpty)

/-- `self.valueType()(string)` / `entryFromString` -/
def atomFromString (asIs : Bool) : ATy → Str → Except Err Atom
  | .str, s => .ok (.str s)
  | .int, s => .int <$> parseInt s
  | .flt, s => (fun p => .flt p.1 p.2) <$> parseDec s
  | .bool, s => .bool <$> (if asIs then boolFromStringAsIs s else boolFromString s)

/-- `self.value[key] = …` on an insertion-ordered dict -/
def dictSet : List (Str × Atom) → Str → Atom → List (Str × Atom)
  | [], k, v => [(k, v)]
  | (k', v') :: r, k, v => if k' = k then (k, v) :: r else (k', v') :: dictSet r k v

/-- `DictOption.set(key, value)` -/
def dictSetStr (t : ATy) (cur : Val) (k v : Str) : Except Err Val :=
  match cur with
  | .dict kvs => do let a ← atomFromString false t v; pure (.dict (dictSet kvs k a))
  | _ => .error .unsupported

/-- `DictOption.setFromString`: `for entry in string.split(","): key, val = entry.split("=", 1); set(strip, strip)` -/
def dictSetEntries (t : ATy) : Val → List Str → Except Err Val
  | cur, [] => pure cur
  | cur, e :: es =>
    match splitEq e [] with
    | none => .error .valueError
    | some (k, v) => do let cur' ← dictSetStr t cur (strip k) (strip v); dictSetEntries t cur' es

/-- `option.setFromString(val)` by option class -/
def setFromString (asIs : Bool) (ty : Ty) (cur : Val) (s : Str) : Except Err Val :=
  match ty with
  | .atom t => .atom <$> atomFromString asIs t s
  | .list => match cur with
    | .list xs => .ok (.list (xs ++ shlexSplit s))
    | _ => .error .unsupported
  | .dict t _ => dictSetEntries t cur (splitOn 44 s [])

/-! ## `ConfigManager.read` -/

/-- `key in self[section].data` / `self[section].data[key]` -/
def findIdx (T : Table) (sec key : Str) : Option Nat := T.findIdx? fun o => o.sec = sec && o.key = key

def isDict : Ty → Bool | .dict _ _ => true | _ => false

/-- `next((x for x in self[section].data.values() if isinstance(x, DictOption)), None)` -/
def dictIdx (T : Table) (sec : Str) : Option Nat := T.findIdx? fun o => o.sec = sec && isDict o.ty

def hasSection (T : Table) (sec : Str) : Bool := T.any (·.sec = sec)

def tyAt (T : Table) (i : Nat) : Ty := match T[i]? with | some o => o.ty | none => .list

/-- body of `for key, val in data.items(section)` -/
def readItem (asIs : Bool) (T : Table) (sec : Str) (st : St) (kv : Str × Str) : Except Err St :=
  match findIdx T sec kv.1 with
  | some i => do let v ← setFromString asIs (tyAt T i) (st i) kv.2; pure (st.set i v)
  | none =>
    match dictIdx T sec with
    | some d =>
      match tyAt T d with
      | .dict t _ => do let v ← dictSetStr t (st d) kv.1 kv.2; pure (st.set d v)
      | _ => pure st
    | none => pure st          -- "Unrecognized config"

abbrev Section := Str × List (Str × Str)
abbrev File := List Section

/-- body of `for section in data.sections()` -/
def readSection (asIs : Bool) (T : Table) (st : St) (s : Section) : Except Err St :=
  if hasSection T s.1 then s.2.foldlM (readItem asIs T s.1) st
  else pure st                 -- "Unrecognized section": continue

def readFile (asIs : Bool) (T : Table) (st : St) (f : File) : Except Err St := f.foldlM (readSection asIs T) st

/-- `ConfigManager.read(filenames)` -/
def read (asIs : Bool) (T : Table) (st : St) (fs : List File) : Except Err St := fs.foldlM (readFile asIs T) st

/-! ## command line: `registerArgparse` + `parse_args` (trusted argparse) + `updateFromDict` -/

structure Occ where
  flag : Str
  args : List Str
  deriving DecidableEq, Repr

def owns (o : Opt) (flag : Str) : Bool :=
  match o.ty with
  | .atom .bool => o.flags.contains flag || o.noflags.contains flag
  | _ => o.flags.contains flag

/-- what argparse accepts for one occurrence of an option (everything else is `SystemExit(2)`) -/
def occOk (o : Opt) (a : Occ) : Bool :=
  match o.ty with
  | .atom .bool => a.args.isEmpty
  | .atom t => match a.args with
    | [s] => (match atomFromString false t s with | .ok _ => true | .error _ => false)
    | _ => false
  | .list => true
  | .dict _ true => !a.args.isEmpty          -- nargs='+'
  | .dict _ false => a.args.length == 2      -- nargs=2

/-- `parser.parse_args(argv)`: every occurrence must belong to a registered option and be well-formed -/
def parseArgs (T : Table) (argv : List Occ) : Except Err Unit :=
  argv.foldlM (fun _ a => match T.find? (owns · a.flag) with
    | some o => if occOk o a then pure () else .error .systemExit
    | none => .error .systemExit) ()

def occsOf (o : Opt) (argv : List Occ) : List Occ := argv.filter (fun a => owns o a.flag)

/-- `LinksOption.updateFromDict` / `DictOption.updateFromDict` for one `entry` -/
def dictCliEntry (t : ATy) (links : Bool) (cur : Val) (args : List Str) : Except Err Val :=
  if links then
    match args with
    | [n, title] => dictSetStr t cur (n ++ [45, 116, 105, 116, 108, 101]) title
    | [n, url, title] => do
        let c ← dictSetStr t cur (n ++ [45, 117, 114, 108]) url
        dictSetStr t c (n ++ [45, 116, 105, 116, 108, 101]) title
    | _ => .error .argumentTypeError
  else
    match args with
    | [k, v] => dictSetStr t cur k v
    | _ => .error .valueError             -- `for key, val in entries` unpacking

/-- `option.updateFromDict(data)` when the option's `dest` and option strings are its own: `data.get(self.name)` is what
    argparse collected from the option's own occurrences (equal to `updateOptD` then: `Proofs/ConfigDest.lean`) -/
def updateOpt (o : Opt) (cur : Val) (argv : List Occ) : Except Err Val :=
  let occs := occsOf o argv
  match o.ty with
  | .atom .bool =>
    match occs.getLast? with
    | none => pure cur
    | some a => pure (.atom (.bool (o.flags.contains a.flag)))     -- store_true / store_false, last one wins
  | .atom t =>
    match occs.getLast? with
    | none => pure cur
    | some a => match a.args with
      | [s] => .atom <$> atomFromString false t s
      | _ => .error .systemExit
  | .list =>
    match cur with
    | .list xs => pure (.list (xs ++ (occs.map (·.args)).flatten))  -- for entry in value: self.value.extend(entry)
    | _ => .error .unsupported
  | .dict t links => occs.foldlM (fun c a => dictCliEntry t links c a.args) cur

/-! ### the argparse namespace, keyed by `dest`

`registerArgparse` registers every option string with `dest=self.name`; `updateFromDict` reads `data.get(self.name)`.
Options that share a `dest` therefore share one namespace slot: each occurrence is stored by the action of the
option that *registered* the option string, and every option with that `dest` reads the slot back. -/

/-- the occurrences argparse stores under `dest`, each with the option whose action stores it -/
def route1 (T : Table) (dest : Str) (a : Occ) : Option (Opt × Occ) :=
  match T.find? (owns · a.flag) with
  | some o' => if o'.dest = dest then some (o', a) else none
  | none => none
def routed (T : Table) (dest : Str) (argv : List Occ) : List (Opt × Occ) := argv.filterMap (route1 T dest)

/-- a namespace slot: default `None`, a stored scalar, or the list of argument lists of `action='append'` -/
inductive NS | none | atom (a : Atom) | lists (xs : List (List Str))
  deriving DecidableEq, Repr

/-- one occurrence: `store` with `type=` / `store_true` / `store_false` overwrite, `append` appends -/
def store (ns : NS) (p : Opt × Occ) : Except Err NS :=
  match p.1.ty with
  | .atom .bool => pure (.atom (.bool (p.1.flags.contains p.2.flag)))
  | .atom t => match p.2.args with
    | [s] => match atomFromString false t s with
      | .ok a => pure (.atom a)
      | .error _ => .error .systemExit
    | _ => .error .systemExit
  | _ => match ns with
    | .none => pure (.lists [p.2.args])
    | .lists xs => pure (.lists (xs ++ [p.2.args]))
    | .atom _ => .error .unsupported                    -- `append` onto a stored scalar: AttributeError

def namespaceAt (T : Table) (dest : Str) (argv : List Occ) : Except Err NS := (routed T dest argv).foldlM store .none

/-- `option.updateFromDict(data)` as written: `value = data.get(self.name)`, then by option class -/
def updateOptD (T : Table) (o : Opt) (cur : Val) (argv : List Occ) : Except Err Val := do
  let ns ← namespaceAt T o.dest argv
  match o.ty, ns with
  | _, .none => pure cur                                  -- `if value is not None`
  | .atom _, .atom a => pure (.atom a)                    -- `self.value = value`
  | .atom _, .lists _ => .error .unsupported
  | .list, .lists xs =>
    match cur with
    | .list ys => pure (.list (ys ++ xs.flatten))         -- `for entry in value: self.value.extend(entry)`
    | _ => .error .unsupported
  | .list, .atom _ => .error .unsupported
  | .dict t links, .lists xs => xs.foldlM (dictCliEntry t links) cur
  | .dict _ _, .atom _ => .error .unsupported

def updateFrom (T : Table) (argv : List Occ) : List Opt → Nat → St → Except Err St
  | [], _, st => pure st
  | o :: r, i, st => do let v ← updateOptD T o (st i) argv; updateFrom T argv r (i + 1) (st.set i v)

/-- `ConfigManager.updateFromDict(data)`: every section, every option, in order -/
def updateFromDict (T : Table) (argv : List Occ) (st : St) : Except Err St := updateFrom T argv T 0 st

/-- `client.main`: defaults → `parse_args` → `read(data["config"])` → `updateFromDict(data)` -/
def run (asIs : Bool) (T : Table) (files : List File) (argv : List Occ) : Except Err St := do
  parseArgs T argv
  let st ← read asIs T (init T) files
  updateFromDict T argv st

/-! ## the entry point `plasTeX.client.main(argv)`: words of the command line

`parser.parse_args(argv)` on the raw words (argparse trusted; modelled on the restricted language: option strings are
given exactly, values are plain words, no `--opt=value`, no `--`): `-c`/`--config` take one word and are collected in
order (`action="append"`), every other option string takes the words its class asks for (`store_true/false`: none,
typed `store`: one, `nargs=2`: two, `nargs='*'`: all following plain words, `nargs='+'`: at least one), the remaining
plain words are positionals and exactly one (`file`) is required.  Then `config.read(data["config"])` reads the files
in that order (files that do not exist are ignored), then `config.updateFromDict(data)`. -/

/-- argparse treats a word as an option string when it starts with `-`, is not `-` alone and is not a negative number -/
def optLike (w : Str) : Bool :=
  match w with
  | 45 :: c :: _ => !(isDigit c || c = 46)
  | _ => false

inductive NArgs | zero | one | two | star | plus
  deriving DecidableEq, Repr

def nargsOf (o : Opt) : NArgs :=
  match o.ty with
  | .atom .bool => .zero
  | .atom _ => .one
  | .list => .star
  | .dict _ true => .plus
  | .dict _ false => .two

def sDashC : Str := [45, 99]
def sConfig : Str := [45, 45, 99, 111, 110, 102, 105, 103]

structure Parsed where
  configs : List Str := []
  positionals : List Str := []
  occs : List Occ := []
  deriving DecidableEq, Repr

/-- the words an option string consumes, and the rest -/
def takeArgs (n : NArgs) (rest : List Str) : Except Err (List Str × List Str) :=
  let plain := rest.takeWhile (fun w => !optLike w)
  let after := rest.dropWhile (fun w => !optLike w)
  match n with
  | .zero => pure ([], rest)
  | .one => match plain with
    | a :: more => pure ([a], more ++ after)
    | [] => .error .systemExit                      -- "expected one argument"
  | .two => match plain with
    | a :: b :: more => pure ([a, b], more ++ after)
    | _ => .error .systemExit                       -- "expected 2 arguments"
  | .star => pure (plain, after)
  | .plus => if plain.isEmpty then .error .systemExit else pure (plain, after)

/-- `parse_args` on words (fuel = number of words + 1) -/
def splitArgv (T : Table) : Nat → List Str → Parsed → Except Err Parsed
  | 0, _, _ => .error .unsupported
  | _ + 1, [], p => pure { configs := p.configs.reverse, positionals := p.positionals.reverse, occs := p.occs.reverse }
  | f + 1, w :: rest, p =>
    if optLike w then
      if w = sDashC ∨ w = sConfig then do
        let (args, rest') ← takeArgs .one rest
        splitArgv T f rest' { p with configs := args ++ p.configs }
      else match T.find? (owns · w) with
        | none => .error .systemExit                -- "unrecognized arguments"
        | some o => do
          let (args, rest') ← takeArgs (nargsOf o) rest
          splitArgv T f rest' { p with occs := ⟨w, args⟩ :: p.occs }
    else splitArgv T f rest { p with positionals := w :: p.positionals }

/-- `client.main(argv)`: the named configuration files that exist, in the order of their `-c`/`--config` options, then the
    command line.  `fm` = the files that exist, by name. -/
def mainModel (asIs : Bool) (T : Table) (fm : List (Str × File)) (words : List Str) : Except Err St := do
  let p ← splitArgv T (words.length + 1) words {}
  match p.positionals with
  | [_] => run asIs T (p.configs.filterMap fun n => (fm.find? (·.1 = n)).map (·.2)) p.occs
  | _ => .error .systemExit                         -- `file` missing, or unrecognized extra words

/-! ## histories: the configuration is a mutable object, read back at any time

Layers may be applied one after the other (`config.read(file)`, `config.updateFromDict(parse_args(argv))`), values may
be assigned (`config[section][key] = value`), and `config[section][key]` may be read between any two of these.
Reading back is a function of the *current* values only (there is no cache in `ConfigSection.__getitem__`). -/

inductive Step
  | read (f : File)            -- `config.read(filename)`
  | cli (argv : List Occ)      -- `config.updateFromDict(vars(parser.parse_args(argv)))`
  | assign (sec key : Str) (v : Val)   -- `config[sec][key] = v`  (`ConfigSection.__setitem__`, non-option value)
  | observe                    -- read every option back
  deriving DecidableEq, Repr

/-- `self.data[key].value = value` (`KeyError` for an unknown section or key) -/
def assign (T : Table) (st : St) (sec key : Str) (v : Val) : Except Err St :=
  match findIdx T sec key with
  | some i => pure (st.set i v)
  | none => .error .keyError

def stepHist (asIs : Bool) (T : Table) (st : St) : Step → Except Err St
  | .read f => readFile asIs T st f
  | .cli argv => do parseArgs T argv; updateFromDict T argv st
  | .assign sec key v => assign T st sec key v
  | .observe => pure st

/-- the states at the observation points of a history; the history stops at the first exception -/
def hist (asIs : Bool) (T : Table) : List Step → St → List St × Option Err
  | [], _ => ([], none)
  | s :: r, st =>
    match stepHist asIs T st s with
    | .error e => ([], some e)
    | .ok st' =>
      let (obs, e) := hist asIs T r st'
      (match s with | .observe => st' :: obs | _ => obs, e)

/-! ## reading back: `ConfigSection.__getitem__` with `InterpolationWrapper` -/

def natDigits : Nat → Nat → Str → Str
  | 0, _, acc => acc
  | f + 1, n, acc => if n < 10 then (48 + n) :: acc else natDigits f (n / 10) ((48 + n % 10) :: acc)
def natStr (n : Nat) : Str := natDigits (n + 1) n []
def intStr (i : Int) : Str := if i < 0 then 45 :: natStr i.natAbs else natStr i.natAbs

def padLeft (n : Nat) (s : Str) : Str := List.replicate (n - s.length) 48 ++ s

/-- `str(float)` for decimals that Python prints positionally (1e-4 ≤ |x| < 1e16) -/
def fltStr (m : Int) (e : Nat) : Str :=
  let d := padLeft (e + 1) (natStr m.natAbs)
  let ip := d.take (d.length - e)
  let fp := d.drop (d.length - e)
  (if m < 0 then [45] else []) ++ ip ++ [46] ++ (if fp.isEmpty then [48] else fp)

/-- `repr(str)` for printable ASCII: double quotes when the text has `'` and no `"`, backslash escapes -/
def quote (s : Str) : Str :=
  if s.contains 39 && !s.contains 34 then [34] ++ s.flatMap (fun c => if c = 92 then [92, 92] else [c]) ++ [34]
  else [39] ++ s.flatMap (fun c => if c = 92 then [92, 92] else if c = 39 then [92, 39] else [c]) ++ [39]

def atomStr : Atom → Str
  | .str s => s
  | .int n => intStr n
  | .flt m e => fltStr m e
  | .bool true => [84, 114, 117, 101]
  | .bool false => [70, 97, 108, 115, 101]

def atomRepr : Atom → Str
  | .str s => quote s
  | a => atomStr a

def joinWith (sep : Str) : List Str → Str
  | [] => []
  | [x] => x
  | x :: r => x ++ sep ++ joinWith sep r

/-- `str(value)` as `%s` sees it -/
def valStr : Val → Str
  | .atom a => atomStr a
  | .list xs => [91] ++ joinWith [44, 32] (xs.map quote) ++ [93]
  | .dict kvs => [123] ++ joinWith [44, 32] (kvs.map fun kv => quote kv.1 ++ [58, 32] ++ atomRepr kv.2) ++ [125]

inductive Mode | text | pct | key (acc : Str)

/-- `string % wrapper` restricted to `%(name)s` and `%%` (other conversions are outside the property: `unsupported`) -/
def scan (look : Str → Except Err Str) : Mode → Str → Except Err Str
  | .text, [] => pure []
  | .text, c :: cs => if c = 37 then scan look .pct cs else (c :: ·) <$> scan look .text cs
  | .pct, [] => .error .valueError                         -- "incomplete format"
  | .pct, c :: cs =>
    if c = 37 then (37 :: ·) <$> scan look .text cs
    else if c = 40 then scan look (.key []) cs
    else .error .unsupported
  | .key _, [] => .error .valueError                        -- "incomplete format key"
  | .key acc, c :: cs =>
    if c = 41 then do
      let v ← look acc.reverse                              -- the mapping is consulted before the conversion char
      match cs with
      | [] => .error .valueError
      | c' :: cs' => if c' = 115 then do let r ← scan look .text cs'; pure (v ++ r) else .error .unsupported
    else scan look (.key (c :: acc)) cs

def interp (look : Str → Except Err Str) (s : Str) : Except Err Str := scan look .text s

/-- `InterpolationWrapper.__getitem__`: sections in order, `KeyError` (also one raised *inside* the
    section's own interpolation) moves on to the next section -/
def lookupWith (get : Nat → Except Err Val) : List Nat → Except Err Str
  | [] => .error .keyError
  | j :: js => match get j with
    | .ok v => pure (valStr v)
    | .error .keyError => lookupWith get js
    | .error e => .error e

def candidatesFrom (name : Str) : Table → Nat → List Nat
  | [], _ => []
  | o :: r, i => if o.key = name then i :: candidatesFrom name r (i + 1) else candidatesFrom name r (i + 1)
def candidates (T : Table) (name : Str) : List Nat := candidatesFrom name T 0

/-- `ConfigSection.__getitem__` (fuel = remaining Python recursion depth) -/
def getItem (T : Table) (st : St) : Nat → Nat → Except Err Val
  | 0, _ => .error .recursionError
  | f + 1, i =>
    let look := fun name => lookupWith (getItem T st f) (candidates T name)
    match st i with
    | .atom (.str s) => (fun r => .atom (.str r)) <$> interp look s
    | .list (x :: xs) => .list <$> (x :: xs).mapM (interp look)
    | v => pure v

def fuelFor (T : Table) : Nat := T.length + 1

/-- `config[section][key]` of option `i` -/
def readBack (T : Table) (st : St) (i : Nat) : Except Err Val := getItem T st (fuelFor T) i

/-- `ConfigSection.get(key, default)`: `try: return self[key]  except KeyError: return default` — `none` = the default
    (a `KeyError` raised by the interpolation of the value gives the default too) -/
def getDefault (T : Table) (st : St) (i : Nat) : Except Err (Option Val) :=
  match readBack T st i with
  | .ok v => .ok (some v)
  | .error .keyError => .ok none
  | .error e => .error e

end PlasVerif.Model.Config
