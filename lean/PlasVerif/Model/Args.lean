import PlasVerif.Model.Numbers
/-!
Model of `Macro.parse` / `TeX.readArgumentAndSource` / `readToken` / `readCharacter` /
`readGrouping` / `cast*` / `normalize` (`plasTeX/__init__.py`, `plasTeX/TeX.py`) over character
tokens (letters, others, spaces, braces, `\relax`-like control sequences).

For such tokens `expandTokens` is the identity up to representation: a brace group of an expanded
argument becomes one `bgroup` element holding its content, which `castList`/`castDictionary`
treat as one atom; the model keeps the raw tokens and tracks the brace depth instead.  A value
that the code returns as token list / fragment / element is observed through its TeX source.
-/
namespace PlasVerif.Model.Args
open PlasVerif.Model.Numbers

inductive Spec where
  | tok                      -- spec = None: one token or one brace group
  | chr (c : Nat)            -- one-character spec (`*`, `=`)
  | pair (b e : Nat)         -- two-character spec (`[]`, `()`, `<>`, `{}`)
  deriving DecidableEq, Repr

inductive Ty where
  | none | str | int | float | dimen | list | dict | nox | token
  | tNumber | tDimen | tGlue          -- TeX-style: read straight from the stream by the scanners
  deriving DecidableEq, Repr

inductive Err where
  | num (e : Numbers.Err)
  | attr                     -- AttributeError: `currentvalue.append` on None in castDictionary
  deriving DecidableEq, Repr

inductive Val where
  | absent                                   -- None
  | toks (ts : List Tok)                     -- token / token list / fragment / element (compared by source)
  | str (s : List Nat)
  | int (i : Int)
  | rat (q : Rat)
  | glue (g : Glue)
  | tt                                       -- True (dictionary key without value)
  | list (xs : List Val)
  | dict (kvs : List (List Nat × Val))       -- in insertion order, later keys replace earlier ones

def isBg : Tok → Bool | .bg _ => true | _ => false
def isEg : Tok → Bool | .eg _ => true | _ => false

/-- does the raw token spell the character `c` (`str(t) == c`; control sequences are excluded by their catcode) -/
def spells (c : Nat) : Tok → Bool
  | .ch d => d == c
  | .sp => c == 32
  | .bg false => c == 123
  | .eg false => c == 125
  | _ => false

/-- inner loop of `readToken` after `{`: `(toks, rest)`; at end of input everything read is the content -/
def untilClose : Nat → List Tok → List Tok × List Tok
  | _, [] => ([], [])
  | level, t :: ts =>
    if isBg t then let r := untilClose (level + 1) ts; (t :: r.1, r.2)
    else if isEg t then
      match level with
      | 0 => ([], ts)
      | l + 1 => let r := untilClose l ts; (t :: r.1, r.2)
    else let r := untilClose level ts; (t :: r.1, r.2)

/-- `readToken`: `(toks or None, rest)`; the source is what was consumed -/
def readToken : List Tok → Option (List Tok) × List Tok
  | [] => (none, [])
  | t :: ts => if isBg t then let r := untilClose 0 ts; (some r.1, r.2) else (some [t], ts)

/-- `t == char` in `readCharacter` (string comparison; a one-character control sequence also compares equal) -/
def eqChar (c : Nat) : Tok → Bool
  | .ch d => d == c | .sp => c == 32 | .bg _ => c == 123 | .eg _ => c == 125 | .cs n _ => n == [c] | _ => false

/-- `readCharacter(char)` -/
def readCharacter (c : Nat) : List Tok → Option (List Tok) × List Tok
  | [] => (none, [])
  | t :: ts => if eqChar c t then (some [t], ts) else (none, t :: ts)

/-- inner loop of `readGrouping` after the opening character (counts only the two characters, not braces) -/
def untilEnd (b e : Nat) : Nat → List Tok → List Tok × List Tok
  | _, [] => ([], [])
  | level, t :: ts =>
    if spells b t then let r := untilEnd b e (level + 1) ts; (t :: r.1, r.2)
    else if spells e t then
      match level with
      | 0 => ([], ts)
      | l + 1 => let r := untilEnd b e l ts; (t :: r.1, r.2)
    else let r := untilEnd b e level ts; (t :: r.1, r.2)

/-- `readGrouping(chars)` -/
def readGrouping (b e : Nat) : List Tok → Option (List Tok) × List Tok
  | [] => (none, [])
  | t :: ts => if spells b t then let r := untilEnd b e 0 ts; (some r.1, r.2) else (none, t :: ts)

/-- the delimiting step of `readArgumentAndSource` (after `readOptionalSpaces`) -/
def delimit (s : Spec) (ts : List Tok) : Option (List Tok) × List Tok :=
  match s with
  | .tok => readToken ts
  | .chr c => readCharacter c ts
  | .pair b e => readGrouping b e ts

/-- the delimiting skeleton of the argument loop of `Macro.parse`: per argument `readOptionalSpaces`, then the reader
    chosen by the spec; gives the delimited token lists (None when not found) and what follows -/
def delimitAll : List Spec → List Tok → List (Option (List Tok)) × List Tok
  | [], ts => ([], ts)
  | s :: ss, ts =>
    let d := delimit s (readOptionalSpaces ts)
    let r := delimitAll ss d.2
    (d.1 :: r.1, r.2)

def hasGroup (ts : List Tok) : Bool := ts.any (fun t => isBg t || isEg t || (match t with | .cs _ _ | .reg _ _ => true | _ => false))

def charOf : Tok → List Nat
  | .ch c => [c] | .sp => [32] | _ => []

/-- `str.isspace()` of one character: what Python's `str.strip()` removes (also the Unicode blanks NBSP, U+2000–U+200A,
    U+3000, …, which TeX treats as ordinary characters — only the ends of a *string-typed* value lose them) -/
def isPySpace (c : Nat) : Bool :=
  (9 ≤ c && c ≤ 13) || (28 ≤ c && c ≤ 32) || c == 133 || c == 160 || c == 5760 || (8192 ≤ c && c ≤ 8202) ||
  c == 8232 || c == 8233 || c == 8239 || c == 8287 || c == 12288

def stripL : List Nat → List Nat
  | [] => []
  | c :: r => if isPySpace c then stripL r else c :: r
def strip (s : List Nat) : List Nat := (stripL (stripL s).reverse).reverse

/-- text of the tokens with group tokens dropped, stripped: `normalize` on plain text, `textContent.strip()` otherwise -/
def textOf (ts : List Tok) : List Nat := strip (ts.flatMap charOf)

/-- `normalize(tokens)` for an item: a string when it is plain text, otherwise the fragment/element -/
def normalizeItem (ts : List Tok) : Val := if hasGroup ts then .toks ts else .str (textOf ts)

def relax : List Nat := [114, 101, 108, 97, 120]
def isRelax : Tok → Bool | .cs n _ => n = relax | _ => false

/-- the discard loop of `readInternalType`: drop everything up to and including the next `\relax` -/
def dropRelax : List Tok → List Tok
  | [] => []
  | t :: ts => if isRelax t then ts else dropRelax ts

/-- `readInternalType(tokens, method)`: the value, and the stream afterwards (normally `rest`) -/
def internal (ty : Ty) (ts rest : List Tok) : Except Err (Val × List Tok) :=
  let stream := ts ++ .cs relax false :: rest
  match ty with
  | .int => match readInteger true stream with
    | .ok (v, r) => .ok (.int v, dropRelax r) | .error e => .error (.num e)
  | .float => match readDecimal stream with
    | .ok (v, r) => .ok (.rat v, dropRelax r) | .error e => .error (.num e)
  | _ => match readDimen dimenUnitsG stream with
    | .ok (v, r) => .ok (.rat v, dropRelax r) | .error e => .error (.num e)
where dimenUnitsG := PlasVerif.Generated.Units.dimenUnits

/-- split at the delimiter character at brace depth 0 (`castList`; group elements are atoms) -/
def splitTop (d : Nat) : Nat → List Tok → List Tok → List (List Tok)
  | _, cur, [] => [cur.reverse]
  | depth, cur, t :: ts =>
    if isBg t then splitTop d (depth + 1) (t :: cur) ts
    else if isEg t then splitTop d (depth - 1) (t :: cur) ts
    else if depth = 0 && spells d t then cur.reverse :: splitTop d 0 [] ts
    else splitTop d depth (t :: cur) ts

/-- cast of one list item / dictionary value with the subtype (`None` or `int`) -/
def castItem (sub : Ty) (ts : List Tok) : Except Err Val :=
  match sub with
  | .int | .float | .dimen => (internal sub ts []).map (·.1)
  | .str => .ok (.str (textOf ts))
  | _ => .ok (normalizeItem ts)

def castList (d : Nat) (sub : Ty) (ts : List Tok) : Except Err Val :=
  ((splitTop d 0 [] ts).mapM (castItem sub)).map .list

def setKey (k : List Nat) (v : Val) : List (List Nat × Val) → List (List Nat × Val)
  | [] => [(k, v)]
  | (k', v') :: r => if k' = k then (k, v) :: r else (k', v') :: setKey k v r

structure DState where
  dict : List (List Nat × Val)
  key : List Tok
  value : Option (List Tok)

def finish (sub : Ty) (st : DState) : Except Err DState :=
  match st.value with
  | none => .ok ⟨setKey (textOf st.key) .tt st.dict, [], none⟩
  | some v => match castItem sub v with
    | .ok x => .ok ⟨setKey (textOf st.key) x st.dict, [], none⟩
    | .error e => .error e

/-- loop of `castDictionary` over the top-level nodes; `fuel` = number of tokens -/
def dictLoop (d : Nat) (sub : Ty) : Nat → DState → List Tok → Except Err DState
  | 0, st, _ => .ok st
  | _, st, [] => if st.key.isEmpty then .ok st else finish sub st     -- after the loop: `if currentkey:`
  | fuel + 1, st, t :: ts =>
    if isBg t then
      -- a group element: appended to the value (AttributeError when there is none), then `continue`
      match st.value with
      | none => .error .attr
      | some v =>
        let g := untilClose 0 ts
        let closed := ts.length - g.2.length == g.1.length + 1      -- a closing brace was consumed
        let grp := t :: g.1 ++ (if closed then [Tok.eg false] else [])
        dictLoop d sub fuel { st with value := some (v ++ grp) } g.2
    else if isEg t || (match t with | .cs _ _ | .reg _ _ => true | _ => false) then
      -- an element node (expanded macro, or a stray `}` = egroup element): appended to the value (AttributeError when there is none), then `continue`
      match st.value with
      | none => .error .attr
      | some v => dictLoop d sub fuel { st with value := some (v ++ [t]) } ts
    else
      let st1 : DState :=
        if spells 61 t then { st with value := some [] }
        else if spells d t then st
        else match st.value with
          | none => { st with key := st.key ++ [t] }
          | some v => { st with value := some (v ++ [t]) }
      if spells d t || ts.isEmpty then
        match finish sub st1 with
        | .ok st2 => dictLoop d sub fuel st2 ts
        | .error e => .error e
      else dictLoop d sub fuel st1 ts

def castDict (d : Nat) (sub : Ty) (ts : List Tok) : Except Err Val :=
  (dictLoop d sub (ts.length + 1) ⟨[], [], none⟩ ts).map (fun st => .dict st.dict)

structure Arg where
  spec : Spec
  ty : Ty
  delim : Nat := 44
  sub : Ty := .none
  deriving Repr

/-- `cast(toks, type, subtype, delim)`; returns the value and the stream (only `readInternalType` can touch it) -/
def cast (a : Arg) (ts rest : List Tok) : Except Err (Val × List Tok) :=
  match a.ty with
  | .none | .nox | .token | .tNumber | .tDimen | .tGlue => .ok (.toks ts, rest)
  | .str => .ok (.str (textOf ts), rest)
  | .int | .float | .dimen => internal a.ty ts rest
  | .list => (castList a.delim a.sub ts).map (·, rest)
  | .dict => (castDict a.delim a.sub ts).map (·, rest)

/-- `readArgumentAndSource`: value, consumed source tokens (`none` when the source is regenerated from the value), rest -/
def readArgument (a : Arg) (ts0 : List Tok) : Except Err (Val × Option (List Tok) × List Tok) :=
  let ts := readOptionalSpaces ts0
  match a.ty with
  | .tNumber => match readInteger true ts with
    | .ok (v, r) => .ok (.int v, none, r) | .error e => .error (.num e)
  | .tDimen => match readDimen PlasVerif.Generated.Units.dimenUnits ts with
    | .ok (v, r) => .ok (.rat v, none, r) | .error e => .error (.num e)
  | .tGlue => match readGlue ts with
    | .ok (v, r) => .ok (.glue v, none, r) | .error e => .error (.num e)
  | _ =>
    if a.ty = .token && !ts.isEmpty then
      match ts with
      | t :: r => .ok (.toks [t], some [t], r)
      | [] => .ok (.absent, some [], [])
    else
      match delimit a.spec ts with
      | (none, r) => .ok (.absent, some [], r)
      | (some toks, r) =>
        let consumed := ts.take (ts.length - r.length)
        match cast a toks r with
        | .ok (v, r') => .ok (v, some consumed, r')
        | .error e => .error e

/-- the argument loop of `Macro.parse`: values in order, the pieces of `argSource`, and what follows -/
def parse : List Arg → List Tok → Except Err (List Val × List (Option (List Tok)) × List Tok)
  | [], ts => .ok ([], [], ts)
  | a :: as, ts =>
    match readArgument a ts with
    | .error e => .error e
    | .ok (v, s, r) =>
      match parse as r with
      | .error e => .error e
      | .ok (vs, ss, r') => .ok (v :: vs, s :: ss, r')

end PlasVerif.Model.Args
