import PlasVerif.Generated.GlobalState
/-!
# Model of plasTeX's interpreter-wide (class-level) parsing state  (property C17)

`G` is the state that lives on *classes* and therefore survives from one document to the
next inside one Python interpreter:

* `ParameterCommand.enabled / _enablelevel`      (plasTeX/__init__.py, `enable/disable/invoke`)
* `MathShift.inEnv`                               (Base/TeX/Primitives.py, also `BoxCommand.parse`)
* `List.depth`                                    (Base/LaTeX/Lists.py)
* `BeginMath.disableMath / EndMath.disableMath`   (Base/LaTeX/Math.py, toggled by Packages/ifthen.py)
* register values `type(self).value`             (ParameterCommand.invoke)
* `theindex/printindex/bibliography .level/.counter` (patched by Packages/article.py ProcessOptions)
* `ColumnType.columnTypes`                        (Base/LaTeX/Arrays.py `ColumnType.new`)

`D` is what lives on the `TeXDocument`/`Context`/`TeX` objects and is created afresh for every
document.  A `Variant` says, per leak, where the code keeps the datum (class = `G`, document = `D`)
and whether the `type='any'` path of `readArgumentAndSource` re-enables parameters:

* `pinned`   — the tree as pinned (all leaks present: D5, D6a, D6b, D6c, D6d, column types),
* `current`  — the tree after the `fix:` commits (D5, D6a, D6b, D6d repaired),
* `repaired` — every datum per document.

The step functions follow the Python statement by statement (same order of reads and writes,
the same `inEnv[-1]` tests, the Python negative index in `List.counters[List.depth-1]`).
Generated identifiers (`idgen`) are drawn lazily, in document order, when the tree is serialised:
`label` numbers the `node` outputs afterwards, exactly as `toXML()` does.
-/
namespace PlasVerif.Model.GlobalState
open PlasVerif.Generated.GlobalState

inductive MK | math | display
  deriving DecidableEq, Repr

inductive ArgTy | number | dimen | glue | tok | args | any | optnone | normal | numreg | dimenreg | gluereg
  deriving DecidableEq, Repr

inductive Cls | article | book | report
  deriving DecidableEq, Repr

/-- events of a document, in input order -/
inductive Ev
  | dollar                       -- a `$` character token
  | boxOpen | boxClose           -- `\hbox{` … `}`  (BoxCommand.parse)
  | listBegin | listEnd | item   -- `\begin{itemize}` `\end{itemize}` `\item`
  | assign (r : Nat) (v : Int)   -- `\parindent=7pt\relax`, `\tolerance=7\relax`, `\parskip=7pt\relax`, `\thinmuskip=7mu\relax`
  | copy (r q : Nat)             -- `\thinmuskip=\medmuskip\relax`: the operand is another register of the family
  | use (r : Nat)                -- `\hskip\parindent\relax`
  | arg (ty : ArgTy)             -- a command whose argument has this type
  | docclass (c : Cls) | printindex
  | newcol (n : Nat) | usecol (n : Nat)   -- a package calling `ColumnType.new`, a tabular using the type
  | ifthen                       -- `\ifthenelse{..}{..}{..}`
  | paren                        -- `\(x\)`
  | node                         -- an element that receives a generated id when serialised
  deriving DecidableEq, Repr

inductive Out
  | mopen (k : MK) | mclose (k : MK) | bo | bc | lb | le | item (i : Nat)
  | asg (r : Nat) (v : Int) | asg0 (r : Nat) | text (v : Int) | eqsign | use (r : Nat) (v : Int)
  | arg (ty : ArgTy) | dc (c : Cls) | idx (sec : Bool) | newcol (n : Nat) | col (n : Nat) (known : Bool)
  | paren (b e : Bool) | node (id : Nat) | unk
  deriving DecidableEq, Repr

structure Variant where
  fixAny : Bool     -- D5: `ParameterCommand.enable()` on the `type='any'` path
  trkDoc : Bool     -- D6a/D6b: math-shift stack and list depth kept on the document
  regsDoc : Bool    -- D6c: register values per document
  classDoc : Bool   -- D6d: index/bibliography level per document
  colsDoc : Bool    -- column types per document
  deriving DecidableEq, Repr

def pinned : Variant := ⟨false, false, false, false, false⟩
def current : Variant := ⟨true, true, false, true, false⟩
def repaired : Variant := ⟨true, true, true, true, true⟩

/-- frames of the document's context stack that matter for what `\\item` means -/
inductive Fr | list | math (k : MK) | arg
  deriving DecidableEq, Repr

/-- class-level state -/
structure G where
  enabled : Bool
  level : Int
  disBegin : Bool
  disEnd : Bool
  inEnv : List (Option MK)    -- head = `inEnv[-1]`
  depth : Int
  regs : List Int
  idxSec : Bool
  cols : List Nat
  deriving DecidableEq, Repr

/-- per-document state -/
structure D where
  skip : Bool                 -- the next `$` was consumed by the look-ahead of the previous one
  boxes : Nat                 -- `\hbox{` arguments being read
  ctx : List Fr               -- the document's context stack above the global frame (`\item` is local to list frames)
  loaded : List Cls           -- `context.packages`
  inEnv : List (Option MK)
  depth : Int
  regs : List Int
  idxSec : Bool
  cols : List Nat
  deriving DecidableEq, Repr

def init : G :=
  { enabled := initEnabled, level := initLevel, disBegin := initDisBegin, disEnd := initDisEnd,
    inEnv := List.replicate initInEnvLen none, depth := initDepth, regs := regDefaults,
    idxSec := idxSectionDefault, cols := defaultCols }

def newDoc : D :=
  { skip := false, boxes := 0, ctx := [], loaded := [], inEnv := List.replicate initInEnvLen none, depth := initDepth,
    regs := regDefaults, idxSec := idxSectionDefault, cols := defaultCols }

/-- the document's own state at creation; the classes the document class may replace by per-document ones
    (`theindex`, `printindex`, `bibliography`) start from what the shared classes say -/
def newDocOf (g : G) : D := { newDoc with idxSec := g.idxSec }

abbrev S := G × D

/-! accessors: where the variant keeps each datum -/
def getEnv (v : Variant) (s : S) : List (Option MK) := if v.trkDoc then s.2.inEnv else s.1.inEnv
def setEnv (v : Variant) (s : S) (x : List (Option MK)) : S :=
  if v.trkDoc then (s.1, { s.2 with inEnv := x }) else ({ s.1 with inEnv := x }, s.2)
def getDepth (v : Variant) (s : S) : Int := if v.trkDoc then s.2.depth else s.1.depth
def setDepth (v : Variant) (s : S) (x : Int) : S :=
  if v.trkDoc then (s.1, { s.2 with depth := x }) else ({ s.1 with depth := x }, s.2)
def getRegs (v : Variant) (s : S) : List Int := if v.regsDoc then s.2.regs else s.1.regs
def setRegs (v : Variant) (s : S) (x : List Int) : S :=
  if v.regsDoc then (s.1, { s.2 with regs := x }) else ({ s.1 with regs := x }, s.2)
def getIdx (v : Variant) (s : S) : Bool := if v.classDoc then s.2.idxSec else s.1.idxSec
def setIdx (v : Variant) (s : S) (x : Bool) : S :=
  if v.classDoc then (s.1, { s.2 with idxSec := x }) else ({ s.1 with idxSec := x }, s.2)
def getCols (v : Variant) (s : S) : List Nat := if v.colsDoc then s.2.cols else s.1.cols
def setCols (v : Variant) (s : S) (x : List Nat) : S :=
  if v.colsDoc then (s.1, { s.2 with cols := x }) else ({ s.1 with cols := x }, s.2)

/-- `ParameterCommand.disable()` -/
def disable (g : G) : G := { g with level := g.level - 1, enabled := decide (g.level - 1 ≥ 0) }
/-- `ParameterCommand.enable()` -/
def enable (g : G) : G := { g with level := g.level + 1, enabled := decide (g.level + 1 ≥ 0) }
/-- a call of `readArgumentAndSource` on a path that re-enables before returning -/
def balancedArg (g : G) : G := enable (disable g)
/-- the `type='any'` path -/
def anyArg (v : Variant) (g : G) : G := if v.fixAny then enable (disable g) else disable g

def onG (f : G → G) (s : S) : S := (f s.1, s.2)

/-- `Context.push(obj)` -/
def pushCtx (f : Fr) (s : S) : S := (s.1, { s.2 with ctx := f :: s.2.ctx })
/-- `Context.pop(obj)`: frames are discarded until the one that matches `obj` has been removed; when none
    matches, everything above the global frame goes -/
def popUntil (m : Fr → Bool) : List Fr → List Fr
  | [] => []
  | f :: fs => if m f then fs else popUntil m fs
def popCtx (m : Fr → Bool) (s : S) : S := (s.1, { s.2 with ctx := popUntil m s.2.ctx })

/-- `MathShift.invoke`; `nxt` = the next token is another `$` -/
def stepDollar (v : Variant) (nxt : Bool) (s : S) : S × List Out :=
  if s.2.skip then ((s.1, { s.2 with skip := false }), [])
  else
    let env := getEnv v s
    let topMath : Bool := env.head? == some (some MK.math)
    -- the `for t in tex.itertokens()` look-ahead
    let cur : MK := if nxt then (if topMath then MK.math else MK.display) else MK.math
    let skip : Bool := nxt && !topMath
    let s1 : S := (s.1, { s.2 with skip := skip })
    -- "See if this is the end of the environment"
    if env.head? == some (some cur) then (popCtx (· == Fr.math cur) (setEnv v s1 env.tail), [Out.mclose cur])
    else (pushCtx (Fr.math cur) (setEnv v s1 (some cur :: env)), [Out.mopen cur])

/-- `List.counters[List.depth-1]` with Python's negative indices; `IndexError` keeps the default `enumi` -/
def counterIndex (depth : Int) : Nat :=
  let i := depth - 1
  if 0 ≤ i ∧ i < nCounters then i.toNat
  else if i < 0 ∧ -(nCounters : Int) ≤ i then (i + nCounters).toNat
  else 0

def step (v : Variant) (en : Ev × Bool) (s : S) : S × List Out :=
  match en.1 with
  | .dollar => stepDollar v en.2 s
  | .boxOpen =>
    -- MathShift.inEnv.append(None); Command.parse(self, tex): the `self` argument is entered with
    -- `ParameterCommand.disable()`; its content is expanded before the matching `enable()`
    let s1 := setEnv v (onG disable s) (none :: getEnv v s)
    (pushCtx Fr.arg (s1.1, { s1.2 with boxes := s1.2.boxes + 1 }), [Out.bo])
  | .boxClose =>
    if s.2.boxes = 0 then (popCtx (fun _ => false) s, [])   -- a stray `}`: `Context.pop()` looks for a brace-group frame
    else
      -- end of the argument: ParameterCommand.enable(); then MathShift.inEnv.pop()
      let s1 := setEnv v (onG enable s) (getEnv v s).tail
      (popCtx (· == Fr.arg) (s1.1, { s1.2 with boxes := s1.2.boxes - 1 }), [Out.bc])
  | .listBegin =>
    let s1 := setDepth v s (getDepth v s + 1)
    (pushCtx Fr.list s1, [Out.lb])
  | .listEnd =>
    let s1 := setDepth v s (getDepth v s - 1)
    (popCtx (· == Fr.list) s1, [Out.le])
  | .item =>
    if !s.2.ctx.contains Fr.list then (s, [Out.unk])     -- `\item` is local to list environments: unrecognised outside
    else (onG balancedArg s, [Out.item (counterIndex (getDepth v s))])
  | .assign r x =>
    if s.1.enabled then
      -- enabled = False; value = self.parse(tex)['value'] (two balanced arguments: `=` and the value); enabled = True
      let g1 : G := { s.1 with enabled := false }
      let g2 := balancedArg (balancedArg g1)
      let s2 := setRegs v (g2, s.2) ((getRegs v (g2, s.2)).set r x)
      (({ s2.1 with enabled := true }, s2.2), [Out.asg r x])
    else (s, [Out.asg0 r, Out.text x])
  | .copy r q =>
    if s.1.enabled then
      -- as above; the value argument is read by readNumber/readDimen/readGlue/readMuGlue, which take the
      -- register token as an "internal" quantity and re-enable before returning it
      let g1 : G := { s.1 with enabled := false }
      let g2 := balancedArg (balancedArg g1)
      let x := (getRegs v (g2, s.2)).getD q 0
      let s2 := setRegs v (g2, s.2) ((getRegs v (g2, s.2)).set r x)
      (({ s2.1 with enabled := true }, s2.2), [Out.asg r x])
    else (s, [Out.asg0 r, Out.eqsign, Out.asg0 q])     -- neither register command invokes
  | .use r => (onG balancedArg s, [Out.use r ((getRegs v s).getD r 0)])
  | .arg ty =>
    if ty = ArgTy.any then (onG (fun g => anyArg v (balancedArg g)) s, [Out.arg ty])
    else (onG balancedArg s, [Out.arg ty])
  | .docclass c =>
    let s0 := onG balancedArg s
    if c ∈ s0.2.loaded then (s0, [Out.dc c])      -- `if module in self.packages: return`
    else
      let s1 : S := (s0.1, { s0.2 with loaded := c :: s0.2.loaded })
      ((if c = Cls.article then setIdx v s1 true else s1), [Out.dc c])
  | .printindex => (s, [Out.idx (getIdx v s)])
  | .newcol n => (setCols v (onG balancedArg s) (n :: getCols v s), [Out.newcol n])
  | .usecol n => (onG balancedArg s, [Out.col n (decide (n ∈ getCols v s))])
  | .ifthen =>
    -- BeginMath.disableMath = EndMath.disableMath = True; self.parse(tex); … = False
    let g1 : G := { s.1 with disBegin := true, disEnd := true }
    let g2 := balancedArg (balancedArg (balancedArg g1))
    (({ g2 with disBegin := false, disEnd := false }, s.2), [])
  | .paren =>
    let s1 := if s.1.disBegin then s else pushCtx (Fr.math MK.math) s
    let s2 := if s.1.disEnd then s1 else popCtx (· == Fr.math MK.math) s1
    (s2, [Out.paren (!s.1.disBegin) (!s.1.disEnd)])
  | .node => (onG balancedArg s, [Out.node 0])

/-- pair every event with "the next token is a `$`" -/
def annot : List Ev → List (Ev × Bool)
  | [] => []
  | e :: es => (e, match es with | .dollar :: _ => true | _ => false) :: annot es

def run (v : Variant) : S → List (Ev × Bool) → S × List Out
  | s, [] => (s, [])
  | s, e :: es =>
    let r := step v e s
    let r' := run v r.1 es
    (r'.1, r.2 ++ r'.2)

/-- end of input inside `\hbox{` arguments: each pending `BoxCommand.parse` still pops -/
def finish (v : Variant) : Nat → S → S × List Out
  | 0, s => (s, [])
  | n + 1, s =>
    let s1 := popCtx (· == Fr.arg) (setEnv v (onG enable s) (getEnv v s).tail)
    let r := finish v n s1
    (r.1, Out.bc :: r.2)

/-- one document processed to the end of its input, starting from class-level state `g` -/
def runDoc (v : Variant) (g : G) (doc : List Ev) : G × List Out :=
  let r := run v (g, newDocOf g) (annot doc)
  let f := finish v r.1.2.boxes r.1
  (f.1.1, r.2 ++ f.2)

/-! generated identifiers: drawn in document order when the tree is serialised -/
def label : Nat → List Out → List Out
  | _, [] => []
  | k, Out.node _ :: os => Out.node k :: label (k + 1) os
  | k, o :: os => o :: label k os

def nodes : List Out → Nat
  | [] => 0
  | Out.node _ :: os => nodes os + 1
  | _ :: os => nodes os

/-- interpreter = class-level state + position of `idgen` -/
abbrev Interp := G × Nat

def process (v : Variant) (st : Interp) (doc : List Ev) : Interp × List Out :=
  let r := runDoc v st.1 doc
  ((r.1, st.2 + nodes r.2), label st.2 r.2)

def processAll (v : Variant) : Interp → List (List Ev) → Interp
  | st, [] => st
  | st, d :: ds => processAll v (process v st d).1 ds

end PlasVerif.Model.GlobalState
