/-!
# Model of `TeX.kpsewhich`  (property C17: the `TEXINPUTS` juggling and what a file lookup may depend on)

`kpsewhich` (plasTeX/TeX.py) locates a file for `\input`, `\include`, packages, `.aux`/`.bbl` files and images.
It temporarily puts the directory of the file being read in front of the environment variable `TEXINPUTS` —
interpreter-wide state — and must restore it on every exit.  Where the external `kpsewhich` program is missing (as
here) the fallback searches the directories of that list in order.

Directories and names are numbers; directory `0` is the current working directory (an empty entry of the list, or
`'.'`).  `ti` is `os.environ.get('TEXINPUTS', '')` split at the path separator (`[]` = unset or empty).
-/
namespace PlasVerif.Model.FileLookup

/-- the files that exist: `(directory, name)` -/
abbrev FS := List (Nat × Nat)

structure Req where
  name : Nat
  abs : Bool             -- `os.path.isabs(name)`
  src : Option Nat       -- directory of the file being read (`os.path.dirname(self.filename)`); none: no current file
  deriving DecidableEq, Repr

inductive Res | found (dir : Nat) | asis | notFound
  deriving DecidableEq, Repr

/-- the value `TEXINPUTS` has while the search runs: `"%s%s%s%s" % (srcDir, pathsep, TEXINPUTS, pathsep)`, or
    `"%s%s" % (srcDir, pathsep)` when it was unset/empty; untouched when there is no current file -/
def during (ti : List Nat) : Option Nat → List Nat
  | none => if ti.isEmpty then [0] else ti          -- `os.environ.get("TEXINPUTS", '.')`
  | some s => if ti.isEmpty then [s, 0] else s :: (ti ++ [0])

/-- the fallback search: the first directory of the list in which the name exists -/
def search (fs : FS) (name : Nat) : List Nat → Res
  | [] => .notFound
  | d :: ds => if fs.contains (d, name) then .found d else search fs name ds

/-- `kpsewhich`: result and the value of `TEXINPUTS` afterwards (the `ExitStack` callbacks run on every exit,
    also when `FileNotFoundError` is raised) -/
def kpsewhich (fs : FS) (ti : List Nat) (r : Req) : Res × List Nat :=
  if r.abs then (.asis, ti)
  else
    let _tiDuring := during ti r.src        -- os.environ["TEXINPUTS"] = …
    let res := search fs r.name (during ti r.src)
    (res, ti)                               -- restore_texinputs()

/-- what the property prescribes: the file found is a function of the request, the search list and the files -/
def find (fs : FS) (ti : List Nat) (r : Req) : Res := (kpsewhich fs ti r).1

/-! a memo table in front of the lookup (class-level, so shared by all documents); only successes are remembered.
`key` says what the table is indexed by. -/

def memoLookup {κ} [BEq κ] (key : Req → List Nat → κ) (fs : FS) (cache : List (κ × Res)) (ti : List Nat) (r : Req) :
    List (κ × Res) × Res :=
  match cache.lookup (key r ti) with
  | some res => (cache, res)
  | none =>
    match find fs ti r with
    | .notFound => (cache, .notFound)
    | res => ((key r ti, res) :: cache, res)

def memoRun {κ} [BEq κ] (key : Req → List Nat → κ) (fs : FS) :
    List (κ × Res) → List (List Nat × Req) → List Res
  | _, [] => []
  | cache, (ti, r) :: rest =>
    let x := memoLookup key fs cache ti r
    x.2 :: memoRun key fs x.1 rest

end PlasVerif.Model.FileLookup
