/-!
# Model of `IndexUtils.groups` (plasTeX/Base/LaTeX/Index.py) as far as link targets are concerned:
the groups of the index page, their titles and their ids.  The index templates print one navigation link
`<a href="#id">` and one heading `<h2 id="id">` per group (HTML5 `Index.jinja2s`; XHTML `IDXGROUP.id`).

Input: for every top-level entry, in the order of the sorted index, `unidecode(item.sortkey[0]).upper()`
(`none` = the sort key is empty: `IndexError`).  Sorting and transliteration are not modelled here
(sorting: property C18; `unidecode`: library).
-/
namespace PlasVerif.Model.UrlsIndex

/-- `string.ascii_letters` (`encoding.stringletters()`) -/
def letters : List Char := "abcdefghijklmnopqrstuvwxyzABCDEFGHIJKLMNOPQRSTUVWXYZ".toList

/-- Python `a in b` on strings: `a` occurs in `b` as a substring (the empty string always does) -/
def isPrefix : List Char → List Char → Bool
  | [], _ => true
  | _ :: _, [] => false
  | a :: as, b :: bs => a == b && isPrefix as bs

def isInfix (a : List Char) : List Char → Bool
  | [] => a.isEmpty
  | b :: bs => isPrefix a (b :: bs) || isInfix a bs

/-- the `try: … except IndexError` block: (title, id) of the group an entry belongs to -/
def classify : Option (List Char) → List Char × List Char
  | none => ("Symbols".toList, "Symbols".toList)
  | some t =>
    if isInfix t letters then (t, t)
    else if t = ['_'] then ("_ (Underscore)".toList, ['_'])
    else ("Symbols".toList, "Symbols".toList)

structure Group where
  title : List Char
  id : List Char
  items : List Nat          -- positions of the entries in the sorted index
  deriving DecidableEq, Repr

/-- `bytitle[title].append(item)` when the title is known -/
def addTo (title : List Char) (x : Nat) : List Group → Option (List Group)
  | [] => none
  | g :: gs =>
    if g.title = title then some ({ g with items := g.items ++ [x] } :: gs)
    else (addTo title x gs).map (g :: ·)

/-- one iteration of `for item in self` (the `current` variable only short-cuts the dictionary look-up):
    a group is created the first time its title is met, whatever lies in between -/
def step (bs : List Group) (c : Option (List Char)) (x : Nat) : List Group :=
  match addTo (classify c).1 x bs with
  | some bs' => bs'
  | none => bs ++ [{ title := (classify c).1, id := (classify c).2, items := [x] }]

def groupsGo : List (Option (List Char)) → Nat → List Group → List Group
  | [], _, bs => bs
  | c :: cs, n, bs => groupsGo cs (n + 1) (step bs c n)

def groups (cs : List (Option (List Char))) : List Group := groupsGo cs 0 []

/-! the code before the repair (a new group whenever the title differs from the *previous* entry's) -/

def stepAsIs (st : List Char × List Group) (c : Option (List Char)) (x : Nat) : List Char × List Group :=
  let t := (classify c).1
  if st.1 ≠ t then (t, st.2 ++ [{ title := t, id := (classify c).2, items := [x] }])
  else (t, match st.2.reverse with
           | [] => []
           | g :: r => (({ g with items := g.items ++ [x] }) :: r).reverse)

def groupsGoAsIs : List (Option (List Char)) → Nat → List Char × List Group → List Group
  | [], _, st => st.2
  | c :: cs, n, st => groupsGoAsIs cs (n + 1) (stepAsIs st c n)

def groupsAsIs (cs : List (Option (List Char))) : List Group := groupsGoAsIs cs 0 ([], [])

end PlasVerif.Model.UrlsIndex
