/-!
Model of the macro *signature compiler* `Macro.arguments` (plasTeX/__init__.py L585-674) and of
`class Argument` (L66).  Characters are `Nat` code points, strings are `List Nat`.

The model is restricted to ASCII input (`\w` = `[A-Za-z0-9_]`, `\s` = 9-13, 28-31, 32 as CPython's
`str` patterns / `str.strip` treat them below 128); generators only produce ASCII.

`lexArgs` replaces
  `[x.strip() for x in re.split(r'(\w+(?::\w+(?:\(\S\))?(?::\w+)?)?|\W|\s+)', args) if x is not None and x.strip()]`
by a hand-written lexer (validated by the correspondence stream `sig`, not proved against `re`):
 * every character is consumed by some match (`\w…` or `\W`; the `\s+` alternative is unreachable because `\W`
   already matches one whitespace character), so all in-between pieces are `''` and are dropped;
 * a match starting at a word character is `\w+` (greedy), then optionally `:\w+`, then (only inside that
   option) optionally `(c)` with `c` non-space, then optionally `:\w+`; each optional part is taken greedily when
   it matches, nothing needs backtracking because the remainder can always match empty;
 * a `\W` match is one character; `.strip()` makes it `''` (dropped) iff it is whitespace; word items contain
   no whitespace, so `.strip()` is the identity on them.
`compileItems` mirrors the `for item in args:` loop as written, including the substring tests
`item in '*+-'`, the dead branch `'type' in argdict`, and `item.split(':')` (which cuts a `(:)` delimiter).
-/
namespace PlasVerif.Model.Signature

/-! ### character classes (ASCII) -/
def isLetter (c : Nat) : Bool := (65 ≤ c && c ≤ 90) || (97 ≤ c && c ≤ 122)
def isDigit (c : Nat) : Bool := 48 ≤ c && c ≤ 57
/-- `\w` on ASCII -/
def isWord (c : Nat) : Bool := isLetter c || isDigit c || c == 95
/-- `\s` / `str.isspace` on ASCII -/
def isSpace (c : Nat) : Bool := c == 32 || (9 ≤ c && c ≤ 13) || (28 ≤ c && c ≤ 31)

/-! ### the lexer (regex split + strip + filter) -/

/-- `\w+` greedy: longest word prefix and the rest -/
def spanWord : List Nat → List Nat × List Nat
  | [] => ([], [])
  | c :: cs => if isWord c then ((c :: (spanWord cs).1), (spanWord cs).2) else ([], c :: cs)

/-- optional `(?:\(\S\))?` -/
def optDelim : List Nat → List Nat × List Nat
  | 40 :: c :: 41 :: r => if isSpace c then ([], 40 :: c :: 41 :: r) else ([40, c, 41], r)
  | r => ([], r)

/-- optional `(?::\w+)?` -/
def optColonWord : List Nat → List Nat × List Nat
  | 58 :: r => if (spanWord r).1.isEmpty then ([], 58 :: r) else (58 :: (spanWord r).1, (spanWord r).2)
  | r => ([], r)

/-- one match of `\w+(?::\w+(?:\(\S\))?(?::\w+)?)?` at a position holding a word character -/
def matchWordItem (s : List Nat) : List Nat × List Nat :=
  let w1 := (spanWord s).1
  let r1 := (spanWord s).2
  match r1 with
  | 58 :: r2 =>
    let w2 := (spanWord r2).1
    let r3 := (spanWord r2).2
    if w2.isEmpty then (w1, r1)
    else
      let d := optDelim r3
      let t := optColonWord d.2
      (w1 ++ 58 :: w2 ++ d.1 ++ t.1, t.2)
  | _ => (w1, r1)

/-- the item list; fuel = number of characters (every round consumes at least one) -/
def lexFuel : Nat → List Nat → List (List Nat)
  | 0, _ => []
  | _, [] => []
  | f + 1, c :: cs =>
    if isWord c then (matchWordItem (c :: cs)).1 :: lexFuel f (matchWordItem (c :: cs)).2
    else if isSpace c then lexFuel f cs          -- `\W` match, stripped to '' and dropped
    else [c] :: lexFuel f cs                      -- `\W` match

def lexArgs (s : List Nat) : List (List Nat) := lexFuel s.length s

/-! ### Argument objects -/

/-- the `options` dict of an `Argument` / the loop variable `argdict`; a key is present iff its field is
`some …`/`true` (`delim` is present iff `hasDelimKey`, its value may be `None`; `charsubs` value is `[]`) -/
structure Options where
  spec : Option (List Nat) := none
  type : Option (List Nat) := none
  delim : Option Nat := none
  hasDelimKey : Bool := false
  subtype : Option (List Nat) := none
  expanded : Option Bool := none
  charsubs : Bool := false
deriving DecidableEq, Repr

/-- `not argdict` -/
def Options.isEmpty (o : Options) : Bool :=
  o.spec.isNone && o.type.isNone && !o.hasDelimKey && o.subtype.isNone && o.expanded.isNone && !o.charsubs

structure Argument where
  name : List Nat
  index : Nat
  opts : Options
deriving DecidableEq, Repr

inductive Err | valueError | keyError | attributeError | indexError
deriving DecidableEq, Repr

/-- Python `needle in hay` on strings -/
def isInfixOf : List Nat → List Nat → Bool
  | n, [] => n.isEmpty
  | n, h :: t => n.isPrefixOf (h :: t) || isInfixOf n t

/-- Python `s.split(sep)` for a one character separator -/
def splitOn (sep : Nat) : List Nat → List (List Nat)
  | [] => [[]]
  | c :: cs =>
    if c = sep then [] :: splitOn sep cs
    else match splitOn sep cs with
      | [] => [[c]]
      | h :: t => (c :: h) :: t

def skipNonWord : List Nat → List Nat
  | [] => []
  | c :: cs => if isWord c then c :: cs else skipNonWord cs

/-- `re.search(r'(\w+)(?:\((\W)\))?', part)`: `none` = no match (then `.groups()` raises AttributeError) -/
def typeDelim (part : List Nat) : Option (List Nat × Option Nat) :=
  match skipNonWord part with
  | [] => none
  | p =>
    match (spanWord p).2 with
    | 40 :: c :: 41 :: _ => if isWord c then some ((spanWord p).1, none) else some ((spanWord p).1, some c)
    | _ => some ((spanWord p).1, none)

def modChars : List Nat := [42, 43, 45]        -- '*+-'
def eqChars : List Nat := [61]                 -- '='
def openChars : List Nat := [91, 40, 60, 123]  -- '[(<{'
def closeChars : List Nat := [93, 41, 62, 125] -- '])>}'
def modifierName : List Nat := [42, 109, 111, 100, 105, 102, 105, 101, 114, 42]  -- '*modifier*'
def equalsName : List Nat := [42, 101, 113, 117, 97, 108, 115, 42]              -- '*equals*'
def tyCs : List Nat := [99, 115]
def tyNox : List Nat := [110, 111, 120]
def tyUrl : List Nat := [117, 114, 108]

/-- `groupings[item]` -/
def grouping (item : List Nat) : Option (List Nat) :=
  if item = [91] then some [91, 93] else if item = [40] then some [40, 41]
  else if item = [60] then some [60, 62] else if item = [123] then some [123, 125] else none

/-- loop state -/
structure St where
  macroargs : List Argument := []
  argdict : Options := {}
  index : Nat := 0
deriving DecidableEq, Repr

/-- `argdict.get('type') in ['cs', 'nox']` -/
def unexpandedType (t : Option (List Nat)) : Bool :=
  match t with
  | some t => t = tyCs || t = tyNox
  | none => false

/-- the part of the name branch that fills `argdict` from `parts` (after `item = parts.pop(0)`) -/
def fillType (ad : Options) (parts : List (List Nat)) : Except Err Options :=
  match parts with
  | [] => .ok ad
  | p :: ps =>
    if ad.type.isSome then .ok { ad with subtype := some p }      -- `'type' in argdict` (dead in practice)
    else match typeDelim p with
      | none => .error .attributeError
      | some (t, d) =>
        let ad' := { ad with type := some t, delim := d, hasDelimKey := true }
        match ps with
        | [] => .ok ad'
        | q :: _ => .ok { ad' with subtype := some q }

def nameBranch (st : St) (item : List Nat) : Except Err St :=
  match splitOn 58 item with
  | [] => .error .indexError          -- `split` never returns []
  | name :: parts =>
    match fillType st.argdict parts with
    | .error e => .error e
    | .ok ad =>
      let ad := { ad with expanded := some (!unexpandedType ad.type) }
      let ad := if ad.type = some tyUrl then { ad with charsubs := true } else ad
      .ok { macroargs := st.macroargs ++ [⟨name, st.index, ad⟩], argdict := {}, index := st.index + 1 }

/-- one iteration of `for item in args:` -/
def step (st : St) (item : List Nat) : Except Err St :=
  if isInfixOf item modChars then
    if !st.argdict.isEmpty then .error .valueError
    else .ok { macroargs := st.macroargs ++ [⟨modifierName, st.index, { spec := some item }⟩],
               argdict := {}, index := st.index + 1 }
  else if isInfixOf item eqChars then
    .ok { macroargs := st.macroargs ++ [⟨equalsName, st.index, { spec := some item }⟩],
          argdict := {}, index := st.index + 1 }
  else if isInfixOf item openChars then
    match grouping item with
    | none => .error .keyError
    | some g => .ok { st with argdict := { spec := some g } }
  else if isInfixOf item closeChars then .ok st
  else match item with
    | [] => .error .indexError        -- unreachable: '' is a substring of '*+-'
    | c :: _ => if isLetter c then nameBranch st item else .error .valueError

def loop (st : St) : List (List Nat) → Except Err St
  | [] => .ok st
  | item :: rest =>
    match step st item with
    | .error e => .error e
    | .ok st' => loop st' rest

def compileItems (items : List (List Nat)) : Except Err (List Argument) :=
  match loop {} items with
  | .error e => .error e
  | .ok st => .ok st.macroargs

/-- `Macro.arguments` for the class attribute `args = s` (`not args` ⇒ `[]`; also the result of the loop on no items) -/
def compileArgs (s : List Nat) : Except Err (List Argument) :=
  if s.isEmpty then .ok [] else compileItems (lexArgs s)

/-! ### canonical printer
`ok` or `ok a1 a2 …`, each argument `name|index|k=v,k=v,…` with keys in alphabetical order;
strings `s` + code points joined by `.`, `None` = `N`, booleans `T`/`F`, the empty list `L`. -/

def showStr (s : List Nat) : String := "s" ++ ".".intercalate (s.map toString)

def showOpts (o : Options) : String :=
  let kv : List String :=
    (if o.charsubs then ["charsubs=L"] else []) ++
    (if o.hasDelimKey then [match o.delim with | none => "delim=N" | some c => "delim=" ++ showStr [c]] else []) ++
    (match o.expanded with | none => [] | some b => ["expanded=" ++ (if b then "T" else "F")]) ++
    (match o.spec with | none => [] | some s => ["spec=" ++ showStr s]) ++
    (match o.subtype with | none => [] | some s => ["subtype=" ++ showStr s]) ++
    (match o.type with | none => [] | some s => ["type=" ++ showStr s])
  ",".intercalate kv

def showArg (a : Argument) : String := s!"{showStr a.name}|{a.index}|{showOpts a.opts}"

def showArgs : Except Err (List Argument) → String
  | .ok as => " ".intercalate ("ok" :: as.map showArg)
  | .error .valueError => "err:ValueError"
  | .error .keyError => "err:other:KeyError"
  | .error .attributeError => "err:other:AttributeError"
  | .error .indexError => "err:other:IndexError"

end PlasVerif.Model.Signature
