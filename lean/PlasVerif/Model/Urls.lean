/-!
# Model of link targets: `Macro.id`/`idgen`, `Renderable.filename`/`url`/`__str__`,
`Renderer.cacheFilenames`, `SectionUtils.tableofcontents`/`fulltableofcontents`/`links`,
the `TableOfContents` proxy and `Context.label`/`ref`  (plasTeX/__init__.py,
plasTeX/Renderers/__init__.py, plasTeX/Base/LaTeX/Sectioning.py, plasTeX/Context.py).

Self-contained render tree: level, identifier (label or generated), number (`ref`), file, children.
File names are abstracted to the rank of the node among the file-producing nodes in the order of
`cacheFilenames` (what name the `Filenames` generator hands out is property C15).
-/
namespace PlasVerif.Model.Urls

/-- `Macro.id`: a label given by `\label` (`Context.label` does `node.id = label`) or the
    n-th value of the module-level generator `idgen` (`'a%.10d' % n`). -/
inductive Id where
  | lab (s : String)
  | gen (n : Nat)
  deriving DecidableEq, Repr, Inhabited

/-- `Node.ENDSECTIONS_LEVEL` -/
def endSections : Int := 100

/-- what templates and navigation read on a node besides its level and id: the number (`node.ref`,
    `""` = none) and whether the node is a `\footnote` (registered in `userdata['footnotes']`; its template prints
    a mark `<a href="#id">`, its text is printed by the layout of the file that owns it) -/
structure Info where
  num : String
  foot : Bool := false
  cap : Bool := false       -- a `\\caption` (the label of a float attaches to it: `currentlabel`)
  deriving DecidableEq, Repr, Inhabited

instance : Coe String Info := ⟨fun s => { num := s }⟩

/-- render tree.  `id = none`: `@id` not set yet (the getter will draw from `idgen`);
    `file = none`: `Renderer.files` has no entry / `filename` returned `None`. -/
inductive Tree where
  | node (level : Int) (id : Option Id) (info : Info) (file : Option Nat) (kids : List Tree)
  deriving Repr, Inhabited

namespace Tree
def level : Tree → Int | .node l _ _ _ _ => l
def id : Tree → Option Id | .node _ i _ _ _ => i
def num : Tree → String | .node _ _ n _ _ => n.num
def foot : Tree → Bool | .node _ _ n _ _ => n.foot
def file : Tree → Option Nat | .node _ _ _ f _ => f
def kids : Tree → List Tree | .node _ _ _ _ k => k
end Tree

/-- `Macro.id` getter: the stored id, else the next value of `idgen` (stored). -/
def getId : Option Id → Nat → Id × Nat
  | some i, g => (i, g)
  | none, g => (.gen g, g + 1)

/-!
One pre-order walk touching nodes.  `touch lv`: the walk reads `node.id` (drawing from `idgen` when
unset); `mk lv`: the walk asks the filename generator for a new name.
* `Renderer.cacheFilenames` = `pass (· ≤ split) (· ≤ split)`: `Renderable.filename` returns early
  when `self.level > level`; otherwise `hasattr(self, 'id')` runs the id getter and
  `r.files[self] = r.newFilename()`; then the children in order.
* rendering = `pass (fun _ => true) (fun _ => false)`: every template reads `obj.id` (directly or
  through `obj.url`) before it renders its children (abstraction of the templates).
-/
mutual
def pass (touch mk : Int → Bool) : Tree → Nat → Nat → Tree × Nat × Nat
  | .node lv id num file kids, g, f =>
    let r := if touch lv then getId id g else (default, g)
    let id' := if touch lv then some r.1 else id
    let g1 := r.2
    let file' := if mk lv then some f else file
    let f1 := if mk lv then f + 1 else f
    let ks := passList touch mk kids g1 f1
    (.node lv id' num file' ks.1, ks.2.1, ks.2.2)
def passList (touch mk : Int → Bool) : List Tree → Nat → Nat → List Tree × Nat × Nat
  | [], g, f => ([], g, f)
  | t :: ts, g, f =>
    let r := pass touch mk t g f
    let rs := passList touch mk ts r.2.1 r.2.2
    (r.1 :: rs.1, rs.2.1, rs.2.2)
end

def cacheFilenames (split : Int) (t : Tree) (g : Nat) : Tree × Nat × Nat :=
  pass (fun lv => decide (lv ≤ split)) (fun lv => decide (lv ≤ split)) t g 0

def touchAll (t : Tree) (g : Nat) : Tree × Nat × Nat :=
  pass (fun _ => true) (fun _ => false) t g 0

/-- the whole preparation of a render: `cacheFilenames`, then the ids read while rendering -/
def prepare (split : Int) (t : Tree) (g : Nat) : Tree :=
  let a := cacheFilenames split t g
  (touchAll a.1 a.2.1).1

/-- relative URL: file (`none` = the empty file name of the code: no ancestor creates a file) and fragment -/
structure Url where
  file : Option Nat
  frag : Option Id
  deriving DecidableEq, Repr, Inhabited

/-- the `while node is not None and node.filename is None: node = node.parentNode` loop of
    `Renderable.url`, over the chain of ancestors (nearest first) -/
def walkUp : List Tree → Option Nat
  | [] => none
  | a :: rest => match a.file with
    | some f => some f
    | none => walkUp rest

/-- `Renderable.url` (without the base-url prefix) of node `n` whose ancestors are `anc` -/
def url (n : Tree) (anc : List Tree) : Url :=
  match n.file with
  | some f => ⟨some f, none⟩
  | none => ⟨walkUp anc, n.id⟩

/-- `base = config['document']['base-url']; if base and base.endswith('/'): base = base[:-1]` -/
def normBase (b : String) : String :=
  if b ≠ "" ∧ b.endsWith "/" then (b.dropEnd 1).toString else b

/- every node (pre-order) with its URL -/
mutual
def urls (anc : List Tree) : Tree → List (Tree × Url)
  | .node lv id num file kids =>
    (.node lv id num file kids, url (.node lv id num file kids) anc) ::
      urlsList (.node lv id num file kids :: anc) kids
def urlsList (anc : List Tree) : List Tree → List (Tree × Url)
  | [] => []
  | t :: ts => urls anc t ++ urlsList anc ts
end

/- `Renderable.__str__`: the rendered children are concatenated; a child with a filename is written to
    its file and contributes nothing to the parent.  Only the emitted identifiers are kept:
    returns (ids flowing into the parent's string, files written with the ids they contain). -/
mutual
def render : Tree → List Id × List (Nat × List Id)
  | .node _ id _ file kids =>
    let r := renderList kids
    let own := id.toList ++ r.1
    match file with
    | some f => ([], (f, own) :: r.2)
    | none => (own, r.2)
def renderList : List Tree → List Id × List (Nat × List Id)
  | [] => ([], [])
  | t :: ts =>
    let a := render t
    let b := renderList ts
    (a.1 ++ b.1, a.2 ++ b.2)
end

/-! ### tables of contents -/

def isSub (t : Tree) : Bool := decide (t.level < endSections)
def hasFile (t : Tree) : Bool := t.file.isSome

/-- entry filter of `tableofcontents` / `fulltableofcontents`: subsections, and unless
    `toc-non-files` only those that create files -/
def tocEntry (nonFiles : Bool) (k : Tree) : Bool := isSub k && (nonFiles || hasFile k)

/- the links a layout emits when it walks a list of `TableOfContents` proxies recursively
    (`for section in toc recursive: href=section.url; loop(section.tableofcontents)`).
    `proxyLinks … lvl anc t` is the proxy `TableOfContents(t, limit, lvl)`; its `tableofcontents` is
    `[TableOfContents(x, limit, lvl+1) for x in t.fulltableofcontents] if lvl < limit else []`. -/
mutual
def proxyLinks (nonFiles : Bool) (limit lvl : Int) (anc : List Tree) : Tree → List Url
  | .node lv id num file kids =>
    url (.node lv id num file kids) anc ::
      (if lvl < limit then entriesLinks nonFiles limit (lvl + 1) (.node lv id num file kids :: anc) kids else [])
def entriesLinks (nonFiles : Bool) (limit lvl : Int) (anc : List Tree) : List Tree → List Url
  | [] => []
  | k :: ks =>
    (if tocEntry nonFiles k then proxyLinks nonFiles limit lvl anc k else []) ++
      entriesLinks nonFiles limit lvl anc ks
end

/-- `SectionUtils.tableofcontents` of `t` (ancestors `anc`), flattened by the layout's recursion -/
def tocLinks (depth : Int) (nonFiles : Bool) (anc : List Tree) (t : Tree) : List Url :=
  if depth < 1 then []
  else if !(t.kids.filter isSub).any hasFile then []
  else entriesLinks nonFiles depth 1 (t :: anc) t.kids

/- `SectionUtils.allSections`: this section and, recursively, its `subsections` (pre-order), with URLs -/
mutual
def allSections (anc : List Tree) : Tree → List (Tree × Url)
  | .node lv id num file kids =>
    (.node lv id num file kids, url (.node lv id num file kids) anc) ::
      allSectionsList (.node lv id num file kids :: anc) kids
def allSectionsList (anc : List Tree) : List Tree → List (Tree × Url)
  | [] => []
  | k :: ks => (if isSub k then allSections anc k else []) ++ allSectionsList anc ks
end

/-- `sections = [x for x in self.documentSections if x.filename]` of `links` -/
def fileSections (root : Tree) : List (Tree × Url) :=
  (allSections [] root).filter (fun p => hasFile p.1)

/-- the `for item in sections` loop of `links` computing `next` for the section whose file is `f`
    (`item is self` is decided on the file, which identifies a file-producing node) -/
def nextOf (f : Nat) : List (Tree × Url) → Bool → Option Url
  | [], _ => none
  | p :: ps, breaknext =>
    if p.1.file = some f then nextOf f ps true
    else if breaknext then some p.2
    else nextOf f ps false

/-- same loop, `prev` -/
def prevOf (f : Nat) : List (Tree × Url) → Option Url → Option Url
  | [], prev => prev      -- self not found: the last item (code quirk, unreachable for sections of the document)
  | p :: ps, prev =>
    if p.1.file = some f then prev
    else prevOf f ps (some p.2)

/-! ### cross references: `Context.label` (dictionary, last assignment wins) and the `ref` template -/

/-- labelled nodes (pre-order) with URL -/
def labelled (root : Tree) : List (String × Tree × Url) :=
  (urls [] root).filterMap (fun p => match p.1.id with
    | some (.lab s) => some (s, p.1, p.2)
    | _ => none)

/-- `context.labels[label]` after the whole document has been read -/
def lookupLabel (l : String) (tbl : List (String × Tree × Url)) : Option (Tree × Url) :=
  (tbl.reverse.find? (fun e => e.1 == l)).map (·.2)

/-- the `ref` template: `<a href=label.url>label.ref</a>` when resolved and numbered, else `??` -/
def renderRef (root : Tree) (l : String) : Option (Url × String) :=
  match lookupLabel l (labelled root) with
  | some (n, u) => if n.num ≠ "" then some (u, n.num) else none
  | none => none

/-! ### vocabulary about trees used by the theorems (and evaluated by the driver) -/

mutual
def idsOf : Tree → List Id
  | .node _ id _ _ kids => id.toList ++ idsOfList kids
def idsOfList : List Tree → List Id
  | [] => []
  | t :: ts => idsOf t ++ idsOfList ts
end

mutual
def filesOf : Tree → List Nat
  | .node _ _ _ file kids => file.toList ++ filesOfList kids
def filesOfList : List Tree → List Nat
  | [] => []
  | t :: ts => filesOf t ++ filesOfList ts
end

mutual
def heightT : Tree → Nat
  | .node _ _ _ _ kids => 1 + heightL kids
def heightL : List Tree → Nat
  | [] => 0
  | t :: ts => max (heightT t) (heightL ts)
end

/- sections that create files hang on sections that create files: every child that contains a
   file-producing node is itself a file-producing subsection (holds after `cacheFilenames` when levels
   nest strictly and split-level < ENDSECTIONS_LEVEL; checked by the driver on every well-formed case) -/
mutual
def tocOK : Tree → Bool
  | .node _ _ _ _ kids => tocOKList kids
def tocOKList : List Tree → Bool
  | [] => true
  | k :: ks => ((filesOf k).isEmpty || (isSub k && hasFile k && tocOK k)) && tocOKList ks
end

/- levels nest: no node has a lower level than its parent (sections absorb everything until an item of
   their own or a higher rank; environments and paragraphs live below sections) -/
mutual
def nests : Tree → Bool
  | .node lv _ _ _ kids => nestsList lv kids
def nestsList (lv : Int) : List Tree → Bool
  | [] => true
  | k :: ks => decide (lv ≤ k.level) && nests k && nestsList lv ks
end

/-! ### effective split level, footnotes -/

/-- Python `str.strip()` on the characters the model distinguishes -/
def isWs (c : Char) : Bool := c == ' ' || c == '\t' || c == '\n' || c == '\r' || c == '\x0b' || c == '\x0c'
def strip (cs : List Char) : List Char := ((cs.dropWhile isWs).reverse.dropWhile isWs).reverse

/-- `Renderer.render`: `self.level = config['files']['split-level']`; a filename template without blank and
    without `[` names a single file and forces level −10 (while `config['files']['split-level']` keeps its value) -/
def effSplit (split : Int) (template : List Char) : Int :=
  if (strip template).any (fun c => c == ' ' || c == '[') then split else -10

/-- `SectionUtils.footnotes`, seen from a footnote whose ancestors are `anc` (nearest first):
    `s = f.currentSection` (`Macro.currentSection`: the nearest ancestor with `level < ENDSECTIONS_LEVEL`);
    `while s is not None and not s.filename: s = s.currentSection`; the footnote belongs to that `s` -/
def footOwner : List Tree → Option Nat
  | [] => none
  | a :: rest =>
    if isSub a then
      match a.file with
      | some f => some f
      | none => footOwner rest
    else footOwner rest

/- every footnote of the tree (pre-order) with the file its mark `<a href="#id">` is printed in (the file of
   the footnote's own URL: the mark is part of the parent's string) and the file whose layout prints its text
   (`<li id="id">` in the footer of the owning section's file) -/
mutual
def footnotes (anc : List Tree) : Tree → List (Tree × Option Nat × Option Nat)
  | .node lv id info file kids =>
    (if info.foot then [(.node lv id info file kids, (url (.node lv id info file kids) anc).file, footOwner anc)] else []) ++
      footnotesList (.node lv id info file kids :: anc) kids
def footnotesList (anc : List Tree) : List Tree → List (Tree × Option Nat × Option Nat)
  | [] => []
  | t :: ts => footnotes anc t ++ footnotesList anc ts
end

/- a predicate on (level, info, file) holds at every node -/
mutual
def allNodes (P : Int → Info → Option Nat → Bool) : Tree → Bool
  | .node lv _ info file kids => P lv info file && allNodesList P kids
def allNodesList (P : Int → Info → Option Nat → Bool) : List Tree → Bool
  | [] => true
  | t :: ts => allNodes P t && allNodesList P ts
end

/-- input documents: nothing has a file yet, footnotes are not sections -/
def inputOK (t : Tree) : Bool :=
  allNodes (fun lv info file => file.isNone && (!info.foot || decide (endSections ≤ lv))) t

/-- rendered trees: only sections create files, footnotes are not sections -/
def navOK (t : Tree) : Bool :=
  allNodes (fun lv info file => (!file.isSome || decide (lv < endSections)) && (!info.foot || decide (endSections ≤ lv))) t

/-! ### navigation entries registered while parsing (`Macro.setLinkType`, `userdata['links']`)

`SectionUtils.links` copies `userdata['links']` into the navigation dictionary (`nav[key] = value`); the
layouts print `links.index.url`.  The entry is registered by `invoke`: `Macro.invoke` (commands, and `\begin`
of macros) and `Environment.invoke` call `self.setLinkType()` after parsing the arguments; the instance created
for `\end{…}` only pops the context and returns *before* that. -/

/-- instances of macros the parser invokes, in source order; `pos` = which construct of the document -/
inductive Inst where
  | cmd (key : String) (pos : Nat)         -- a command such as `\printindex` (`key = ""`: `linkType` is `None`)
  | envBegin (key : String) (pos : Nat)    -- `\begin{theindex}`: this instance becomes the node of the document
  | envEnd (key : String) (pos : Nat)      -- `\end{theindex}`: a throw-away instance, never part of the document
  deriving DecidableEq, Repr

/-- a value of `userdata['links']`: which construct registered it, and whether the registered object is a node
    of the document tree (only those are rendered and have a meaningful URL) -/
structure NavEntry where
  key : String
  pos : Nat
  inTree : Bool
  deriving DecidableEq, Repr

/-- `setLinkType`: `if key: userdata['links'][key] = self` (dictionary assignment: replaces) -/
def setLinkType (links : List NavEntry) (e : NavEntry) : List NavEntry :=
  if e.key = "" then links else e :: links.filter (fun x => x.key ≠ e.key)

/-- `invoke` of one instance -/
def invokeInst (links : List NavEntry) : Inst → List NavEntry
  | .cmd k p => setLinkType links ⟨k, p, true⟩
  | .envBegin k p => setLinkType links ⟨k, p, true⟩
  | .envEnd _ _ => links        -- `if self.macroMode == MODE_END: context.pop(self); return`

def parseNav (h : List Inst) : List NavEntry := h.foldl invokeInst []

/-! ### `up` link and breadcrumbs of `SectionUtils.links` -/

/-- the level the harness writes for the `document` node; stands for `Node.DOCUMENT_LEVEL = -sys.maxsize` -/
def documentLevel : Int := -1000000

/-- `parent = self.parentNode` when `self.level > DOCUMENT_LEVEL`; `nav['up'] = nav['parent'] = parent` -/
def upOf (t : Tree) (anc : List Tree) : Option Url :=
  if t.level > documentLevel then
    match anc with
    | [] => none
    | a :: rest => some (url a rest)
  else none

/-- `while item is not None and item.level > DOCUMENT_LEVEL: breadcrumbs.append(item); item = item.parentNode`
    followed by `if item is not None: breadcrumbs.append(item)` (URLs of the collected ancestors, nearest first) -/
def crumbsUp : List Tree → List Url
  | [] => []
  | a :: rest => if a.level > documentLevel then url a rest :: crumbsUp rest else [url a rest]

/-- `breadcrumbs = [self]`, the ancestors when `self.level > DOCUMENT_LEVEL`, then `breadcrumbs.reverse()` -/
def breadcrumbs (t : Tree) (anc : List Tree) : List Url :=
  (url t anc :: (if t.level > documentLevel then crumbsUp anc else [])).reverse

/- every node (pre-order) with its chain of ancestors -/
mutual
def nodesA (anc : List Tree) : Tree → List (Tree × List Tree)
  | .node lv id info file kids =>
    (.node lv id info file kids, anc) :: nodesAList (.node lv id info file kids :: anc) kids
def nodesAList (anc : List Tree) : List Tree → List (Tree × List Tree)
  | [] => []
  | t :: ts => nodesA anc t ++ nodesAList anc ts
end

/-! ### floats: the caption carries the label, the float's template prints the caption's id (`Float.digest`) -/

/- `Node.allChildNodes`: every node below `t`, pre-order, each exactly once -/
mutual
def descendants : Tree → List Tree
  | .node _ _ _ _ kids => descendantsList kids
def descendantsList : List Tree → List Tree
  | [] => []
  | t :: ts => (t :: descendants t) ++ descendantsList ts
end

def isCaption (t : Tree) : Bool := match t with | .node _ _ info _ _ => info.cap

/-- `captions = [x for x in self.allChildNodes if isinstance(x, Caption)]`;
    `if len(captions) == 1: self.title = captions[0]` -/
def floatTitle (t : Tree) : Option Tree :=
  match (descendants t).filter isCaption with
  | [c] => some c
  | _ => none

/-- the identifier the float templates print (`id="{{ obj.title.id }}"`) -/
def floatId (t : Tree) : Option Id := (floatTitle t).bind Tree.id

/- number of caption nodes below a node, counted on the tree itself -/
mutual
def countCaps : Tree → Nat
  | .node _ _ _ _ kids => countCapsList kids
def countCapsList : List Tree → Nat
  | [] => 0
  | t :: ts => (if isCaption t then 1 else 0) + countCaps t + countCapsList ts
end

end PlasVerif.Model.Urls
