import PlasVerif.Generated.Digest
/-!
Model of plasTeX's *digestion* phase (building the document tree from the expanded-token
stream): `TeX.parse` + `bufferediter` (plasTeX/TeX.py), `Macro.digest`, `Macro.digestUntil`,
`Environment.digest`, `Macro.paragraphs` (plasTeX/__init__.py), `SectionUtils.digest`
(Base/LaTeX/Sectioning.py), `bgroup.digest` (Base/TeX/Text.py), `List.digest`,
`List.item.digest` (Base/LaTeX/Lists.py), `Node.normalize`, `Node.appendText`
(plasTeX/DOM/__init__.py), `NoCharSubEnvironment.normalize`, `verb.normalize`.

Transcribed from the code as written.  The stream holds *trees* (an item with the children it
already has), because `Environment.digest` and `digestUntil` push an item back **after** having
digested it; an outer consumer then digests the same object a second time.  Every `tokens.push`
of the code pushes the item that was just pulled, so `bufferediter` is a list with `cons`
(`Buffered` below is the iterator as written, `Buffered.flat` the refinement).

Recursion in Python is on the call stack; here every call (a `digest`, one loop iteration)
consumes one unit of fuel; `parse` supplies `2·|stream| + 3`.
-/
namespace PlasVerif.Model.Digest
open PlasVerif.Generated.Digest

/-- which `digest` method the class of an item resolves to -/
inductive DK where
  | none      -- `Macro.digest` (pass), `par.digest`, `egroup.digest`
  | env       -- `Environment.digest`
  | sec       -- `SectionUtils.digest`
  | bgroup    -- `bgroup.digest`
  | listEnv   -- `List.digest`
  | listItem  -- `List.item.digest`
  deriving DecidableEq, Repr

/-- identity of a node, used for parent labels.  `syn o k` = node created during digestion
    (paragraph made by `paragraphs`, text node made by `appendText`) inside `o`. -/
inductive Ref where
  | unset | out | item (n : Nat) | syn (owner : Ref) (k : Nat)
  deriving DecidableEq, Repr

structure Item where
  ref : Ref
  elem : Bool            -- nodeType == ELEMENT_NODE (otherwise a text node)
  level : Int
  depth : Int            -- contextDepth
  block : Bool           -- blockType
  dk : DK
  ty : Nat               -- class identity (`type(item) is type(self)`)
  modeEnd : Bool         -- macroMode == MODE_END
  egroup : Bool          -- isinstance(item, (egroup, endgroup))
  isItem : Bool          -- isinstance(item, List.item)
  cont : Nat := 0        -- `getattr(item, 'container', None)`: 0 = None, otherwise the id of the container class (List for \item)
  isa : List Nat := []   -- ids of the container classes this element is an instance of (`isinstance(self, container)`)
  ws : Bool              -- text: `not self.strip()`
  dynws : Bool           -- class `par`: isElementContentWhitespace == not hasChildNodes()
  setctr : Bool          -- nodeName == 'setcounter'
  forcePars : Bool
  nosub : Bool           -- class overrides normalize() to drop the substitutions
  chars : List Nat       -- text value
  src : List Nat         -- text: ids of the (non-blank) stream items merged into this node
  argLeaves : List Nat   -- element: ids of the text inside its argument fragments, in order
  deriving Repr

inductive Tree where
  | node (it : Item) (parent : Ref) (kids : List Tree)

namespace Tree
def it : Tree → Item | .node i _ _ => i
def parent : Tree → Ref | .node _ p _ => p
def kids : Tree → List Tree | .node _ _ k => k
/-- `x.parentNode = r` -/
def setParent (r : Ref) : Tree → Tree | .node i _ k => .node i r k
/-- `self.appendChild(x)` (sets `x.parentNode = self`) -/
def append (t x : Tree) : Tree := .node t.it t.parent (t.kids ++ [x.setParent t.it.ref])
/-- `isElementContentWhitespace` -/
def ws (t : Tree) : Bool := if t.it.elem then t.it.dynws && t.kids.isEmpty else t.it.ws
end Tree

/-! ### bufferediter -/
structure Buffered where
  buffer : List Tree     -- `_buffer`, top = head
  src : List Tree        -- what `_next` still yields
def Buffered.next (b : Buffered) : Option (Tree × Buffered) :=
  match b.buffer with
  | x :: r => some (x, { b with buffer := r })
  | [] => match b.src with
    | x :: r => some (x, { b with src := r })
    | [] => none
def Buffered.push (x : Tree) (b : Buffered) : Buffered := { b with buffer := x :: b.buffer }
def Buffered.flat (b : Buffered) : List Tree := b.buffer ++ b.src

/-! ### text substitution (`appendText`) -/

/-- Python `str.replace(p, d)` for non-empty `p`: leftmost, non-overlapping.  `skip` = characters
    of a match still to be dropped. -/
def replaceGo (p d : List Nat) : Nat → List Nat → List Nat
  | _, [] => []
  | k + 1, _ :: cs => replaceGo p d k cs
  | 0, c :: cs =>
    if p.isPrefixOf (c :: cs) && !p.isEmpty then d ++ replaceGo p d (p.length - 1) cs
    else c :: replaceGo p d 0 cs
def replaceAll (p d s : List Nat) : List Nat := replaceGo p d 0 s

/-- `for src, dest in charsubs: value = value.replace(src, dest)` -/
def applySubs (subs : List (List Nat × List Nat)) (s : List Nat) : List Nat :=
  subs.foldl (fun v sd => replaceAll sd.1 sd.2 v) s

def textItem (owner : Ref) (chars src : List Nat) (ws : Bool) : Item :=
  { ref := .syn owner 0, elem := false, level := characterLevel, depth := defaultContextDepth, block := false,
    dk := .none, ty := 0, modeEnd := false, egroup := false, isItem := false, ws := ws, dynws := false,
    setctr := false, forcePars := false, nosub := false, chars := chars, src := src, argLeaves := [] }

/-- `appendText(text, charsubs)`: nothing for an empty list, otherwise ONE new text node -/
def flushText (cs : Bool) (owner : Ref) (txt : List Tree) : List Tree :=
  if txt.isEmpty then []
  else
    let joined := txt.flatMap (·.it.chars)
    let value := if cs then applySubs charsubs joined else joined
    [.node (textItem owner value (txt.flatMap (·.it.src)) (txt.all (·.it.ws))) owner []]

/-! ### `Node.normalize(charsubs)`; `cs = false` is `charsubs=None` -/
mutual
def norm (cs : Bool) : Tree → Tree
  | .node it p kids => .node it p (normKids (cs && !it.nosub) it.ref kids [])
def normKids (cs : Bool) (owner : Ref) : List Tree → List Tree → List Tree
  | [], txt => flushText cs owner txt
  | k :: ks, txt =>
    if k.it.elem then flushText cs owner txt ++ (norm cs k).setParent owner :: normKids cs owner ks []
    else normKids cs owner ks (txt ++ [k])
end

/-! ### `Macro.paragraphs(force)` -/
def defaultPar : Item :=
  { ref := .unset, elem := true, level := parLevel, depth := defaultContextDepth, block := false, dk := .none,
    ty := 0, modeEnd := false, egroup := false, isItem := false, ws := false, dynws := true, setctr := false,
    forcePars := false, nosub := false, chars := [], src := [], argLeaves := [] }

/-- `createElement(parname)`: a new instance of the class of the paragraph item that was found -/
def mkPar (proto : Item) (owner parent : Ref) (k : Nat) (block : Bool) (kids : List Tree) : Tree :=
  .node { proto with ref := .syn owner k, depth := defaultContextDepth, block := block, modeEnd := false,
                     chars := [], src := [], argLeaves := [] } parent kids

/-- the `while self: item = self.pop(0)` loop; returns (`newnodes`, what stays in `self`) -/
def parLoop (proto : Item) (owner : Ref) : List Tree → Tree → List Tree → List Tree × List Tree
  | done, cur, [] => (done ++ [cur], [])
  | done, cur, x :: r =>
    if x.it.level == parLevel then parLoop proto owner (done ++ [cur]) x r
    else if x.it.level < parLevel then (done ++ [cur, x], r)
    else if x.it.block then
      let k := done.length + 1
      parLoop proto owner
        (done ++ [cur, mkPar proto owner .unset k true [x.setParent (.syn owner k)]])
        (mkPar proto owner .unset (k + 1) false []) r
    else parLoop proto owner done (cur.append x) r

/-- the final filter: empty paragraphs and paragraphs holding one blank node are removed -/
def keepPar (n : Tree) : Bool :=
  !(n.it.level == parLevel &&
    (match n.kids with
     | [] => true
     | [k] => k.ws
     | _ => false))

def paragraphs (force : Bool) : Tree → Tree
  | .node it p kids =>
    match (kids.find? fun k => k.it.level == parLevel), force with
    | none, false => norm true (.node it p kids)
    | found, _ =>
      let proto := (found.map (·.it)).getD defaultPar
      let r := parLoop proto it.ref [] (mkPar proto it.ref it.ref 0 false []) kids
      let ins := r.1.map fun n => ((if n.it.level == parLevel then norm true n else n).setParent it.ref)
      .node it p ((ins ++ r.2).filter keepPar)

/-! ### the absorbing loops -/
inductive LK where | env | sec | bg | until
  deriving DecidableEq, Repr
inductive Pre where | push | drop | raw | go
  deriving DecidableEq, Repr

/-- what the loop of kind `k` running in node `t` does with the pulled item `x` *before* digesting it -/
def pre : LK → Tree → Tree → Pre
  | .env, t, x =>
    if x.it.level == parLevel then .raw
    else if x.it.level < t.it.level then .push
    else if x.it.elem && x.it.modeEnd && x.it.ty == t.it.ty then .drop
    -- an element that only lives in one kind of container (`\item` in a list) ends every other environment
    else if x.it.elem && x.it.cont != 0 && !(t.it.isa.contains x.it.cont) then .push
    else .go
  | .sec, t, x => if x.it.level ≤ t.it.level then .push else .go
  | .bg, t, x =>
    if x.it.elem then
      if x.it.level < endSectionsLevel then .push
      else if x.it.egroup then .drop
      else if x.it.depth < t.it.depth then .push
      else .go
    else .go
  | .until, _, x => if x.it.elem && x.it.isItem then .push else .go

/-- the test made *after* the item has been digested: push it back and stop -/
def post : LK → Tree → Tree → Bool
  | .env, t, x => t.it.level > documentLevel && x.it.depth < t.it.depth
  | .sec, _, _ => false
  | .bg, _, _ => false
  | .until, t, x => x.it.depth < t.it.depth

/-- `List.digest`: blanks and `\setcounter` before the first item are dropped -/
def skipList : List Tree → List Tree
  | [] => []
  | x :: r => if x.ws then skipList r else if x.it.setctr then skipList r else x :: r
/-- `List.item.digest`: blanks directly after the item are dropped -/
def skipWs : List Tree → List Tree
  | [] => []
  | x :: r => if x.ws then skipWs r else x :: r

def lkOf : DK → LK
  | .sec => .sec | .bgroup => .bg | .listItem => .until | _ => .env

mutual
/-- `t.digest(tokens)` -/
def digest : Nat → Tree → List Tree → Option (Tree × List Tree)
  | 0, _, _ => none
  | f + 1, t, s =>
    match t.it.dk with
    | .none => some (t, s)
    | .env =>
      if t.it.modeEnd then some (t, s)
      else match loop f .env t t.it.forcePars s with
        | none => none
        | some (t', dp, s') => some (if dp then paragraphs true t' else t', s')
    | .listEnv =>
      if t.it.modeEnd then some (t, s)
      else match loop f .env t t.it.forcePars (skipList s) with
        | none => none
        | some (t', dp, s') => some (if dp then paragraphs true t' else t', s')
    | .sec =>
      match loop f .sec t false s with
      | none => none
      | some (t', _, s') => some (paragraphs true t', s')
    | .bgroup =>
      match loop f .bg t false s with
      | none => none
      | some (t', _, s') => some (paragraphs false t', s')
    | .listItem =>
      match loop f .until t false (skipWs s) with
      | none => none
      | some (t', _, s') => some (if t.it.forcePars then paragraphs true t' else t', s')
/-- `for item in tokens: …` of the four digest methods; the Bool is `dopars` -/
def loop : Nat → LK → Tree → Bool → List Tree → Option (Tree × Bool × List Tree)
  | 0, _, _, _, _ => none
  | _ + 1, _, t, dp, [] => some (t, dp, [])
  | f + 1, k, t, dp, x :: r =>
    match pre k t x with
    | .push => some (t, dp, x :: r)
    | .drop => some (t, dp, r)
    | .raw => loop f k (t.append x) true r
    | .go =>
      match (if x.it.elem then digest f (x.setParent t.it.ref) r else some (x, r)) with
      | none => none
      | some (x', r') =>
        if post k t x' then some (t, dp, x' :: r') else loop f k (t.append x') dp r'
end

/-- `TeX.parse(output)`: `item.parentNode = output; item.digest(tokens); output.append(item)` -/
def top : Nat → List Tree → List Tree → Option (List Tree)
  | 0, _, _ => none
  | _ + 1, acc, [] => some acc
  | f + 1, acc, x :: r =>
    match (if x.it.elem then digest f (x.setParent .out) r else some (x, r)) with
    | none => none
    | some (x', r') => top f (acc ++ [x'.setParent .out]) r'

def parse (s : List Tree) : Option (List Tree) := top (2 * s.length + 3) [] s

/-- an argument fragment: `tex.parse(frag)` then `frag.normalize(charsubs)` -/
def parseFragment (cs : Bool) (s : List Tree) : Option (List Tree) :=
  (parse s).map fun ts => normKids cs .out ts []


/-! ### reading an argument: the math-mode decision, and scratch fragments

`TeX.readArgumentAndSource` normalises an expanded argument with the document's substitution list
unless `Context.isMathMode` (plasTeX/Context.py): the innermost context frame whose object declares
a `mathMode` decides; frames without an object (`{`), and objects that leave `mathMode = None`
(`ArgumentContext` pushed by `createSubProcess` around every argument expansion, ordinary commands)
are looked through. -/

/-- a context frame as `isMathMode` sees it: `none` = no object, `some none` = object with
    `mathMode = None`, `some (some b)` = object declaring `mathMode = b` -/
abbrev MFrame := Option (Option Bool)

/-- `Context.isMathMode`; stack top = list head -/
def isMathMode : List MFrame → Bool
  | [] => false
  | some (some b) :: _ => b
  | _ :: r => isMathMode r

/-- the substitution flag `readArgumentAndSource` passes to `normalize` for an expanded argument -/
def subsAtRead (stack : List MFrame) : Bool := !isMathMode stack

/-! `Node.append(newChild, setParent)` / `Node.extend(other, setParent)` (plasTeX/DOM/__init__.py) as used
for argument fragments and for the scratch fragments of `fullTitle` / `fullTocEntry`
(`extend([ref, ' ', title], setParent=False)`). -/

/-- the receiving node -/
structure Cont where
  ref : Ref
  isFrag : Bool      -- nodeType == DOCUMENT_FRAGMENT_NODE
  parent : Ref       -- its own parentNode (`unset` = None)

/-- `newChild.parentNode = self.parentNode if self is a fragment else self` -/
def Cont.target (c : Cont) : Ref := if c.isFrag then c.parent else c.ref

inductive Arg where
  | node (t : Tree)
  | frag (parent : Ref) (kids : List Tree)

/-- `self.append(newChild, setParent)`: (children added to `self`, `newChild` afterwards).
    A fragment's children are appended one by one **with the caller's flag**, then the flag is applied
    to `newChild` itself. -/
def appendArg (c : Cont) (sp : Bool) : Arg → List Tree × Arg
  | .node t => let t' := if sp then t.setParent c.target else t; ([t'], .node t')
  | .frag p kids =>
    let ks := kids.map fun k => if sp then k.setParent c.target else k
    (ks, .frag (if sp then c.target else p) ks)

/-- `self.extend(other, setParent)`: the children `self` gains -/
def extend (c : Cont) (sp : Bool) (args : List Arg) : List Tree :=
  args.flatMap fun a => (appendArg c sp a).1

def Arg.kids : Arg → List Tree
  | .node t => [t]
  | .frag _ ks => ks


/-! ### the substitution table of a document

`TeXDocument.__init__`: `self.charsubs = [x for x in TeXDocument.defaultCharsubs if x[0] not in
self.config["document"]["disable-charsub"]]` — a **new list** per document; the class attribute is
read, never written.  The state of a process that creates documents one after the other is the class
table. -/

abbrev SubTable := List (List Nat × List Nat)

/-- the table a new document gets from the class table `cls` under the option `disabled` -/
def docCharsubs (cls : SubTable) (disabled : List (List Nat)) : SubTable :=
  cls.filter fun sd => !(disabled.contains sd.1)

/-- one `TeXDocument(config)`: (class table afterwards, the document's table) -/
def createDoc (cls : SubTable) (disabled : List (List Nat)) : SubTable × SubTable :=
  (cls, docCharsubs cls disabled)

/-- a batch: documents created one after the other; (class table at the end, tables of the documents) -/
def createDocs (cls : SubTable) : List (List (List Nat)) → SubTable × List SubTable
  | [] => (cls, [])
  | d :: ds =>
    let r := createDoc cls d
    let rest := createDocs r.1 ds
    (rest.1, r.2 :: rest.2)


/-! ### `appendText` is a function of its own arguments

`Node.appendText(text, charsubs)` computes the value of the new text node from the joined text and the
table it was given — nothing else (no per-document state). -/

/-- the value of the text node one `appendText(text, charsubs)` call creates; `cs = false` is `charsubs=None`/`[]` -/
def appendTextValue (cs : Bool) (joined : List Nat) : List Nat :=
  if cs then applySubs charsubs joined else joined

/-- a history of `appendText` calls on nodes of one document: the values created, in call order -/
def appendTexts (calls : List (Bool × List Nat)) : List (List Nat) :=
  calls.map fun c => appendTextValue c.1 c.2

end PlasVerif.Model.Digest
