/-!
# Model of the per-class caches `'@locals'` and `'@arguments'`  (property C17)

`Macro.locals()` and `Macro.arguments` (plasTeX/__init__.py) compute a table from the class
(`locals`: the macros nested in the class body and in the bodies of its bases, most derived wins;
`arguments`: the compiled `args` string the class inherits) and store it **on the class**, under a
name that is looked up in `vars(type(self))` — the class's *own* dictionary — on later calls.  These
caches are interpreter-wide state that is never reset: they are filled by whatever documents were
processed before.  The property needs them to be *transparent*.

Classes are numbers; `mro c` is `type(self).__mro__` (most derived first); `f c` is what the
uncached computation gives for class `c`.  `inherit = true` is the faulty variant in which the cache is
read with attribute lookup (`getattr`), so that a class sees the entry cached by one of its bases.
-/
namespace PlasVerif.Model.ClassCache

/-- a table `name ↦ value`; a later definition of a name replaces the earlier one in place -/
abbrev Table := List (Nat × Nat)

def upsert : Table → Nat → Nat → Table
  | [], k, v => [(k, v)]
  | (k', v') :: r, k, v => if k' = k then (k, v) :: r else (k', v') :: upsert r k v

/-- `Macro.locals` without the cache: `for cls in reversed(mro): for value in vars(cls).values(): loc[name] = value` -/
def computeLocals (mro : Nat → List Nat) (own : Nat → Table) (c : Nat) : Table :=
  (mro c).reverse.foldl (fun loc k => (own k).foldl (fun l e => upsert l e.1 e.2) loc) []

/-- which classes carry the cache attribute in their own `vars()`, with the cached value -/
abbrev Cache (τ : Type) := List (Nat × τ)

/-- "Check for cached versions first" -/
def cached {τ} (inherit : Bool) (mro : Nat → List Nat) (cache : Cache τ) (c : Nat) : Option τ :=
  if inherit then (mro c).findSome? (fun k => cache.lookup k) else cache.lookup c

/-- one call on an instance of class `c`: the cached value, else compute and `setattr(tself, name, value)` -/
def lookup {τ} (inherit : Bool) (mro : Nat → List Nat) (f : Nat → τ) (cache : Cache τ) (c : Nat) : Cache τ × τ :=
  match cached inherit mro cache c with
  | some t => (cache, t)
  | none => ((c, f c) :: cache, f c)

/-- a history of calls (documents processed one after the other use classes in some order) -/
def lookups {τ} (inherit : Bool) (mro : Nat → List Nat) (f : Nat → τ) : Cache τ → List Nat → Cache τ × List τ
  | cache, [] => (cache, [])
  | cache, c :: cs =>
    let r := lookup inherit mro f cache c
    let r' := lookups inherit mro f r.1 cs
    (r'.1, r.2 :: r'.2)

end PlasVerif.Model.ClassCache
