import PlasVerif.Driver.Util
import PlasVerif.Spec.BoolExpr
import PlasVerif.Model.IfThenNum
import PlasVerif.Spec.Numeral
namespace PlasVerif.Driver.C19
open PlasVerif.Driver PlasVerif.Model.IfThen PlasVerif.Spec.BoolExpr

def tokStr : Tok → String
  | .num n => s!"n{n}" | .bool true => "T" | .bool false => "F" | .lpar => "(" | .rpar => ")"
  | .and => "and" | .or => "or" | .not => "not" | .lt => "<" | .gt => ">" | .eq => "="

def tok? (s : String) : Option Tok :=
  match s with
  | "T" => some (.bool true) | "F" => some (.bool false) | "(" => some .lpar | ")" => some .rpar
  | "and" => some .and | "or" => some .or | "not" => some .not
  | "<" => some .lt | ">" => some .gt | "=" => some .eq
  | _ => if s.startsWith "n" then (s.drop 1).toString.toInt?.map .num else none

def resStr : Except Err Bool → String
  | .ok b => s!"ok:{boolStr b}"
  | .error .indexError => "err:IndexError"
  | .error .valueError => "err:ValueError"

def rel? : String → Option Rel
  | "<" => some .lt | ">" => some .gt | "=" => some .eq | _ => none

/-- an operand word: `_` stands for a blank (`-_3` is `- 3`) -/
def operandChars (w : String) : List Char := w.toList.map fun c => if c = '_' then ' ' else c

def readOperand (w : String) : Option Int := readSigned (operandChars w)

/-- spec-side reading of an operand word as ⟨signs⟩⟨digits⟩ (independent of `readSigned`): `none` = not of that shape -/
def specOperand (w : String) : Option Int :=
  let rec signs : List Char → List PlasVerif.Spec.Numeral.Sign → List PlasVerif.Spec.Numeral.Sign × List Char
    | '+' :: r, acc => let k := (r.takeWhile (· = '_')).length; signs (r.drop k) (acc ++ [⟨false, k⟩])
    | '-' :: r, acc => let k := (r.takeWhile (· = '_')).length; signs (r.drop k) (acc ++ [⟨true, k⟩])
    | r, acc => (acc, r)
  termination_by l => l.length
  decreasing_by all_goals (simp only [List.length_drop, List.length_cons]; omega)
  let (sg, ds) := signs w.toList []
  if ds ≠ [] ∧ ds.all Char.isDigit then some (PlasVerif.Spec.Numeral.denote sg (ds.map fun c => c.toNat - 48)) else none

/- prefix encoding of trees:  expr ::= A atom | & expr atom | | expr atom
   atom ::= L1 | L0 | C int rel int | P expr | N atom -/
mutual
def parseExpr : Nat → List String → Option (Expr × List String)
  | 0, _ => none
  | f + 1, "A" :: r => do let (a, r) ← parseAtom f r; pure (.atom a, r)
  | f + 1, "&" :: r => do let (e, r) ← parseExpr f r; let (a, r) ← parseAtom f r; pure (.and e a, r)
  | f + 1, "|" :: r => do let (e, r) ← parseExpr f r; let (a, r) ← parseAtom f r; pure (.or e a, r)
  | _, _ => none
def parseAtom : Nat → List String → Option (Atom × List String)
  | 0, _ => none
  | _ + 1, "L1" :: r => some (.lit true, r)
  | _ + 1, "L0" :: r => some (.lit false, r)
  | _ + 1, "C" :: a :: rel :: b :: r => do pure (.cmp (← readOperand a) (← rel? rel) (← readOperand b), r)
  | f + 1, "P" :: r => do let (e, r) ← parseExpr f r; pure (.paren e, r)
  | f + 1, "N" :: r => do let (a, r) ← parseAtom f r; pure (.neg a, r)
  | _, _ => none
end

def handle : List String → String
  | "tree" :: ws | "doc" :: ws =>
    match parseExpr (ws.length + 1) ws with
    | some (e, []) =>
      let toks := e.lin
      s!"{resStr (evaluate toks)}\tok:{boolStr e.den}\t{joinSp (toks.map tokStr)}"
    | _ => "bad-op"
  | ["num", w] =>
    let shown : Option Int → String := fun | some n => s!"ok:{n}" | none => "none"
    match specOperand w with
    | some n => s!"{shown (readOperand w)}\tok:{n}"
    | none => s!"{shown (readOperand w)}\t-"
  | "rpn" :: ws =>
    match ws.mapM tok? with
    | some toks => s!"{resStr (evaluate toks)}\t-"
    | none => "bad-op"
  | "rpn-asis" :: ws =>
    match ws.mapM tok? with
    | some toks => s!"{resStr (evaluateAsIs toks)}\t-"
    | none => "bad-op"
  | ["while", start, bound, fuel] =>
    match start.toNat?, bound.toNat?, fuel.toNat? with
    | some s, some b, some f =>
      -- loop `while s < b: s += 1; emit 1`
      match whiledo (fun s : Nat => decide (s < b)) (fun s => (s + 1, [s])) f s [] with
      | some (s', out) => s!"ok:{s'}:{out.length}\tok:{max s b}:{b - s}"
      | none => "fuel\t-"
    | _, _, _ => "bad-op"
  | _ => "bad-op"

end PlasVerif.Driver.C19
