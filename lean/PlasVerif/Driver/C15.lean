import PlasVerif.Driver.Util
import PlasVerif.Spec.Filenames
/-!
Driver for C15.  Strings travel as `s` followed by comma separated decimal code points (`s` = empty).
Streams
  parse <spec>                                  → items of `parseTemplate`
  fname <spec> <bad> <sub> <ext> | k v … | reserved… | ast | k v … | k v … (one section per request)
        ast = `-` (outside the documented grammar) or templates `S seg…` / `A seg…` separated by `;`,
        seg = `L<str>` | `V<str>` | `F<str>:<str>`
        → model results \t spec results
  asis  n <value>                               → word limit of the pinned code (D12) \t repaired
  multi k | (spec bad sub ext | k v … | reserved… | ast) × k | op | op …
        several objects in one process; op = `N i` (construct object i), `B i k v …` (bind on object i),
        `C i` (call object i) → `i=result` per call: Model.runW \t each object's own Spec run
-/
namespace PlasVerif.Driver.C15
open PlasVerif.Driver PlasVerif.Model.Filenames PlasVerif.Spec.Filenames

def str? (w : String) : Option Str :=
  if w.startsWith "s" then
    let body := (w.drop 1).toString
    if body.isEmpty then some [] else (body.splitOn ",").mapM String.toNat?
  else none

def showStr (s : Str) : String := "s" ++ ",".intercalate (s.map toString)

def env? : List String → Option Env
  | [] => some []
  | k :: v :: r => do let k ← str? k; let v ← str? v; let e ← env? r; pure ((k, v) :: e)
  | _ => none

def seg? (w : String) : Option Seg :=
  if w.startsWith "L" then (str? (w.drop 1).toString).map .lit
  else if w.startsWith "V" then (str? (w.drop 1).toString).map (.var · none)
  else if w.startsWith "F" then
    match (w.drop 1).toString.splitOn ":" with
    | [a, b] => do let a ← str? a; let b ← str? b; pure (.var a (some b))
    | _ => none
  else none

/-- (statics, alternatives) -/
def ast? (ws : List String) : Option (List Tmpl × List Tmpl) :=
  (splitAll ";" ws).foldlM (fun (acc : List Tmpl × List Tmpl) part =>
    match part with
    | "S" :: segs => do let t ← segs.mapM seg?; pure (acc.1 ++ [t], acc.2)
    | "A" :: segs => do let t ← segs.mapM seg?; pure (acc.1, acc.2 ++ [t])
    | [] => some acc
    | _ => none) ([], [])

def showResult : Result → String
  | .name s => showStr s
  | .error .valueError => "err:ValueError"
  | .error .indexError => "err:IndexError"

def showItem : Item → String
  | .name s => "N" ++ showStr s
  | .alts xs => "L" ++ "/".intercalate (xs.map showStr)

/-- description of one object of a `multi` case -/
structure GenD where
  cfg : Config
  model : Option State
  spec : Option SState

def genD? : List (List String) → Option GenD
  | [[spec, bad, sub, ext], vars, reserved, ast] => do
    let spec ← str? spec; let bad ← str? bad; let sub ← str? sub; let ext ← str? ext
    let vars ← env? vars; let reserved ← reserved.mapM str?
    let cfg : Config := { bad := bad, sub := sub, ext := ext }
    let sp : Option SState := match ast with
      | ["-"] => none
      | _ => (ast? ast).map fun (st, w) =>
        let (st, w) := if w.isEmpty then (st.dropLast, st.getLast?.toList) else (st, w)
        sinit st w vars reserved
    pure { cfg := cfg, model := (parseTemplate spec).map (initial · vars reserved), spec := sp }
  | _ => none

def chunks4 : List (List String) → List (List (List String))
  | a :: b :: c :: d :: r => [a, b, c, d] :: chunks4 r
  | _ => []

inductive MOp where | new (i : Nat) | bind (i : Nat) (b : Env) | call (i : Nat)

def mop? : List String → Option MOp
  | ["N", i] => i.toNat?.map .new
  | ["C", i] => i.toNat?.map .call
  | "B" :: i :: kv => do let i ← i.toNat?; let b ← env? kv; pure (.bind i b)
  | _ => none

/-- the Spec side: every object answers from its own state and its own pending bindings -/
def specMulti (cfgs : List Config) : List (SState × Env) → List MOp → List String
  | _, [] => []
  | w, .new _ :: ops => specMulti cfgs w ops      -- all objects are in `w` from the start (independent of creation time)
  | w, .bind i b :: ops => specMulti cfgs (modifyAt (fun x => (x.1, x.2 ++ b)) i w) ops
  | w, .call i :: ops =>
    match w[i]?, cfgs[i]? with
    | some (sst, pend), some cfg =>
      let (sst', r) := srequest cfg sst pend
      s!"{i}={showResult r}" :: specMulti cfgs (modifyAt (fun _ => (sst', [])) i w) ops
    | _, _ => "bad" :: specMulti cfgs w ops

def handleMulti (rest : List String) : String :=
  match splitAll "|" rest with
  | [k] :: secs =>
    match k.toNat? with
    | some k =>
      match ((chunks4 (secs.take (4 * k))).mapM genD?), (secs.drop (4 * k)).mapM mop? with
      | some gens, some ops =>
        let model := match gens.mapM (fun (g : GenD) => g.model.map fun st => ({ cfg := g.cfg, st := st } : Gen)) with
          | some gs =>
            let wops := ops.filterMap fun (o : MOp) =>
              match o with
              | MOp.new i => gs[i]?.map WOp.new
              | MOp.bind i b => some (WOp.bind i b)
              | MOp.call i => some (WOp.call i)
            "m:" ++ joinSp ((runW [] wops).map fun (ir : Nat × Result) => s!"{ir.1}={showResult ir.2}")
          | none => "unsupported"
        let spec := match gens.mapM GenD.spec with
          | some ss => "m:" ++ joinSp (specMulti (gens.map GenD.cfg) (ss.map (·, [])) ops)
          | none => "-"
        s!"{model}\t{spec}"
      | _, _ => "bad-op"
    | none => "bad-op"
  | _ => "bad-op"

def handle : List String → String
  | "multi" :: rest => handleMulti rest
  | ["parse", spec] =>
    match str? spec with
    | some s => match parseTemplate s with
      | some items => "p:" ++ joinSp (items.map showItem) ++ "\t-"
      | none => "unsupported\t-"
    | none => "bad-op"
  | ["asis", n, v] =>
    match n.toNat?, str? v with
    | some n, some v =>
      "w:" ++ (match limitWordsAsIs n v with | some r => showStr r | none => "err:IndexError") ++ "\tw:" ++ showStr (limitWords n v)
    | _, _ => "bad-op"
  | "fname" :: spec :: bad :: sub :: ext :: "|" :: rest =>
    match str? spec, str? bad, str? sub, str? ext, splitAll "|" rest with
    | some spec, some bad, some sub, some ext, vars :: reserved :: ast :: reqs =>
      match env? vars, reserved.mapM str?, reqs.mapM env? with
      | some vars, some reserved, some reqs =>
        let cfg : Config := { bad := bad, sub := sub, ext := ext }
        let model := match parseTemplate spec with
          | some items => "h:" ++ joinSp ((results cfg (initial items vars reserved) reqs).map showResult)
          | none => "unsupported"
        let spec := match ast with
          | ["-"] => "-"
          | _ => match ast? ast with
            | some (st, w) =>
              -- the documented rule: without a wildcard the last name is the wildcard
              let (st, w) := if w.isEmpty then (st.dropLast, st.getLast?.toList) else (st, w)
              "h:" ++ joinSp ((srun cfg (sinit st w vars reserved) reqs).map showResult)
            | none => "bad-ast"
        s!"{model}\t{spec}"
      | _, _, _ => "bad-op"
    | _, _, _, _, _ => "bad-op"
  | _ => "bad-op"

end PlasVerif.Driver.C15
