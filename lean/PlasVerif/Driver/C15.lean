import PlasVerif.Driver.Util
import PlasVerif.Spec.Filenames
/-!
Driver for C15.  Strings travel as `s` followed by comma separated decimal code points (`s` = empty).
Streams
  parse <spec>                                  → items of `parseTemplate`
  fname <spec> <bad> <sub> <ext> | k v … | reserved… | ast | k v … | k v … (one section per request)
        ast = `-` (outside the documented grammar) or templates `S seg…` / `A seg…` separated by `;`,
        seg = `L<str>` | `V<str>` | `F<str>:<str>`
        → model results \t spec results
  asis  n <value>                               → word limit of the pinned code (D12) \t repaired
-/
namespace PlasVerif.Driver.C15
open PlasVerif.Driver PlasVerif.Model.Filenames PlasVerif.Spec.Filenames

def str? (w : String) : Option Str :=
  if w.startsWith "s" then
    let body := (w.drop 1).toString
    if body.isEmpty then some [] else (body.splitOn ",").mapM String.toNat?
  else none

def showStr (s : Str) : String := "s" ++ ",".intercalate (s.map toString)

def env? : List String → Option Env
  | [] => some []
  | k :: v :: r => do let k ← str? k; let v ← str? v; let e ← env? r; pure ((k, v) :: e)
  | _ => none

def seg? (w : String) : Option Seg :=
  if w.startsWith "L" then (str? (w.drop 1).toString).map .lit
  else if w.startsWith "V" then (str? (w.drop 1).toString).map (.var · none)
  else if w.startsWith "F" then
    match (w.drop 1).toString.splitOn ":" with
    | [a, b] => do let a ← str? a; let b ← str? b; pure (.var a (some b))
    | _ => none
  else none

/-- (statics, alternatives) -/
def ast? (ws : List String) : Option (List Tmpl × List Tmpl) :=
  (splitAll ";" ws).foldlM (fun (acc : List Tmpl × List Tmpl) part =>
    match part with
    | "S" :: segs => do let t ← segs.mapM seg?; pure (acc.1 ++ [t], acc.2)
    | "A" :: segs => do let t ← segs.mapM seg?; pure (acc.1, acc.2 ++ [t])
    | [] => some acc
    | _ => none) ([], [])

def showResult : Result → String
  | .name s => showStr s
  | .error .valueError => "err:ValueError"
  | .error .indexError => "err:IndexError"

def showItem : Item → String
  | .name s => "N" ++ showStr s
  | .alts xs => "L" ++ "/".intercalate (xs.map showStr)

def handle : List String → String
  | ["parse", spec] =>
    match str? spec with
    | some s => match parseTemplate s with
      | some items => "p:" ++ joinSp (items.map showItem) ++ "\t-"
      | none => "unsupported\t-"
    | none => "bad-op"
  | ["asis", n, v] =>
    match n.toNat?, str? v with
    | some n, some v =>
      "w:" ++ (match limitWordsAsIs n v with | some r => showStr r | none => "err:IndexError") ++ "\tw:" ++ showStr (limitWords n v)
    | _, _ => "bad-op"
  | "fname" :: spec :: bad :: sub :: ext :: "|" :: rest =>
    match str? spec, str? bad, str? sub, str? ext, splitAll "|" rest with
    | some spec, some bad, some sub, some ext, vars :: reserved :: ast :: reqs =>
      match env? vars, reserved.mapM str?, reqs.mapM env? with
      | some vars, some reserved, some reqs =>
        let cfg : Config := { bad := bad, sub := sub, ext := ext }
        let model := match parseTemplate spec with
          | some items => "h:" ++ joinSp ((results cfg (initial items vars reserved) reqs).map showResult)
          | none => "unsupported"
        let spec := match ast with
          | ["-"] => "-"
          | _ => match ast? ast with
            | some (st, w) =>
              -- the documented rule: without a wildcard the last name is the wildcard
              let (st, w) := if w.isEmpty then (st.dropLast, st.getLast?.toList) else (st, w)
              "h:" ++ joinSp ((srun cfg (sinit st w vars reserved) reqs).map showResult)
            | none => "bad-ast"
        s!"{model}\t{spec}"
      | _, _, _ => "bad-op"
    | _, _, _, _, _ => "bad-op"
  | _ => "bad-op"

end PlasVerif.Driver.C15
