import PlasVerif.Driver.Util
import PlasVerif.Spec.Split
import PlasVerif.Model.RenderNames
namespace PlasVerif.Driver.C13
open PlasVerif.Driver PlasVerif.Model.Render PlasVerif.Spec.Split

/-! request:  `split <gen> <split-level> <template code points,comma separated or -> <n tops> <tree>…`
    tree ::= `T <m>` | `E <tag> <level> <0 | 1 = footnote | 2 = node with a unicode equivalent (`str`) | 3 = both> <id|-> <title|-|=> <ref|-|=> <name> <n kids> <tree>…`
    (`-` = absent, `=` = empty string; level `D` = DOCUMENT_LEVEL);  gen ::= `cnt` | `fail<k>` -/

def optStr : String → Option String
  | "-" => none | "=" => some "" | s => some s

def level? (s : String) : Option Int := if s == "D" then some DOCUMENT_LEVEL else s.toInt?

mutual
def parseTree : Nat → List String → Option (Tree × List String)
  | 0, _ => none
  | _ + 1, "T" :: m :: r => do pure (.text (← m.toNat?), r)
  | f + 1, "E" :: tag :: lvl :: ft :: id :: title :: ref :: name :: n :: r => do
    let (ks, r) ← parseTrees f (← n.toNat?) r
    let a : Attrs := { tag := ← tag.toNat?, level := ← level? lvl, foot := ft == "1" || ft == "3", id := optStr id,
                       title := optStr title, ref := optStr ref, name := if name == "=" then "" else name }
    pure (if ft == "2" || ft == "3" then .uni a ks else .elem a ks, r)
  | _, _ => none
def parseTrees : Nat → Nat → List String → Option (List Tree × List String)
  | _, 0, r => some ([], r)
  | 0, _, _ => none
  | f + 1, n + 1, r => do
    let (t, r) ← parseTree f r
    let (ts, r) ← parseTrees f n r
    pure (t :: ts, r)
end

def tokStr : Tok → String
  | .txt m => s!"t{m}" | .op t => s!"o{t}" | .cl t => s!"c{t}" | .mark t => s!"m{t}" | .uni t => s!"u{t}"
  | .lop t => s!"L{t}" | .lcl t => s!"l{t}" | .fop t => s!"F{t}" | .fcl t => s!"f{t}"

def insertFile (f : File String) : List (File String) → List (File String)
  | [] => [f]
  | g :: gs => if f.1 < g.1 then f :: g :: gs else if f.1 == g.1 then f :: gs else g :: insertFile f gs

/-- files as found on disk afterwards: a later write to the same name replaces the earlier one; sorted by name -/
def onDisk (fs : List (File String)) : List (File String) :=
  -- names in sorted order; the content is what the model's `disk` finds under the name
  (fs.foldl (fun acc f => insertFile f acc) []).filterMap fun f => (disk fs f.1).map fun c => (f.1, c)

def filesStr (fs : List (File String)) : String :=
  ";".intercalate ((onDisk fs).map fun f => s!"{f.1}={joinSp (f.2.map tokStr)}")

def o2s : Option String → String
  | none => "-" | some "" => "=" | some s => s

def reqStr (r : Req) : String := s!"{o2s r.id},{o2s r.title},{o2s r.ref},{o2s r.name}"

mutual
def reqs (lvl : Int) : Tree → List Req
  | .text _ => []
  | .elem a ks => if a.level > lvl then reqsL lvl ks else req a :: reqsL lvl ks
  | .uni a ks => if a.level > lvl then reqsL lvl ks else req a :: reqsL lvl ks
def reqsL (lvl : Int) : List Tree → List Req
  | [] => []
  | t :: ts => reqs lvl t ++ reqsL lvl ts
end

/-- what the generator finds in its namespace: since the repair of D22 (`Filenames` resets to the variables given at
    construction, not to those of its first call) exactly the bindings of the request itself -/
def seenAll (rs : List Req) : List Req := rs

def natsStr (xs : List Nat) : String := joinSp (xs.map toString)

def template? (s : String) : Option (List Char) :=
  if s == "-" then some [] else (s.splitOn ",").mapM fun w => w.toNat?.map Char.ofNat

def isDocTree : Tree → Bool
  | .text _ => false
  | .elem a _ => a.level == DOCUMENT_LEVEL
  | .uni a _ => a.level == DOCUMENT_LEVEL

/-- the split stream's configuration: default forbidden characters, substitute `-`, extension `.html` -/
def realCfg : PlasVerif.Model.Filenames.Config :=
  { bad := PlasVerif.Model.RenderNames.strOf ": #$%^&*!~`\"'=?/{}[]()|<>;\\,.",
    sub := PlasVerif.Model.RenderNames.strOf "-", ext := PlasVerif.Model.RenderNames.strOf ".html" }

def strStr (s : List Nat) : String := ",".intercalate (s.map toString)

/-- the same rendering with the model of `Filenames` (C15) as the name supply: the real names in issue order
    (`-` = template outside the C15 model) -/
def realNames (split : Int) (tmpl : List Char) (tops : List Tree) : String :=
  match PlasVerif.Model.RenderNames.newFilename tmpl "job" with
  | none => "-"
  | some st =>
    match run (PlasVerif.Model.RenderNames.filenamesGen realCfg) st
        ((if documentNode.level > effLevel split tmpl then [] else [req documentNode]) ++ reqsL (effLevel split tmpl) tops) with
    | .error _ => "err:ValueError"
    | .ok (ns, _) => "names " ++ joinSp (ns.map strStr)

def handle : List String → String
  | "split" :: gen :: split :: tmpl :: n :: ws =>
    match split.toInt?, template? tmpl, n.toNat? with
    | some split, some tmpl, some n =>
      match parseTrees (ws.length + 2) n ws with
      | some (tops, []) =>
        let die : Option Nat := if gen.startsWith "fail" then (gen.drop 4).toString.toNat? else none
        let lvl := effLevel split tmpl
        let rq := (if documentNode.level > lvl then [] else [req documentNode]) ++ reqsL lvl tops
        let model := match render (counterGen die) 0 split tmpl tops with
          | .error .valueError => s!"err:ValueError"
          | .ok fs => s!"ok {filesStr fs} # {joinSp ((seenAll rq).map reqStr)}"
        -- the property's prescription, when the document is in its domain
        let inDomain := die.isNone && lvl < 100 && wfL lvl tops && tops.all (fun t => isDocRoot t || (units lvl t).isEmpty)
            && (decide (DOCUMENT_LEVEL ≤ lvl) || footFreeL lvl false tops)
        let spec := if inDomain then
            let us := unitsL lvl tops
            ";".intercalate ((List.range us.length).zip us |>.map fun (k, u) =>
              s!"f{k}=L{u.attrs.tag}:{natsStr u.body}|{natsStr u.foot}")
          else "-"
        s!"{model}\t{spec}\t{lvl}\t{realNames split tmpl tops}"
      | _ => "bad-op"
    | _, _, _ => "bad-op"
  | _ => "bad-op"

end PlasVerif.Driver.C13
