import PlasVerif.Driver.Util
import PlasVerif.Spec.Isolation
import PlasVerif.Model.ClassCache
import PlasVerif.Model.Holders
import PlasVerif.Model.FileLookup
namespace PlasVerif.Driver.C17
open PlasVerif.Driver PlasVerif.Model.GlobalState PlasVerif.Spec.Isolation PlasVerif.Generated.GlobalState

def b01 (b : Bool) : String := if b then "1" else "0"
def bit? : String → Option Bool
  | "1" => some true | "0" => some false | _ => none

def tyStr : ArgTy → String
  | .number => "number" | .dimen => "dimen" | .tok => "tok" | .args => "args" | .any => "any"
  | .optnone => "optnone" | .normal => "normal" | .numreg => "numreg" | .dimenreg => "dimenreg" | .gluereg => "gluereg" | .glue => "glue"
def ty? : String → Option ArgTy
  | "number" => some .number | "dimen" => some .dimen | "tok" => some .tok | "args" => some .args
  | "any" => some .any | "optnone" => some .optnone | "normal" => some .normal
  | "numreg" => some .numreg | "dimenreg" => some .dimenreg | "gluereg" => some .gluereg | "glue" => some .glue | _ => none
def clsStr : Cls → String
  | .article => "article" | .book => "book" | .report => "report"
def cls? : String → Option Cls
  | "article" => some .article | "book" => some .book | "report" => some .report | _ => none
def mkStr : MK → String
  | .math => "m" | .display => "d"

def ev? (w : String) : Option Ev :=
  match w.splitOn ":" with
  | ["D"] => some .dollar
  | ["bo"] => some .boxOpen | ["bc"] => some .boxClose
  | ["lb"] => some .listBegin | ["le"] => some .listEnd | ["it"] => some .item
  | ["as", r, x] | ["as", r, x, _] => do pure (.assign (← r.toNat?) (← x.toInt?))     -- 4th field: spelling of the literal
  | ["cp", r, q] => do pure (.copy (← r.toNat?) (← q.toNat?))
  | ["us", r] => do pure (.use (← r.toNat?))
  | ["ar", t] | ["ar", t, _] => do pure (.arg (← ty? t))
  | ["dc", c] => do pure (.docclass (← cls? c))
  | ["ix"] => some .printindex
  | ["nc", n] => do pure (.newcol (← n.toNat?))
  | ["uc", n] => do pure (.usecol (← n.toNat?))
  | ["if"] => some .ifthen | ["pm"] => some .paren | ["nd"] => some .node
  | _ => none

def outStr : Out → String
  | .mopen k => s!"mo:{mkStr k}" | .mclose k => s!"mc:{mkStr k}"
  | .bo => "bo" | .bc => "bc" | .lb => "lb" | .le => "le" | .item i => s!"it:{i}"
  | .asg r x => s!"as:{r}:{x}" | .asg0 r => s!"as0:{r}" | .text x => s!"tx:{x}" | .eqsign => "tx:=" | .use r x => s!"us:{r}:{x}"
  | .arg t => s!"ar:{tyStr t}" | .dc c => s!"dc:{clsStr c}" | .idx b => s!"ix:{b01 b}"
  | .newcol n => s!"nc:{n}" | .col n k => s!"uc:{n}:{b01 k}"
  | .paren b e => s!"pm:{b01 b}{b01 e}" | .node k => s!"nd:{k}" | .unk => "unk"

/-- the observation keeps only what is visible in the top-level token stream: the content of an
    `\hbox{…}` argument is digested into the box element -/
def visible : Nat → List Out → List Out
  | _, [] => []
  | d, .bo :: os => if d = 0 then .bo :: visible (d + 1) os else visible (d + 1) os
  | d, .bc :: os => if d ≤ 1 then .bc :: visible 0 os else visible (d - 1) os
  | d, o :: os => if d = 0 then o :: visible d os else visible d os

def envStr (e : List (Option MK)) : String :=
  if e.isEmpty then "-" else String.join (e.map fun | none => "n" | some k => mkStr k)

def env? (s : String) : Option (List (Option MK)) :=
  if s == "-" then some [] else
  s.toList.mapM fun c => if c == 'n' then some none else if c == 'm' then some (some .math)
    else if c == 'd' then some (some .display) else none

def csvInts (xs : List Int) : String := if xs.isEmpty then "-" else ",".intercalate (xs.map toString)
def csvNats (xs : List Nat) : String := if xs.isEmpty then "-" else ",".intercalate (xs.map toString)
def ints? (s : String) : Option (List Int) := if s == "-" then some [] else (s.splitOn ",").mapM String.toInt?
def nats? (s : String) : Option (List Nat) := if s == "-" then some [] else (s.splitOn ",").mapM String.toNat?

def insertSorted (n : Nat) : List Nat → List Nat
  | [] => [n]
  | x :: xs => if n < x then n :: x :: xs else if n = x then x :: xs else x :: insertSorted n xs
def extraCols (cols : List Nat) : List Nat :=
  (cols.filter (fun n => !(defaultCols.contains n))).foldr insertSorted []

def snapStr (g : G) (wr wi wc : Bool) : String :=
  let regs := if wr then "*" else csvInts g.regs
  let ix := if wi then "*" else b01 g.idxSec
  let cols := if wc then "*" else csvNats (extraCols g.cols)
  s!"en={b01 g.enabled} lv={g.level} db={b01 g.disBegin} de={b01 g.disEnd} env={envStr g.inEnv} dp={g.depth} regs={regs} ix={ix} cols={cols}"

def variant? (s : String) : Option Variant :=
  match s.toList.map (fun c => bit? c.toString) with
  | [some a, some b, some c, some d, some e] => some ⟨a, b, c, d, e⟩
  | _ => none

def state? : List String → Option G
  | ["I"] => some init
  | ["S", en, lv, db, de, dp, ix, e, r, c] => do
    let e ← env? (e.drop 1).toString
    let r ← ints? (r.drop 1).toString
    let c ← nats? (c.drop 1).toString
    pure { enabled := ← bit? en, level := ← lv.toInt?, disBegin := ← bit? db, disEnd := ← bit? de,
           inEnv := e, depth := ← dp.toInt?, regs := r, idxSec := ← bit? ix, cols := defaultCols ++ c }
  | _ => none

def traceStr (os : List Out) : String :=
  let ws := (visible 0 os).map outStr
  if ws.isEmpty then "-" else joinSp ws

/-- model: the documents one after the other -/
def runModel (v : Variant) : Interp → List (List Ev) → List String
  | _, [] => []
  | st, d :: ds =>
    let r := process v st d
    s!"{traceStr r.2} # {snapStr r.1.1 false false false}" :: runModel v r.1 ds

/-- property oracle: every document as if it were alone in a fresh interpreter, and the initial
    class-level state after it (a field the last document is known to change is left open) -/
def runSpec (v : Variant) : List (List Ev) → List String
  | [] => []
  | d :: ds =>
    let last := ds.isEmpty
    let wr := last && !v.regsDoc && assignsReg d
    let wi := last && !v.classDoc && patchesClass d
    let wc := last && !v.colsDoc && definesCol d
    s!"{traceStr (canon (process v fresh d).2)} # {snapStr init wr wi wc}" :: runSpec v ds

/-- oracle of stream `gread` (theorem `isolation_partial_reads`): earlier documents may assign registers and define
    column types; every document that reads none of those must still give the trace it gives alone, and after it only
    the registers / column types written so far may differ from their initial values -/
def runSpecReads (v : Variant) : List (List Ev) → List (List Ev) → Option (List String)
  | _, [] => some []
  | prev, d :: ds =>
    if Unobserved prev d then do
      let all := prev ++ [d]
      let wr := !v.regsDoc && all.any assignsReg
      let wi := !v.classDoc && all.any patchesClass
      let wc := !v.colsDoc && all.any definesCol
      let rest ← runSpecReads v all ds
      pure (s!"{traceStr (canon (process v fresh d).2)} # {snapStr init wr wi wc}" :: rest)
    else none

/-! stream `ccache`:  `<inherit bit> c<id>:<mro ids, most derived first>:<own k=v,..|-> … | <ids looked up>` -/
section CC
open PlasVerif.Model.ClassCache

def kv? (s : String) : Option (Nat × Nat) :=
  match s.splitOn "=" with
  | [k, v] => do pure (← k.toNat?, ← v.toNat?)
  | _ => none

def cls3? (w : String) : Option (Nat × List Nat × Table) :=
  match w.splitOn ":" with
  | [c, m, o] => do
    let c ← (c.drop 1).toString.toNat?
    let m ← nats? m
    let o ← if o == "-" then some [] else (o.splitOn ",").mapM kv?
    pure (c, m, o)
  | _ => none

def tableStr (t : Table) : String :=
  let ks := (t.map (·.1)).foldr insertSorted []
  if ks.isEmpty then "-" else ",".intercalate (ks.map fun k => s!"{k}={(t.lookup k).getD 0}")

def handleCC (inh : String) (rest : List String) : String :=
  let (cw, lw) := splitAt1 "|" rest
  match bit? inh, cw.mapM cls3?, natList? lw with
  | some i, some cs, some ls =>
    let mro : Nat → List Nat := fun c => ((cs.lookup c).map (·.1)).getD [c]
    let own : Nat → Table := fun c => ((cs.lookup c).map (·.2)).getD []
    let f := computeLocals mro own
    let model := (lookups i mro f [] ls).2
    s!"{" ; ".intercalate (model.map tableStr)}\t{" ; ".intercalate ((ls.map f).map tableStr)}"
  | _, _, _ => "bad-op"
end CC

/-! stream `holders`:  `E<a>b,a>b,…|-> A<ids> B<ids>`  → objects reachable from both root sets -/
def edge? (s : String) : Option (Nat × Nat) :=
  match s.splitOn ">" with
  | [a, b] => do pure (← a.toNat?, ← b.toNat?)
  | _ => none

def handleHolders : List String → String
  | [e, a, b] =>
    let es := (e.drop 1).toString
    match (if es == "-" then some [] else (es.splitOn ",").mapM edge?), nats? (a.drop 1).toString, nats? (b.drop 1).toString with
    | some edges, some ra, some rb => s!"shared:{csvNats (PlasVerif.Model.Holders.shared edges ra rb)}\tshared:-"
    | _, _, _ => "bad-op"
  | _ => "bad-op"

/-! stream `kpse`:  `F<d.n,d.n,…|-> | <ti csv|-> <src|-> <abs 0/1> <name> ; …`  → per request `f<dir>|as|nf` and whether
    TEXINPUTS is what it was -/
section KP
open PlasVerif.Model.FileLookup

def file? (s : String) : Option (Nat × Nat) :=
  match s.splitOn "." with
  | [d, n] => do pure (← d.toNat?, ← n.toNat?)
  | _ => none

def resStrK : Res → String
  | .found d => s!"f{d}" | .asis => "as" | .notFound => "nf"

def req? : List String → Option (List Nat × Req)
  | [ti, src, ab, name] => do
    let ti ← nats? ti
    let src ← if src == "-" then some none else (src.toNat?).map some
    pure (ti, { name := ← name.toNat?, abs := ← bit? ab, src := src })
  | _ => none

def handleKpse (rest : List String) : String :=
  let (fw, rw) := splitAt1 "|" rest
  match fw, (splitAll ";" rw).mapM req? with
  | [f], some reqs =>
    let fs := (f.drop 1).toString
    match (if fs == "-" then some [] else (fs.splitOn ",").mapM file?) with
    | some files =>
      let outs := reqs.map fun q =>
        let r := kpsewhich files q.1 q.2
        s!"{resStrK r.1}:{if r.2 == q.1 then "e1" else "e0"}"
      let spec := reqs.map fun q => s!"{resStrK (find files q.1 q.2)}:e1"
      s!"{" ; ".intercalate outs}\t{" ; ".intercalate spec}"
    | none => "bad-op"
  | _, _ => "bad-op"
end KP

def handle : List String → String
  | "gread" :: vb :: rest =>
    let (st, docs) := splitAt1 "|" rest
    match variant? vb, state? st, (splitAll ";" docs).mapM (fun ws => ws.mapM ev?) with
    | some v, some g, some ds =>
      let model := " ; ".intercalate (runModel v (g, 0) ds)
      let spec := if st == ["I"] then ((runSpecReads v [] ds).map (" ; ".intercalate ·)).getD "-" else "-"
      s!"{model}\t{spec}"
    | _, _, _ => "bad-op"
  | "gstate" :: vb :: rest | "gleak" :: vb :: rest =>
    let (st, docs) := splitAt1 "|" rest
    match variant? vb, state? st, (splitAll ";" docs).mapM (fun ws => ws.mapM ev?) with
    | some v, some g, some ds =>
      let model := " ; ".intercalate (runModel v (g, 0) ds)
      let spec := if st == ["I"] then " ; ".intercalate (runSpec v ds) else "-"
      s!"{model}\t{spec}"
    | _, _, _ => "bad-op"
  | "ccache" :: inh :: rest => handleCC inh rest
  | "holders" :: rest => handleHolders rest
  | "kpse" :: rest => handleKpse rest
  | _ => "bad-op"

end PlasVerif.Driver.C17
