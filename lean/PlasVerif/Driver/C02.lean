import PlasVerif.Driver.Util
import PlasVerif.Model.Tokenizer
import PlasVerif.Model.Macro
import PlasVerif.Spec.TeXMacro
namespace PlasVerif.Driver.C02
open PlasVerif.Driver PlasVerif.Model.Macro PlasVerif.Spec.TeXMacro

/-! token words: `c<cat>:<code>` | `s<c1>,<c2>…` (control sequence; `s` = empty name) | `e<c1>,…` (element) -/

def namStr (n : List Nat) : String := ",".intercalate (n.map toString)

def tokStr : Tok → String
  | .ch cat c => s!"c{cat}:{c}"
  | .cs n => "s" ++ namStr n
  | .el n => "e" ++ namStr n

def nam? (s : String) : Option (List Nat) :=
  if s.isEmpty then some [] else (s.splitOn ",").mapM String.toNat?

def tok? (w : String) : Option Tok :=
  let body := (w.drop 1).toString
  if w.startsWith "c" then
    match body.splitOn ":" with
    | [a, b] => do pure (.ch (← a.toNat?) (← b.toNat?))
    | _ => none
  else if w.startsWith "s" then (nam? body).map .cs
  else if w.startsWith "e" then (nam? body).map .el
  else none

def toks? (ws : List String) : Option (List Tok) := ws.mapM tok?
def toksStr (ts : List Tok) : String := joinSp (ts.map tokStr)

def errStr : Err → String
  | .valueError => "err:ValueError" | .typeError => "err:TypeError" | .indexError => "err:IndexError"
  | .attributeError => "err:AttributeError" | .hang => "err:timeout" | .fuel => "err:fuel"
  | .unsupported => "err:unsupported"

def callStr : Except Err (List Tok × List Tok) → String
  | .ok (e, r) => s!"ok:{toksStr e} / {toksStr r}"
  | .error e => errStr e

def tcallStr : Except TErr (List Tok × List Tok) → String
  | .ok (e, r) => s!"ok:{toksStr e} / {toksStr r}"
  | .error _ => "-"

/-- a parameter value: `N` = None, otherwise its tokens -/
def param? (ws : List String) : Option (Option (List Tok)) :=
  match ws with
  | ["N"] => some none
  | ws => (toks? ws).map some

def noIfxBeforePar : List Tok → Bool
  | t :: u :: rest => !(isIfx t && u.isParam) && noIfxBeforePar (u :: rest)
  | _ => true

def fromC01 : PlasVerif.Model.Tokenizer.Tok → Tok
  | .ch cat c => .ch cat c
  | .space => .ch 10 32
  | .cs n => .cs n

def visStr : Except Err (List Nat) → String
  | .ok v => "ok:" ++ showNats v
  | .error e => errStr e

def tvisStr : Except TErr (List Nat) → String
  | .ok v => "ok:" ++ showNats v
  | .error .fuel => "-fuel"
  | .error (.outside why) => "-" ++ why.replace " " "_" |>.replace "\t" "_"

def paramsStr (ps : Params) : String :=
  " | ".intercalate (ps.map fun | none => "N" | some p => toksStr p)

def handle : List String → String
  | "subst" :: ws =>
    match splitAll "|" ws with
    | bodyW :: psW =>
      match toks? bodyW, psW.mapM param? with
      | some body, some ps =>
        let m := match substBody body (none :: ps) with
          | .ok o => "ok:" ++ toksStr o
          | .error e => errStr e
        let sp := match parseBody ps.length body with
          | some items =>
            if ps.all Option.isSome && noIfxBeforePar body then "ok:" ++ toksStr (texSubst items (ps.map (fun (o : Option (List Tok)) => o.getD []))) else "-"
          | none => "-"
        s!"{m}\t{sp}"
      | _, _ => "bad-op"
    | _ => "bad-op"
  | "match" :: ws =>
    match splitAll "|" ws with
    | [argsW, bodyW, sW] =>
      match toks? argsW, toks? bodyW, toks? sW with
      | some args, some body, some s =>
        let m := callStr (invokeDef args body s)
        let asis := callStr (invokeDefAsIs args body s)
        let sp := match parsePText args with
          | some pt => match parseBody pt.params.length body with
            | some items =>
              -- a parameterless macro returns its stored text unchanged (`##` is undoubled later by the inner `\def`)
              if noIfxBeforePar body && !(args.isEmpty && body.any Tok.isParam) then tcallStr (texCall pt items s) else "-"
            | none => "-"
          | none => "-"
        s!"{m}\t{sp}\t{asis}"
      | _, _, _ => "bad-op"
    | _ => "bad-op"
  | "params" :: ws =>
    -- the parameter list alone (Definition.invoke up to expandDef)
    match splitAll "|" ws with
    | [argsW, sW] =>
      match toks? argsW, toks? sW with
      | some args, some s =>
        match matchPattern args s with
        | .ok (ps, r) => s!"ok:{paramsStr ps} / {toksStr r}\t-"
        | .error e => s!"{errStr e}\t-"
      | _, _ => "bad-op"
    | _ => "bad-op"
  | "newcmd" :: nargsW :: ws =>
    match splitAll "|" ws with
    | [optW, bodyW, sW] =>
      match nargsW.toNat?, param? optW, toks? bodyW, toks? sW with
      | some nargs, some opt, some body, some s =>
        let m := callStr (invokeNewcommand nargs opt body s)
        let sp := match parseBody nargs body with
          | some items =>
            if noIfxBeforePar body && (opt.isNone || nargs ≥ 1) then tcallStr (texLatexCall nargs opt items s) else "-"
          | none => "-"
        s!"{m}\t{sp}"
      | _, _, _, _ => "bad-op"
    | _ => "bad-op"
  | "defparse" :: ws =>
    match toks? ws with
    | some s =>
      let m := match readDefParts s with
        | .ok d => s!"ok:{namStr d.name} / {toksStr d.args} / {match d.body with | none => "N" | some b => toksStr b} / {toksStr d.rest}"
        | .error e => errStr e
      -- property side: what TeX stores, rendered back (no nested `#` levels in this stream)
      let sp := match texReadDef s with
        | .ok (n, .macro pt b, rest) => s!"ok:{namStr n} / {toksStr (renderPText pt)} / {toksStr (renderBody b)} / {toksStr rest}"
        | _ => "-"
      s!"{m}\t{sp}"
    | none => "bad-op"
  | "prog" :: fuelW :: ws =>
    match fuelW.toNat?, natList? ws with
    | some fuel, some cps =>
      let toks := (PlasVerif.Model.Tokenizer.tokenize PlasVerif.Model.Catcodes.defaultCats cps).map fromC01
      -- aux: the repaired variant of the known finding D49 (the correspondence accepts either, the as-is one is replayed)
      -- aux 2: the evaluator restricted to the proved fragment (`run_eq_texRun_language_partial`): `texRun fragOk` on all primitives
      -- the model gets 3·fuel+10: it spends up to two units per expansion where the Spec spends one, so it never runs out
      -- of fuel on a program on which the Spec succeeds (cf. `run_eq_texRun_language_partial`: "for all sufficiently large fuel");
      -- aux 3 repeats the Spec's answer for the implementation runner (time limits)
      -- the oracle is the macro language WITH `\ifx` (`texProgramC`); aux 4 = the same without conditionals (`texProgram`, the
      -- evaluator of the program-level theorems): where it is defined the two must agree
      let sp := tvisStr (texProgramC fuel toks)
      s!"{visStr (runProgram (3 * fuel + 10) toks)}\t{sp}\t{visStr (runProgramRepaired (3 * fuel + 10) toks)}\t{tvisStr (texRun fragOk fuel ⟨toks, condTable, []⟩)}\t{sp}\t{tvisStr (texProgram fuel toks)}"
    | _, _ => "bad-op"
  | "progt" :: fuelW :: ws =>
    -- the same on an explicit token list
    match fuelW.toNat?, toks? ws with
    | some fuel, some toks =>
      let sp := tvisStr (texProgramC fuel toks)
      s!"{visStr (runProgram (3 * fuel + 10) toks)}\t{sp}\t{visStr (runProgramRepaired (3 * fuel + 10) toks)}\t{tvisStr (texRun fragOk fuel ⟨toks, condTable, []⟩)}\t{sp}\t{tvisStr (texProgram fuel toks)}"
    | _, _ => "bad-op"
  | _ => "bad-op"

end PlasVerif.Driver.C02
