import PlasVerif.Driver.Util
import PlasVerif.Spec.LabelStore
/-!
Driver for C20.  Values travel as prefix-coded words (strings as `.`-joined decimal code points):
  val  ::= N | T | F | i<int> | s<cps> | o1 | o0 | L<n> val* | D<n> (key val)*
  key  ::= ks<cps> | ki<int> | kN
  file ::= M | U | V val                      (missing / `pickle.load` raised / what it returned, by shape)
  sval ::= - | n<cps> | val                   (None / a DOM node rendering to the string / plain value)
  src  ::= P<n> (l<cps> A<m> (a<cps> sval)*)*  (persistentLabels)
The codec of the driver is `Bytes := Option Val`, `enc = some`, `dec = id` (it satisfies the one assumed law);
`U` is the byte string on which `dec` fails.
streams
  persist r src file           → model: ok <val of the dumped dict> | err:<kind>      spec: D<n> of the bindings the section must hold
  persistasis …                → the same for the pinned code (model only)
  restore r file               → model: ok <labels>                                  spec: -
  restoreasis r file           → pinned code (model only)
  rt r src file                → model: labels restored from the file `persist` wrote spec: bindings label ↦ {slot ↦ value} that must be there (`-` unless SrcWF)
  hist r file op*              → op ::= S r src | C file ; model: labels a run under r restores at the end
                                 spec: bindings of the last `S r` with no later `C` (`-` if none / not SrcWF)
-/
namespace PlasVerif.Driver.C20
open PlasVerif.Driver PlasVerif.Model.Persist PlasVerif.Spec.LabelStore PlasVerif.Generated.Persist

def cps (s : String) : String := ".".intercalate (s.toList.map (fun c => toString c.toNat))

def uncps (s : String) : Option String :=
  if s.isEmpty then some "" else
  (s.splitOn ".").mapM (fun (w : String) => w.toNat?.map Char.ofNat) |>.map String.ofList

def showKey : Key → String
  | .str s => "ks" ++ cps s | .int i => s!"ki{i}" | .none => "kN"

mutual
def showVal : Val → String
  | .none => "N" | .bool b => if b then "T" else "F" | .int i => s!"i{i}" | .str s => "s" ++ cps s
  | .other t => if t then "o1" else "o0"
  | .list xs => s!"L{xs.length}" ++ showL xs
  | .dict kvs => s!"D{kvs.length}" ++ showD kvs
def showL : List Val → String
  | [] => "" | v :: r => " " ++ showVal v ++ showL r
def showD : List (Key × Val) → String
  | [] => "" | (k, v) :: r => " " ++ showKey k ++ " " ++ showVal v ++ showD r
end

def parseKey (w : String) : Option Key :=
  if w == "kN" then some .none
  else if w.startsWith "ks" then (uncps (w.drop 2).toString).map .str
  else if w.startsWith "ki" then (w.drop 2).toString.toInt?.map .int
  else none

mutual
def parseVal : Nat → List String → Option (Val × List String)
  | 0, _ => none
  | _, [] => none
  | f + 1, w :: r =>
    if w == "N" then some (.none, r) else if w == "T" then some (.bool true, r) else if w == "F" then some (.bool false, r)
    else if w == "o1" then some (.other true, r) else if w == "o0" then some (.other false, r)
    else if w.startsWith "i" then (w.drop 1).toString.toInt?.map (fun i => (.int i, r))
    else if w.startsWith "s" then (uncps (w.drop 1).toString).map (fun s => (.str s, r))
    else if w.startsWith "L" then do
      let n ← (w.drop 1).toString.toNat?
      let (xs, r) ← parseVals f n r
      pure (.list xs, r)
    else if w.startsWith "D" then do
      let n ← (w.drop 1).toString.toNat?
      let (kvs, r) ← parseKVs f n r
      pure (.dict kvs, r)
    else none
def parseVals : Nat → Nat → List String → Option (List Val × List String)
  | 0, _, _ => none
  | _, 0, r => some ([], r)
  | f + 1, n + 1, r => do
    let (v, r) ← parseVal f r
    let (vs, r) ← parseVals f n r
    pure (v :: vs, r)
def parseKVs : Nat → Nat → List String → Option (List (Key × Val) × List String)
  | 0, _, _ => none
  | _, 0, r => some ([], r)
  | _, _ + 1, [] => none
  | f + 1, n + 1, kw :: r => do
    let k ← parseKey kw
    let (v, r) ← parseVal f r
    let (kvs, r) ← parseKVs f n r
    pure ((k, v) :: kvs, r)
end

abbrev B := Option Val
def codec : Codec B := ⟨some, id⟩

def parseFile (ws : List String) : Option (File B × List String) :=
  match ws with
  | "M" :: r => some (.missing, r)
  | "U" :: r => some (.bytes none, r)
  | "V" :: r => do let (v, r) ← parseVal (ws.length + 2) r; pure (.bytes (some v), r)
  | _ => none

def parseSVal (ws : List String) : Option (SrcVal × List String) :=
  match ws with
  | [] => none
  | w :: r =>
    if w == "-" then some (.none, r)
    else if w.startsWith "n" then (uncps (w.drop 1).toString).map (fun s => (.node s, r))
    else if w.startsWith "t" then (uncps (w.drop 1).toString).map (fun s => (.text s, r))
    else do let (v, r) ← parseVal (ws.length + 2) ws; pure (.val v, r)

def parseAttrs : Nat → List String → Option (SrcNode × List String)
  | 0, r => some ([], r)
  | n + 1, aw :: r => do
    if !aw.startsWith "a" then none
    let name ← uncps (aw.drop 1).toString
    let (sv, r) ← parseSVal r
    let (rest, r) ← parseAttrs n r
    pure ((name, sv) :: rest, r)
  | _ + 1, [] => none

def parseLabels : Nat → List String → Option (Src × List String)
  | 0, r => some ([], r)
  | n + 1, lw :: aw :: r => do
    if !lw.startsWith "l" || !aw.startsWith "A" then none
    let label ← uncps (lw.drop 1).toString
    let m ← (aw.drop 1).toString.toNat?
    let (node, r) ← parseAttrs m r
    let (rest, r) ← parseLabels n r
    pure ((label, node) :: rest, r)
  | _ + 1, _ => none

def parseSrc (ws : List String) : Option (Src × List String) :=
  match ws with
  | pw :: r => if pw.startsWith "P" then do let n ← (pw.drop 1).toString.toNat?; parseLabels n r else none
  | [] => none

def errStr : Err → String
  | .typeError => "err:TypeError" | .attributeError => "err:AttributeError" | .keyError => "err:KeyError"
  | .unpickling => "err:UnpicklingError"

def fileStr : Except Err (File B) → String
  | .ok .missing => "ok M"
  | .ok (.bytes none) => "ok U"
  | .ok (.bytes (some v)) => "ok " ++ showVal v
  | .error e => errStr e

def labelsVal (L : Labels) : Val :=
  .dict (L.map (fun kn => (kn.1, .dict (kn.2.map (fun av => (Key.str av.1, av.2))))))

def labelsStr : Except Err Labels → String
  | .ok L => "ok " ++ showVal (labelsVal L)
  | .error e => errStr e

/-- Spec oracle, persist: the bindings the renderer section must contain: number, title and target of every label
    (the property's own three data), and whatever else `refAttributes` lists, `None` skipped, nodes as their rendering -/
def expectSection (src : Src) : Val :=
  .dict (src.map (fun kn => (Key.str kn.1, .dict ((refAttributes ++ readerSlots.map (·.1)).filterMap (fun name =>
    (persistVal (getattrSrc kn.2 name)).map (fun v => (Key.str name, v)))))))

/-- Spec oracle, round trip: label ↦ {slot ↦ value} that a later run must see (the reader's slots for number, title,
    target are fixed by the spec, not derived from the code's tables) -/
def expectLabels (src : Src) : Val :=
  .dict (src.map (fun kn => (Key.str kn.1, .dict (
    refAttributes.filterMap (fun name =>
      (persistVal (getattrSrc kn.2 name)).map (fun v => (Key.str (slotOf (.str name)), v))) ++
    readerSlots.filterMap (fun ns =>
      (persistVal (getattrSrc kn.2 ns.1)).map (fun v => (Key.str ns.2, v)))))))

def srcWFb (src : Src) : Bool := decide ((keys src).Nodup) && src.all (fun kn => srcOkB kn.2)

inductive HOp where
  | save (r : String) (src : Src) | clobber (f : File B)

def parseOps : Nat → List String → Option (List HOp)
  | 0, _ => none
  | _, [] => some []
  | f + 1, "S" :: rw :: r => do
    let rn ← uncps rw
    let (src, r) ← parseSrc r
    let rest ← parseOps f r
    pure (.save rn src :: rest)
  | f + 1, "C" :: r => do
    let (fl, r) ← parseFile r
    let rest ← parseOps f r
    pure (.clobber fl :: rest)
  | _, _ => none

def toOp : HOp → Op B
  | .save r s => .save r s | .clobber f => .clobber f

/-- the label set the property says must be visible under `r` at the end (scanning from the end) -/
def lastSaved (r : String) : List HOp → Option Src
  | [] => none
  | op :: rest =>
    match lastSaved r rest with
    | some s => some s
    | none =>
      if rest.any (fun o => match o with | .clobber _ => true | .save r' _ => r' == r) then none
      else match op with
        | .save r' s => if r' == r then some s else none
        | .clobber _ => none


/-! ### "never invented": the labels that may legitimately be present -/

/-- keys of the section of `r` in a file (empty unless the file decodes to a dict with a dict section) -/
def sectionKeys (r : String) : File B → List Key
  | .bytes (some (.dict kvs)) =>
    match aget (.str r) (toDict kvs) with
    | some (.dict sec) => keys (toDict sec)
    | _ => []
  | _ => []

/-- keys of every section of a file -/
def allSectionKeys : File B → List Key
  | .bytes (some (.dict kvs)) => (toDict kvs).flatMap (fun kv => match kv.2 with | .dict sec => keys (toDict sec) | _ => [])
  | _ => []

def srcKeys (src : Src) : List Key := src.map (fun kn => Key.str kn.1)

def showKeys (ks : List Key) : String := if ks.isEmpty then "none" else joinSp (ks.map showKey)

def histAllowed (r : String) : List HOp → List Key
  | [] => []
  | .save r' s :: rest => (if r' == r then srcKeys s else []) ++ histAllowed r rest
  | .clobber f :: rest => sectionKeys r f ++ histAllowed r rest

def prefixKeys (pfx : String) (ks : List Key) : List Key :=
  ks.filterMap (fun k => match k with | .str l => some (.str (pfx ++ l)) | _ => none)

def parseUrl (w : String) : Option (Option String) :=
  if w == "-" then some none else (uncps w).map some

/-- Spec oracle, xr round trip: `prefix + label` ↦ the saved record (number, title, target and whatever else
    `refAttributes` lists; the target with the `url` option prepended).  A label whose target cannot take the
    option (no string target) is not expected. -/
def expectXr (pfx : String) (url : Option String) (src : Src) : Val :=
  .dict (src.filterMap (fun kn =>
    let rcd := (refAttributes ++ readerSlots.map (·.1)).filterMap (fun name =>
      (persistVal (getattrSrc kn.2 name)).map (fun v => (Key.str name, v)))
    match url with
    | none => some (Key.str (pfx ++ kn.1), .dict rcd)
    | some u =>
      match persistVal (getattrSrc kn.2 "url") with
      | some (.str s) => some (Key.str (pfx ++ kn.1), .dict (rcd.map (fun kv => if kv.1 = Key.str "url" then (kv.1, Val.str (u ++ s)) else kv)))
      | _ => none))


/-! ### `url` stream: one node asked for its target in successive renders -/

def optStrWord (w : String) : Option (Option String) :=
  if w == "N" then some none
  else if w.startsWith "s" then (uncps (w.drop 1).toString).map some
  else none

def parseAnc : Nat → List String → Option (List (Option String) × List String)
  | 0, r => some ([], r)
  | n + 1, w :: r => do
    let a ← optStrWord w
    let (rest, r) ← parseAnc n r
    pure (a :: rest, r)
  | _ + 1, [] => none

def parseViews : Nat → List String → Option (List RenderView)
  | 0, _ => none
  | _, [] => some []
  | f + 1, "R" :: bw :: ow :: nw :: r => do
    let b ← optStrWord bw
    let o ← optStrWord ow
    let n ← nw.toNat?
    let (anc, r) ← parseAnc n r
    let rest ← parseViews f r
    pure (⟨b.getD "", o, anc⟩ :: rest)
  | _, _ => none

def showStrs (xs : List String) : String := if xs.isEmpty then "none" else joinSp (xs.map (fun x => "s" ++ cps x))


/-! ### `dirs` stream: the files `Compile.parse` meets, in loop order -/

/-- a file of the layout: written by a run that saved `src` (`W`), or any content -/
inductive DFile where
  | saved (src : Src) | raw (f : File B)

def parseDFiles : Nat → List String → Option (List (String × DFile))
  | 0, _ => none
  | _, [] => some []
  | f + 1, "F" :: nw :: "W" :: r => do
    let name ← uncps nw
    let (src, r) ← parseSrc r
    let rest ← parseDFiles f r
    pure ((name, .saved src) :: rest)
  | f + 1, "F" :: nw :: r => do
    let name ← uncps nw
    let (fl, r) ← parseFile r
    let rest ← parseDFiles f r
    pure ((name, .raw fl) :: rest)
  | _, _ => none

def dfileContent (r : String) : DFile → File B
  | .saved src => match persist codec r src .missing with | .ok f => f | .error _ => .missing
  | .raw f => f

def handle (ws : List String) : String :=
  match ws with
  | "persist" :: rw :: r => (do
      let rn ← uncps rw
      let (src, r) ← parseSrc r
      let (f, _) ← parseFile r
      pure (fileStr (persist codec rn src f) ++ "\t" ++ showVal (expectSection src) ++ "\t" ++
        showKeys (sectionKeys rn f ++ srcKeys src))).getD "bad-request"
  | "persistasis" :: rw :: r => (do
      let rn ← uncps rw
      let (src, r) ← parseSrc r
      let (f, _) ← parseFile r
      pure (fileStr (persistAsIs codec rn src f) ++ "\t-")).getD "bad-request"
  | "restore" :: rw :: r => (do
      let rn ← uncps rw
      let (f, _) ← parseFile r
      pure (labelsStr (restore codec rn f []) ++ "\ttotal\t" ++ showKeys (sectionKeys rn f))).getD "bad-request"
  | "restoreasis" :: rw :: r => (do
      let rn ← uncps rw
      let (f, _) ← parseFile r
      pure (labelsStr (restoreAsIs codec rn f []) ++ "\t-")).getD "bad-request"
  | "rt" :: rw :: r => (do
      let rn ← uncps rw
      let (src, r) ← parseSrc r
      let (f, _) ← parseFile r
      let m := match persist codec rn src f with
        | .ok f' => labelsStr (restore codec rn f' [])
        | .error e => errStr e
      pure (m ++ "\t" ++ (if srcWFb src then showVal (expectLabels src) else "-") ++ "\t" ++
        showKeys (sectionKeys rn f ++ srcKeys src))).getD "bad-request"
  | "hist" :: rw :: r => (do
      let rn ← uncps rw
      let (f, r) ← parseFile r
      let ops ← parseOps (r.length + 2) r
      let m := match run codec (ops.map toOp) f with
        | .ok f' => labelsStr (restore codec rn f' [])
        | .error e => errStr e
      let s := match lastSaved rn ops with
        | some src => if srcWFb src then showVal (expectLabels src) else "-"
        | none => "-"
      pure (m ++ "\t" ++ s ++ "\t" ++ showKeys (sectionKeys rn f ++ histAllowed rn ops))).getD "bad-request"
  | "xr" :: pw :: uw :: r => (do
      let pfx ← uncps (pw.drop 1).toString
      let url ← parseUrl uw
      let (f, _) ← parseFile r
      pure ("ok " ++ showVal (.dict (xrLoad codec pfx url f [])) ++ "\ttotal\t" ++
        showKeys (prefixKeys pfx (allSectionKeys f)))).getD "bad-request"
  | "xrrt" :: rw :: pw :: uw :: r => (do
      let rn ← uncps rw
      let pfx ← uncps (pw.drop 1).toString
      let url ← parseUrl uw
      let (src, r) ← parseSrc r
      let (f, _) ← parseFile r
      let m := match persist codec rn src f with
        | .ok f' => "ok " ++ showVal (.dict (xrLoad codec pfx url f' []))
        | .error e => errStr e
      pure (m ++ "\t" ++ (if decide ((keys src).Nodup) then showVal (expectXr pfx url src) else "-") ++ "\t" ++
        showKeys (prefixKeys pfx (allSectionKeys f ++ srcKeys src)))).getD "bad-request"
  | "url" :: iw :: ow :: r => (do
      let id ← optStrWord iw
      let ov ← optStrWord ow
      let views ← parseViews (r.length + 2) r
      -- model: the node through the whole sequence; spec: every render on its own
      pure (showStrs (renderUrls ov (id.getD "") views) ++ "\t" ++
        showStrs (views.map (fun v => (renderUrls ov (id.getD "") [v]).headD "")))).getD "bad-request"
  | "dirs" :: rw :: jw :: r => (do
      let rn ← uncps rw
      let job ← uncps jw
      let dfs : List (String × DFile) ← parseDFiles (r.length + 2) r
      let files := dfs.map (fun (nf : String × DFile) => (nf.1, dfileContent rn nf.2))
      let others := dfs.filter (fun (nf : String × DFile) => nf.1 != job)
      -- spec: every label of every saved file that is not the job's own is there, with its data
      let want : List (Key × Val) := others.flatMap (fun (nf : String × DFile) => match nf.2 with
        | .saved src => if srcWFb src then (match expectLabels src with | .dict kvs => kvs | _ => []) else []
        | .raw _ => [])
      let allowed := others.flatMap (fun (nf : String × DFile) => match nf.2 with
        | .saved src => srcKeys src
        | .raw f => sectionKeys rn f)
      pure (labelsStr (parseRestores codec rn job files []) ++ "\t" ++ showVal (.dict want) ++ "\t" ++ showKeys allowed)).getD "bad-request"
  | _ => "bad-op"

end PlasVerif.Driver.C20
