import PlasVerif.Driver.Util
import PlasVerif.Driver.C05
import PlasVerif.Model.IfInvoke
import PlasVerif.Spec.Conform
import PlasVerif.Spec.CondTree
import PlasVerif.Spec.TeXTests
/-!
Driver for C03.  Streams (see `harness/props/c03.py`):

* `ifscan <which> W*`            arbitrary token words; model = `processIf`; spec `-`
* `ifscanwf <which> <n> ITEM`    a conditional tree followed by `n` ordinary tokens; model = `processIf`
                                 on its spelling, spec = branch chosen by `texSelect`; aux = the token words
* `cond <init> BODY`             a whole program: model = `run sem` on its spelling, spec = `den`; aux = token words
* `newif <code points>`         the macro names `Context.newif` registers: model = `newifNames`, spec = `texSetterNames`
* `toks <init> W*`               arbitrary (also unbalanced) token words run as a program; spec `-`

token words `W`: `i<test>` `fi` `else` `or` `newif` `o<act>`;
tests `T F N:<op>:<rel>:<op> D:<dop>:<rel>:<dop> O:<op> K:<op> X:<xtok>:<xtok> G:<n> S:<k>`;
operands `<op>` = `l<int> c<n> m<int> r<n>` with any number of `-` in front, `<dop>` = `l<sp> r<n> k<n>x<n>` likewise;
acts `c<n> s<n> a<n>:<int> w<k>:<0|1> g<n> { }`.
-/
namespace PlasVerif.Driver.C03
open PlasVerif.Driver PlasVerif.Model.IfScan PlasVerif.Model.Tests PlasVerif.Spec.CondTree

abbrev T := Tok Test Act

def rest1 (s : String) : String := (s.drop 1).toString

def rel? : String → Option Rel
  | "lt" => some .lt | "gt" => some .gt | "eq" => some .eq | "bad" => some .bad | _ => none
def relStr : Rel → String | .lt => "lt" | .gt => "gt" | .eq => "eq" | .bad => "bad"

/-- `<k>x<r>` -/
def coef? (s : String) : Option (Nat × Nat) :=
  match s.splitOn "x" with
  | [k, r] => do pure (← k.toNat?, ← r.toNat?)
  | _ => none

def opFuel : Nat → String → Option Operand
  | 0, _ => none
  | f + 1, s =>
    if s.startsWith "-" then (opFuel f (rest1 s)).map .neg
    else if s.startsWith "l" then (rest1 s).toInt?.map .lit
    else if s.startsWith "c" then (rest1 s).toNat?.map .cnt
    else if s.startsWith "m" then (rest1 s).toInt?.map .mac
    else if s.startsWith "r" then (rest1 s).toNat?.map .reg
    else none
def op? (s : String) : Option Operand := opFuel (s.length + 1) s
def opStr : Operand → String
  | .lit n => s!"l{n}" | .cnt c => s!"c{c}" | .mac n => s!"m{n}"
  | .reg r => s!"r{r}" | .neg o => "-" ++ opStr o

def dopFuel : Nat → String → Option DOperand
  | 0, _ => none
  | f + 1, s =>
    if s.startsWith "-" then (dopFuel f (rest1 s)).map .neg
    else if s.startsWith "l" then (rest1 s).toInt?.map .lit
    else if s.startsWith "r" then (rest1 s).toNat?.map .reg
    else if s.startsWith "k" then (coef? (rest1 s)).map fun (k, r) => .coef k r
    else none
def dop? (s : String) : Option DOperand := dopFuel (s.length + 1) s
def dopStr : DOperand → String
  | .lit n => s!"l{n}" | .reg r => s!"r{r}" | .coef k r => s!"k{k}x{r}" | .neg o => "-" ++ dopStr o

def xtok? (s : String) : Option XTok :=
  if s.startsWith "c" then (rest1 s).toNat?.map .chr
  else if s.startsWith "m" then
    match (rest1 s).splitOn "." with
    | v :: body => do pure (.mac (← v.toNat?) (← body.mapM String.toNat?))
    | [] => none
  else none
def xtokStr : XTok → String
  | .chr c => s!"c{c}"
  | .mac v body => "m" ++ ".".intercalate (toString v :: body.map toString)

def test? (s : String) : Option Test :=
  match s.splitOn ":" with
  | ["T"] => some .tru
  | ["F"] => some .fls
  | ["N", a, r, b] => do pure (.num (← op? a) (← rel? r) (← op? b))
  | ["D", a, r, b] => do pure (.dim (← dop? a) (← rel? r) (← dop? b))
  | ["O", a] => do pure (.odd (← op? a))
  | ["K", a] => do pure (.case_ (← op? a))
  | ["X", a, b] => do pure (.ifx (← xtok? a) (← xtok? b))
  | ["G", n] => do pure (.defined (← n.toNat?))
  | ["S", k] => do pure (.sw (← k.toNat?))
  | _ => none
def testStr : Test → String
  | .tru => "T" | .fls => "F"
  | .num a r b => s!"N:{opStr a}:{relStr r}:{opStr b}"
  | .dim a r b => s!"D:{dopStr a}:{relStr r}:{dopStr b}"
  | .odd a => s!"O:{opStr a}"
  | .case_ a => s!"K:{opStr a}"
  | .ifx a b => s!"X:{xtokStr a}:{xtokStr b}"
  | .defined n => s!"G:{n}"
  | .sw k => s!"S:{k}"

def act? (s : String) : Option Act :=
  if s == "{" then some .bgroup
  else if s == "}" then some .egroup
  else if s.startsWith "c" then (rest1 s).toNat?.map .chr
  else if s.startsWith "s" then (rest1 s).toNat?.map .step
  else if s.startsWith "g" then (rest1 s).toNat?.map .gdef
  else if s.startsWith "a" then
    match (rest1 s).splitOn ":" with
    | [c, n] => do pure (.add (← c.toNat?) (← n.toInt?))
    | _ => none
  else if s.startsWith "w" then
    match (rest1 s).splitOn ":" with
    | [k, "1"] => k.toNat?.map (.setsw · true)
    | [k, "0"] => k.toNat?.map (.setsw · false)
    | _ => none
  else none
def actStr : Act → String
  | .chr c => s!"c{c}" | .step c => s!"s{c}" | .add c n => s!"a{c}:{n}"
  | .setsw k b => s!"w{k}:{if b then 1 else 0}" | .gdef n => s!"g{n}" | .bgroup => "{" | .egroup => "}"

def tok? (s : String) : Option T :=
  match s with
  | "fi" => some .fi | "else" => some .else_ | "or" => some .or_ | "newif" => some .newif
  | _ =>
    if s.startsWith "i" then (test? (rest1 s)).map .ifl
    else if s.startsWith "o" then (act? (rest1 s)).map .other
    else none
def tokStr : T → String
  | .fi => "fi" | .else_ => "else" | .or_ => "or" | .newif => "newif"
  | .ifl t => "i" ++ testStr t | .other a => "o" ++ actStr a
def toksStr (ts : List T) : String := joinSp (ts.map tokStr)

def which? (s : String) : Option Which :=
  match s with
  | "T" => some (.bool true) | "F" => some (.bool false) | _ => s.toInt?.map .case

def errStr : Err → String
  | .stopIteration => "err:StopIteration" | .indexError => "err:IndexError" | .valueError => "err:ValueError"

/- prefix encoding of trees:  BODY ::= [ ITEM* ]
   ITEM ::= t<act> | n<k> | c<test> <0|1 hasElse> <ncases> BODY{ncases} [BODY] -/
mutual
def parseBody : Nat → List String → Option (Body Test Act × List String)
  | 0, _ => none
  | f + 1, "[" :: r => parseItems f r
  | _, _ => none
def parseItems : Nat → List String → Option (Body Test Act × List String)
  | 0, _ => none
  | _ + 1, "]" :: r => some (.nil, r)
  | f + 1, ws => do
    let (i, r) ← parseItem f ws
    let (b, r) ← parseItems f r
    pure (.cons i b, r)
def parseItem : Nat → List String → Option (Item Test Act × List String)
  | 0, _ => none
  | _, [] => none
  | f + 1, w :: r =>
    if w.startsWith "t" then (act? (rest1 w)).map fun a => (.tok a, r)
    else if w.startsWith "n" then (rest1 w).toNat?.map fun k => (.newif (.sw k), r)
    else if w.startsWith "c" then
      match r with
      | he :: nc :: r => do
        let t ← test? (rest1 w)
        let n ← nc.toNat?
        let (cs, r) ← parseCases f n r
        if he == "1" then
          let (e, r) ← parseBody f r
          pure (.cond t cs true e, r)
        else pure (.cond t cs false .nil, r)
      | _ => none
    else none
def parseCases : Nat → Nat → List String → Option (Cases Test Act × List String)
  | 0, _, _ => none
  | _, 0, _ => none
  | f + 1, 1, r => do let (b, r) ← parseBody f r; pure (.last b, r)
  | f + 1, n + 2, r => do
    let (b, r) ← parseBody f r
    let (cs, r) ← parseCases f (n + 1) r
    pure (.more b cs, r)
end

def nCounters : Nat := 6
def nSwitches : Nat := 3

def initSt (cs rs ds : List Int) : St :=
  { cnt := fun k => cs.getD k 0
    sw := fun k => if k < nSwitches then some false else none
    defd := fun k => k < 2
    reg := fun k => rs.getD k 0
    dreg := fun k => ds.getD k 0 }

def ints? (w : String) : Option (List Int) := (w.splitOn ",").mapM String.toInt?

/-- `c0,..,c5[;r0,r1,r2[;d0,d1,d2]]`: counters, count registers, dimen registers (sp) -/
def init? (w : String) : Option St :=
  match w.splitOn ";" with
  | [c] => do pure (initSt (← ints? c) [] [])
  | [c, r] => do pure (initSt (← ints? c) (← ints? r) [])
  | [c, r, d] => do pure (initSt (← ints? c) (← ints? r) (← ints? d))
  | _ => none

def obsStr : Except Err (St × List Act) → String
  | .error e => errStr e
  | .ok (s, out) =>
    let text := ".".intercalate (out.filterMap fun a => match a with | .chr c => some (toString c) | _ => none)
    let cnts := ",".intercalate ((List.range nCounters).map fun k => toString (s.cnt k))
    let sws := "".intercalate ((List.range nSwitches).map fun k => if (s.sw k).getD false then "1" else "0")
    s!"ok:{text}|{cnts}|{sws}"

def pifStr : Except Err (List T × Bool) → String
  | .error e => errStr e
  | .ok (ts, t) => s!"ok:{if t then 1 else 0}:{toksStr ts}"

/-! ### token-level streams (tokens in the word format of `Driver/C05.lean`) -/

def kind? : String → Option PlasVerif.Model.IfInvoke.Kind
  | "num" => some .num | "dim" => some .dim | "odd" => some .odd | "case" => some .case_ | _ => none

def whichStr : Which → String
  | .bool true => "b1" | .bool false => "b0" | .case n => s!"n{n}"

def ierrStr : PlasVerif.Model.IfInvoke.IErr → String
  | .num e => C05.numErr e
  | .args (.num e) => C05.numErr e
  | .args .attr => "err:AttributeError"
  | .value => "err:ValueError"

def invStr : Except PlasVerif.Model.IfInvoke.IErr (Which × List PlasVerif.Model.Numbers.Tok) → String
  | .error e => ierrStr e
  | .ok (w, r) => s!"ok:{whichStr w}|rest:{C05.srcOf r}"

def condStr : Except PlasVerif.Model.IfInvoke.PErr (List PlasVerif.Model.Numbers.Tok × Bool) → String
  | .error (.test e) => ierrStr e
  | .error (.scan e) => errStr e
  | .ok (r, t) => s!"ok:{if t then 1 else 0}|rest:{C05.srcOf r}"

/-- TeX's verdict on two literal values -/
def relWhich (c : Nat) (a b : Int) : Option Which :=
  if c = 60 then some (.bool (decide (a < b))) else if c = 62 then some (.bool (decide (a > b)))
  else if c = 61 then some (.bool (decide (a = b))) else none

open PlasVerif.Spec.Literals PlasVerif.Spec.Conform in
/-- `testlit num I… <relcode> I… | tail` / `testlit odd I… | tail` / `testlit case I… | tail`:
    literal-structured operands; spec = TeX's rule on the literal values when the literals are well formed
    and what follows each cannot continue it -/
def handleTestLit (k : String) (ws : List String) : String :=
  let (lw, tw) := splitAt1 "|" ws
  match tw.mapM C05.tok? with
  | none => "bad-op"
  | some tail =>
    match k, C05.parseLit lw with
    | "num", some (.i la, rc :: r2) =>
      match rc.toNat?, C05.parseLit r2 with
      | some c, some (.i lb, []) =>
        let rt : PlasVerif.Model.Numbers.Tok := .ch c
        let ts := la.render ++ rt :: (lb.render ++ tail)
        let ok := la.wf && lb.wf && intFollow la (rt :: (lb.render ++ tail)) && intFollow lb tail
        let spec := match ok, relWhich c la.den lb.den with
          | true, some w => s!"ok:{whichStr w}|rest:{C05.srcOf tail}"
          | _, _ => "-"
        s!"{invStr (PlasVerif.Model.IfInvoke.invoke .num ts)}\t{spec}\t{joinSp (ts.map C05.tokWord)}"
      | _, _ => "bad-op"
    | "dim", some (.m la, rc :: r2) =>
      match rc.toNat?, C05.parseLit r2 with
      | some c, some (.m lb, []) =>
        let rt : PlasVerif.Model.Numbers.Tok := .ch c
        let ts := la.render ++ rt :: (lb.render ++ tail)
        let ok := dimWf false la && dimWf false lb && la.den.order == 0 && lb.den.order == 0 &&
          dimFollow la (rt :: (lb.render ++ tail)) && dimFollow lb tail
        let w : Option Which :=
          if c = 60 then some (.bool (decide (la.den.amount < lb.den.amount)))
          else if c = 62 then some (.bool (decide (la.den.amount > lb.den.amount)))
          else if c = 61 then some (.bool (decide (la.den.amount = lb.den.amount))) else none
        let spec := match ok, w with
          | true, some w => s!"ok:{whichStr w}|rest:{C05.srcOf tail}"
          | _, _ => "-"
        s!"{invStr (PlasVerif.Model.IfInvoke.invoke .dim ts)}\t{spec}\t{joinSp (ts.map C05.tokWord)}"
      | _, _ => "bad-op"
    | "odd", some (.i la, []) =>
      let ts := la.render ++ tail
      let spec := if la.wf && intFollow la tail then s!"ok:{whichStr (.bool (la.den.natAbs % 2 == 1))}|rest:{C05.srcOf tail}" else "-"
      s!"{invStr (PlasVerif.Model.IfInvoke.invoke .odd ts)}\t{spec}\t{joinSp (ts.map C05.tokWord)}"
    | "case", some (.i la, []) =>
      let ts := la.render ++ tail
      let spec := if la.wf && intFollow la tail then s!"ok:{whichStr (.case la.den)}|rest:{C05.srcOf tail}" else "-"
      s!"{invStr (PlasVerif.Model.IfInvoke.invoke .case_ ts)}\t{spec}\t{joinSp (ts.map C05.tokWord)}"
    | _, _ => "bad-op"

def handle : List String → String
  | "ifscan" :: w :: ws =>
    match which? w, ws.mapM tok? with
    | some w, some ts => s!"{pifStr (processIf w ts)}\t-\t{pifStr (processIfAsIs w ts)}"
    | _, _ => "bad-op"
  | "ifscanwf" :: w :: n :: ws =>
    match which? w, n.toNat?, parseItem (ws.length + 2) ws with
    | some w, some n, some (.cond t cs he e, []) =>
      let rest : List T := List.replicate n (.other (.chr 33))
      let ts := ((Item.cond t cs he e).flat ++ rest).drop 1
      let okKind := match w with | .bool _ => cs.isLast | .case _ => true
      let sel := match texSelect w cs.count with
        | some i => (cs.bodies.map Body.flat).getD i []
        | none => if he then e.flat else []
      let spec := if okKind then s!"ok:1:{toksStr (sel ++ rest)}" else "-"
      s!"{pifStr (processIf w ts)}\t{spec}\t{toksStr ts}"
    | _, _, _ => "bad-op"
  | "cond" :: i :: ws =>
    match init? i, parseBody (ws.length + 2) ws with
    | some s, some (b, []) =>
      let spec := if b.wf isCase then obsStr (b.den sem s []) else "-"
      s!"{obsStr (run sem b.flat s [])}\t{spec}\t{toksStr b.flat}\t{b.depth}"
    | _, _ => "bad-op"
  | "toks" :: i :: ws =>
    match init? i, ws.mapM tok? with
    | some s, some ts => s!"{obsStr (run sem ts s [])}\t-"
    | _, _ => "bad-op"
  | "newif" :: ws =>
    match ws.mapM String.toNat? with
    | some name =>
      let dots := fun (l : List Nat) => ".".intercalate (l.map toString)
      let (n, t, f) := newifNames name
      let spec := match PlasVerif.Spec.TeXTests.texSetterNames name with
        | some (t', f') => s!"ok:{dots name}|{dots t'}|{dots f'}"
        | none => "-"
      s!"ok:{dots n}|{dots t}|{dots f}\t{spec}"
    | none => "bad-op"
  | "invoke" :: k :: ws =>
    match kind? k, ws.mapM C05.tok? with
    | some k, some ts => s!"{invStr (PlasVerif.Model.IfInvoke.invoke k ts)}\t-"
    | _, _ => "bad-op"
  | "condraw" :: k :: ws =>
    match kind? k, ws.mapM C05.tok? with
    | some k, some ts => s!"{condStr (PlasVerif.Model.IfInvoke.condInvoke k ts)}\t-"
    | _, _ => "bad-op"
  | "testlit" :: k :: ws => handleTestLit k ws
  | _ => "bad-op"

end PlasVerif.Driver.C03
