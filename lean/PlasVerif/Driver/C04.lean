import PlasVerif.Driver.Util
import PlasVerif.Model.Context
namespace PlasVerif.Driver.C04
open PlasVerif.Driver PlasVerif.Model.Catcodes PlasVerif.Model.Context

def valStr : Option Val → String
  | none => "-"
  | some (.defn i) => s!"D{i}"
  | some (.unrec n) => s!"U{n}"

def dump (names lets chars : List Nat) (c : Ctx) : String :=
  let m := names.map fun n => s!"{n}:{valStr (find n c)}:{if contains n c then 1 else 0}"
  let l := lets.map fun n => s!"{n}:{match getLet n c with | some t => toString t | none => "-"}"
  let k := chars.map fun ch => toString (whichCodeCtx c ch)
  s!"d={c.length} m={",".intercalate m} l={",".intercalate l} c={",".intercalate k}"

/-- object pool entry `o:<id>:<parent>:<type>:<modeEnd>:<docLevel>:<name code points, comma separated>` -/
def parseObj (w : String) : Option ObjRef :=
  match w.splitOn ":" with
  | ["o", i, p, ty, me, dl, nm] => do
    let name ← if nm == "" then some [] else (nm.splitOn ",").mapM String.toNat?
    pure { id := ← i.toNat?, parent := ← p.toNat?, typeId := ← ty.toNat?, modeEnd := me == "1",
           docLevel := dl == "1", name := name }
  | _ => none

def findObj (pool : List ObjRef) (k : Nat) : Option (Option ObjRef) :=
  if k = 0 then some none else (pool.find? (·.id = k)).map some

def parseVal (s : String) : Option Val := (s.toNat?).map .defn

def parseLocals (s : String) : Option (List (Nat × Val)) :=
  if s == "" then some [] else
  (s.splitOn ",").mapM fun kv => match kv.splitOn "=" with
    | [k, v] => do pure (← k.toNat?, ← parseVal v)
    | _ => none

def parseOp (pool : List ObjRef) (w : String) : Option Op :=
  match w.splitOn ":" with
  | ["pu", k] => do pure (.push (← findObj pool (← k.toNat?)) [])
  | ["pu", k, ls] => do pure (.push (← findObj pool (← k.toNat?)) (← parseLocals ls))
  | ["po", k] => do pure (.pop (← findObj pool (← k.toNat?)))
  | ["ag", n, v] => do pure (.addGlobal (← n.toNat?) (← parseVal v))
  | ["gd", n, v] => do pure (.gdef (← n.toNat?) (← parseVal v))
  | ["al", n, v] => do pure (.addLocal (← n.toNat?) (← parseVal v))
  | ["lc", d, s] => do pure (.letCs (← d.toNat?) (← s.toNat?))
  | ["lt", d, t] => do pure (.letTok (← d.toNat?) (← t.toNat?))
  | ["gl", d, s] => do pure (.gletCs (← d.toNat?) (← s.toNat?))
  | ["gt", d, t] => do pure (.gletTok (← d.toNat?) (← t.toNat?))
  | ["sc", ch, k] => do
      let k ← k.toNat?
      if k < 16 then pure (.setCat (← ch.toNat?) k) else none
  | ["sv"] => some .setVerbatim
  | ["lk", n] => do pure (.lookup (← n.toNat?))
  | _ => none

def names : List Nat := [1, 2, 3]
def letNames : List Nat := [1, 2]
def chars : List Nat := [64, 92, 37, 97]

def handle : List String → String
  | "ctx" :: ws =>
    let (poolW, opsW) := splitAt1 "|" ws
    match poolW.mapM parseObj with
    | none => "bad-op"
    | some pool =>
      match opsW.mapM (parseOp pool) with
      | none => "bad-op"
      | some ops =>
        let (_, outs) := ops.foldl (fun (acc : Ctx × List String) op =>
          let c' := step acc.1 op
          (c', dump names letNames chars c' :: acc.2)) (init, [])
        " ; ".intercalate outs.reverse ++ "\t-"
  | _ => "bad-op"

end PlasVerif.Driver.C04
