import PlasVerif.Driver.Util
import PlasVerif.Generated.Config
import PlasVerif.Spec.Config
/-!
Driver of C16.  Request words (after `C16 <stream>`), each directive one word, fields separated by `/`:
  `opt/<sec>/<key>/<ty>/<default>/<flags,>/<noflags,>/<dest>`  custom table entry (none given → the generated table)
  `file`  `sec/<S>`  `kv/<K>/<V>`  `occ/<flag>/<arg>/…`
strings `s<cp>.<cp>…`; values `s…`, `i<int>`, `f<m>:<e>`, `b0|b1`, `l<s…>,<s…>`, `d<s…>=<atom>,…`.
Answer: `ok:<v>|<v>|…#<g>|<g>|…|U1` (`config[s][k]` of every option, `e:<Err>` per option; then `s.get(k, default)` of every
option: `=` same as `config[s][k]`, `D` the default; `U1`: unknown key gives the default) or `err:<Err>`; spec column same or `-`.
-/
namespace PlasVerif.Driver.C16
open PlasVerif.Driver PlasVerif.Model.Config PlasVerif.Spec.Config

def dropS (s : String) (n : Nat) : String := (s.drop n).toString

def str? (w : String) : Option Str :=
  if w.startsWith "s" then
    let b := dropS w 1
    if b.isEmpty then some [] else (b.splitOn ".").mapM String.toNat?
  else none

def atom? (w : String) : Option Atom :=
  if w.startsWith "s" then (str? w).map .str
  else if w.startsWith "i" then (dropS w 1).toInt?.map .int
  else if w.startsWith "f" then
    match (dropS w 1).splitOn ":" with
    | [m, e] => do pure (.flt (← m.toInt?) (← e.toNat?))
    | _ => none
  else if w == "b1" then some (.bool true) else if w == "b0" then some (.bool false) else none

def strs? (w : String) : Option (List Str) := if w.isEmpty then some [] else (w.splitOn ",").mapM str?

def val? (w : String) : Option Val :=
  if w.startsWith "l" then (strs? (dropS w 1)).map .list
  else if w.startsWith "d" then
    let b := dropS w 1
    if b.isEmpty then some (.dict []) else
      .dict <$> (b.splitOn ",").mapM fun e => match e.splitOn "=" with
        | [k, v] => do pure ((← str? k), (← atom? v))
        | _ => none
  else (atom? w).map .atom

def ty? : String → Option Ty
  | "str" => some (.atom .str) | "int" => some (.atom .int) | "flt" => some (.atom .flt) | "bool" => some (.atom .bool)
  | "list" => some .list
  | "dstr" => some (.dict .str false) | "dint" => some (.dict .int false) | "dflt" => some (.dict .flt false)
  | "Lstr" => some (.dict .str true)
  | _ => none

def showStr (s : Str) : String := "s" ++ ".".intercalate (s.map toString)

def showAtom : Atom → String
  | .str s => showStr s
  | .int n => s!"i{n}"
  | .flt m e => s!"f{m}:{e}"
  | .bool b => if b then "b1" else "b0"

def ltStr : Str → Str → Bool
  | [], [] => false
  | [], _ :: _ => true
  | _ :: _, [] => false
  | a :: as, b :: bs => if a < b then true else if b < a then false else ltStr as bs

def insertKV (x : Str × Atom) : List (Str × Atom) → List (Str × Atom)
  | [] => [x]
  | y :: r => if ltStr y.1 x.1 then y :: insertKV x r else x :: y :: r

def showVal : Val → String
  | .atom a => showAtom a
  | .list xs => "l" ++ ",".intercalate (xs.map showStr)
  | .dict kvs => "d" ++ ",".intercalate ((kvs.foldr insertKV []).map fun kv => showStr kv.1 ++ "=" ++ showAtom kv.2)

def errStr : Err → String
  | .valueError => "ValueError" | .keyError => "KeyError" | .systemExit => "SystemExit"
  | .argumentTypeError => "ArgumentTypeError" | .recursionError => "RecursionError" | .unsupported => "unsupported"

structure Req where
  table : List Opt := []
  files : List File := []      -- reversed; each file reversed sections; each section reversed items
  argv : List Occ := []        -- reversed

def step (r : Option Req) (w : String) : Option Req := do
  let r ← r
  match w.splitOn "/" with
  | ["opt", sec, key, ty, d, fl, nfl, dest] =>
    let o : Opt := ⟨← str? sec, ← str? key, ← str? dest, ← ty? ty, ← val? d, ← strs? fl, ← strs? nfl⟩
    pure { r with table := o :: r.table }
  | ["file"] => pure { r with files := [] :: r.files }
  | ["sec", s] =>
    match r.files with
    | f :: fs => pure { r with files := (((← str? s), []) :: f) :: fs }
    | [] => none
  | ["kv", k, v] =>
    match r.files with
    | ((s, items) :: f) :: fs => pure { r with files := ((s, ((← str? k), (← str? v)) :: items) :: f) :: fs }
    | _ => none
  | "occ" :: flag :: args => pure { r with argv := ⟨← str? flag, ← args.mapM str?⟩ :: r.argv }
  | _ => none

def finish (r : Req) : Table × List File × List Occ :=
  (if r.table.isEmpty then PlasVerif.Generated.Config.table else r.table.reverse,
   (r.files.map fun f => (f.map fun s => (s.1, s.2.reverse)).reverse).reverse,
   r.argv.reverse)

def obsModel (T : Table) (st : St) : String :=
  let idx := List.range T.length
  let items := idx.map fun i => match readBack T st i with
    | .ok v => showVal v
    | .error e => s!"e:{errStr e}"
  let gets := idx.map fun i => match getDefault T st i with
    | .ok none => "D"
    | .ok (some v) => showVal v
    | .error e => s!"e:{errStr e}"
  let gs := (items.zip gets).map fun (p : String × String) => if p.1 == p.2 then "=" else p.2
  "ok:" ++ "|".intercalate items ++ "#" ++ "|".intercalate (gs ++ ["U1"])

/-- `section.get(key)` must give the same value as `section[key]`, and the default for an unknown key -/
def obsSpec (T : Table) (specSt : Nat → Option Val) : Option String :=
  let idx := List.range T.length
  match idx.mapM fun i => (specSt i).bind fun _ => specReadBack T specSt (fuelFor T) i with
  | some vs => some ("ok:" ++ "|".intercalate (vs.map showVal) ++ "#" ++ "|".intercalate (vs.map (fun _ => "=") ++ ["U1"]))
  | none => none

def answer (asIs : Bool) (T : Table) (files : List File) (argv : List Occ) : String :=
  let model := match run asIs T files argv with
    | .error e => s!"err:{errStr e}"
    | .ok st => obsModel T st
  let spec := if !inDomain T files argv then "-" else (obsSpec T (den T files argv)).getD "-"
  s!"{model}\t{spec}"

/-! histories (`hist` stream): `file`…, `cli` `occ/…`…, `set/<sec>/<key>/<val>`, `obs` in any order -/
structure HReq where
  table : List Opt := []
  steps : List Step := []      -- reversed; a `read`'s file reversed as in `Req`

def stepH (r : Option HReq) (w : String) : Option HReq := do
  let r ← r
  match w.splitOn "/" with
  | ["opt", sec, key, ty, d, fl, nfl, dest] =>
    let o : Opt := ⟨← str? sec, ← str? key, ← str? dest, ← ty? ty, ← val? d, ← strs? fl, ← strs? nfl⟩
    pure { r with table := o :: r.table }
  | ["file"] => pure { r with steps := .read [] :: r.steps }
  | ["sec", s] =>
    match r.steps with
    | .read f :: ss => pure { r with steps := .read (((← str? s), []) :: f) :: ss }
    | _ => none
  | ["kv", k, v] =>
    match r.steps with
    | .read ((s, items) :: f) :: ss => pure { r with steps := .read ((s, ((← str? k), (← str? v)) :: items) :: f) :: ss }
    | _ => none
  | ["cli"] => pure { r with steps := .cli [] :: r.steps }
  | "occ" :: flag :: args =>
    match r.steps with
    | .cli a :: ss => pure { r with steps := .cli (⟨← str? flag, ← args.mapM str?⟩ :: a) :: ss }
    | _ => none
  | ["set", sec, key, v] => pure { r with steps := .assign (← str? sec) (← str? key) (← val? v) :: r.steps }
  | ["obs"] => pure { r with steps := .observe :: r.steps }
  | _ => none

def finishH (r : HReq) : Table × List Step :=
  (if r.table.isEmpty then PlasVerif.Generated.Config.table else r.table.reverse,
   (r.steps.map fun s => match s with
      | .read f => Step.read (f.map fun s => (s.1, s.2.reverse)).reverse
      | .cli a => .cli a.reverse
      | s => s).reverse)

/-- the spec's observations: at each `obs`, the read-back of the per-option denotation of the history so far -/
def specHist (T : Table) : List Step → List Step → List (Option String)
  | _, [] => []
  | done, s :: r =>
    let done' := done ++ [s]
    match s with
    | .observe => (if done'.all (stepWf T) then obsSpec T (denHist T done') else none) :: specHist T done' r
    | _ => specHist T done' r

def answerH (T : Table) (steps : List Step) : String :=
  let (sts, e) := hist false T steps (init T)
  let model := ";;".intercalate (sts.map (obsModel T) ++ (match e with | some e => [s!"err:{errStr e}"] | none => []))
  let specs := specHist T [] steps
  let spec := if specs.all Option.isSome then ";;".intercalate (specs.map (·.getD "-")) else "-"
  s!"{model}\t{spec}"

/-! entry point (`main` stream): `cf/<name>` starts the definition of an existing file (then `sec/`, `kv/`), `w/<word>` the
raw words given to `client.main`; `intent`, then the pieces as written `pc/<0|1>/<name>`, `pp/<word>`, `po/<flag>/<arg>…` (spec column). -/
structure MReq where
  table : List Opt := []
  fm : List (Str × File) := []     -- reversed, files reversed as in `Req`
  words : List Str := []           -- reversed
  intent : Bool := false
  pieces : List Piece := []        -- reversed: the command line as the generator wrote it

def stepM (r : Option MReq) (w : String) : Option MReq := do
  let r ← r
  match w.splitOn "/" with
  | ["opt", sec, key, ty, d, fl, nfl, dest] =>
    let o : Opt := ⟨← str? sec, ← str? key, ← str? dest, ← ty? ty, ← val? d, ← strs? fl, ← strs? nfl⟩
    pure { r with table := o :: r.table }
  | ["cf", n] => pure { r with fm := ((← str? n), []) :: r.fm }
  | ["sec", s] =>
    match r.fm with
    | (n, f) :: fs => pure { r with fm := (n, ((← str? s), []) :: f) :: fs }
    | [] => none
  | ["kv", k, v] =>
    match r.fm with
    | (n, (s, items) :: f) :: fs => pure { r with fm := (n, (s, ((← str? k), (← str? v)) :: items) :: f) :: fs }
    | _ => none
  | ["w", x] => pure { r with words := (← str? x) :: r.words }
  | ["intent"] => pure { r with intent := true }
  | ["pc", l, n] => pure { r with pieces := .cfg (l == "1") (← str? n) :: r.pieces }
  | ["pp", x] => pure { r with pieces := .pos (← str? x) :: r.pieces }
  | "po" :: flag :: args => pure { r with pieces := .occ ⟨← str? flag, ← args.mapM str?⟩ :: r.pieces }
  | _ => none

def answerM (r : MReq) : String :=
  let T := if r.table.isEmpty then PlasVerif.Generated.Config.table else r.table.reverse
  let fm := (r.fm.map fun nf => (nf.1, (nf.2.map fun s => (s.1, s.2.reverse)).reverse)).reverse
  let model := match mainModel false T fm r.words.reverse with
    | .error e => s!"err:{errStr e}"
    | .ok st => obsModel T st
  let ps := r.pieces.reverse
  -- the spec speaks about unambiguous arrangements of pieces with exactly one document, rendered to these very words
  let spec := if !(r.intent && piecesOk T ps && (posWords ps).length == 1 && renderPieces ps == r.words.reverse) then "-" else
    let files := (cfgNames ps).filterMap fun n => (fm.find? (·.1 = n)).map (·.2)
    let argv := occsOfPieces ps
    if !inDomain T files argv then "-" else (obsSpec T (den T files argv)).getD "-"
  s!"{model}\t{spec}"

def handle : List String → String
  | "cfg" :: ws | "one" :: ws | "tab" :: ws => match ws.foldl step (some {}) with
    | some r => let (T, f, a) := finish r; answer false T f a
    | none => "bad-op"
  | "main" :: ws => match ws.foldl stepM (some {}) with
    | some r => answerM r
    | none => "bad-op"
  | "hist" :: ws => match ws.foldl stepH (some {}) with
    | some r => let (T, st) := finishH r; answerH T st
    | none => "bad-op"
  | "cfg-asis" :: ws => match ws.foldl step (some {}) with
    | some r => let (T, f, a) := finish r; answer true T f a
    | none => "bad-op"
  | _ => "bad-op"

end PlasVerif.Driver.C16
