import PlasVerif.Driver.Util
import PlasVerif.Model.Dom
import PlasVerif.Spec.DomTree
/-!
Driver for C06.  Request: `hist <pool words> ; <op> ; <op> …`
  pool words: `E<name>` element, `T<c>_<c>…` text (code points), `F` fragment   (ids 1.. in order; 0 is the document)
  ops (numbers are *registered indices*: 0 document, 1..P pool, then every clone result in order):
    ap s c | in s i c | pp s i | rm s c | ib s n r | ia s n r | rp s n o | si s i c | ex s c… | xn s o
    nm s | cl s deep | sa e f
  variant `hist-asis` uses the models of the pinned (unrepaired) code.
Answer: `<model dump of the final state>\t<spec dump or ->`.
-/
namespace PlasVerif.Driver.C06
open PlasVerif.Driver
open PlasVerif.Model PlasVerif.Spec

/-! canonical order: registered nodes first, then preorder discovery through the child lists -/
def visit (kidsOf : Nat → List Nat) : Nat → Nat → List Nat → List Nat
  | 0, _, seen => seen
  | f + 1, n, seen => (kidsOf n).foldl (fun sn c => if c ∈ sn then sn else visit kidsOf f c (sn ++ [c])) seen

def canonOrder (kidsOf : Nat → List Nat) (fuel : Nat) (roots : List Nat) : List Nat :=
  roots.foldl (fun sn r => visit kidsOf fuel r sn) roots

/-- remove, round after round, the nodes none of whose children is left: what remains lies on or above a cycle -/
def peel (kidsOf : Nat → List Nat) : Nat → List Nat → List Nat
  | 0, rem => rem
  | f + 1, rem =>
    let rem' := rem.filter (fun n => (kidsOf n).any (· ∈ rem))
    if rem'.length = rem.length then rem else peel kidsOf f rem'

/-- is some node its own descendant?  (then the recursive views of the real code never return; the history stops there) -/
def cyclic (kidsOf : Nat → List Nat) (fuel : Nat) (roots : List Nat) : Bool :=
  let ord := canonOrder kidsOf fuel roots
  !(peel kidsOf (ord.length + 1) ord).isEmpty

def ixStr (ord : List Nat) (i : Nat) : String := if i ∈ ord then toString (ord.idxOf i) else "?"
def optStr (ord : List Nat) : Option Nat → String
  | none => "-"
  | some i => ixStr ord i
def listStr (ord : List Nat) (l : List Nat) : String := ",".intercalate (l.map (ixStr ord))
def charsStr (l : List Nat) : String := "_".intercalate (l.map toString)

def kindStrM : Dom.Kind → String
  | .doc => "D" | .elem => "E" | .text => "T" | .frag => "F"
def kindStrS : DomTree.NKind → String
  | .doc => "D" | .elem => "E" | .text => "T" | .frag => "F"

def errStr : Option Dom.Err → String
  | none => "ok" | some .indexError => "IndexError" | some .notFound => "NotFoundErr"
  | some .diverge => "diverge" | some .attributeError => "AttributeError"

def cmpN : Nat := 7

/-- does the `parentNode` chain of `n` end?  (otherwise the Python `while parent is not None` loop never returns) -/
def chainEnds (h : Dom.Heap) : Nat → Nat → Bool
  | 0, _ => false
  | f + 1, n => match h.parent n with
    | none => true
    | some p => chainEnds h f p

def boolBit (b : Bool) : String := if b then "1" else "0"

/-- everything reachable from `s` through child lists and attribute-held fragments -/
def reachBelow (h : Dom.Heap) (withAttr2 : Bool) (s : Nat) : List Nat :=
  canonOrder (fun n => Dom.childList h n ++ (h.attr n).toList ++ (if withAttr2 then (h.attr2 n).toList else [])) (Dom.fuelOf h) [s]

def adjacentText (h : Dom.Heap) : List Nat → Bool
  | a :: b :: rest => (h.kind a == .text && h.kind b == .text) || adjacentText h (b :: rest)
  | _ => false

/-- no two adjacent text nodes in any child list below `s` (attribute-held fragments included) -/
def noAdjacentBelow (h : Dom.Heap) (s : Nat) : Bool :=
  (reachBelow h true s).all (fun n => !adjacentText h (Dom.childList h n))

/-- clone and original share no node (child lists and `self` fragments) -/
def disjointBelow (h : Dom.Heap) (v s : Nat) : Bool :=
  let rs := reachBelow h false s
  (reachBelow h false v).all (fun n => !rs.contains n)

def dumpModel (asIs : Bool) (h : Dom.Heap) (reg : List Nat) (e : Option Dom.Err) (flags : List String) : String :=
  let fuel := Dom.fuelOf h
  let ord := canonOrder (Dom.childList h) fuel reg
  let gebtn := if asIs then Dom.getElementsByTagNameAsIs else Dom.getElementsByTagName
  let nodes := ord.map (fun n =>
    s!"{kindStrM (h.kind n)}{h.name n}.{charsStr (h.text n)}:{listStr ord (Dom.childList h n)}:{optStr ord (h.parent n)}:{optStr ord (h.owner n)}" ++
    s!":{optStr ord (Dom.firstChild h n)},{optStr ord (Dom.lastChild h n)},{optStr ord (Dom.prevSibling h n)},{optStr ord (Dom.nextSibling h n)}" ++
    s!":{charsStr (Dom.textContent fuel h n)}:{listStr ord (gebtn fuel h n 0)}:{listStr ord (gebtn fuel h n 1)}" ++
    s!":{optStr ord (h.attr n)}:{optStr ord (h.attr2 n)}")
  let sub := ord.take cmpN
  let cmp := sub.map (fun a => "".intercalate (sub.map (fun b =>
    if chainEnds h fuel a && chainEnds h fuel b then toString (Dom.compareDocumentPosition h a b) ++ "." else "L.")))
  s!"{errStr e} {joinSp nodes} # {joinSp cmp} @ {joinSp flags}"

/-- `views`: pairs (fragment, element) — the fragment is held as the element's `self` attribute, the element owns the
    list in the list model and the fragment shows the same list -/
def dumpSpec (m : DomTree.LL) (reg : List Nat) (views : List (Nat × Nat)) : String :=
  let fuel := m.next + 2
  let src (n : Nat) : Nat := match views.find? (fun v => v.1 == n) with
    | some v => v.2
    | none => n
  let ord := canonOrder (fun n => m.kids (src n)) fuel reg
  let nodes := ord.map (fun n =>
    let l := m.kids (src n)
    let par := DomTree.parentOf m n
    let sib := match par with
      | none => "-,-"
      | some p => s!"{optStr ord (DomTree.prevIn (m.kids p) n)},{optStr ord (DomTree.nextIn (m.kids p) n)}"
    let t := DomTree.abs fuel m (src n)
    s!"{kindStrS (m.kind n)}{m.name n}.{charsStr (m.text n)}:{listStr ord l}:*:*" ++
    s!":{optStr ord l.head?},{optStr ord l.getLast?},{sib}" ++
    s!":{charsStr t.textContent}:{listStr ord (t.elementsByName 0)}:{listStr ord (t.elementsByName 1)}:*:*")
  let sub := ord.take cmpN
  let cmp := sub.map (fun a => "".intercalate (sub.map (fun b =>
    if m.kind a = .frag ∨ m.kind b = .frag then "x." else toString (DomTree.comparePos m a b) ++ ".")))
  s!"* {joinSp nodes} # {joinSp cmp}"

structure St where
  h : Dom.Heap
  m : Option DomTree.LL      -- `none` once the history left the property's domain
  regM : List Nat
  regS : List Nat
  err : Option Dom.Err := none
  bad : Bool := false          -- request not understood
  cyc : Bool := false          -- the structure became cyclic: the rest of the history is not executed
  views : List (Nat × Nat) := []   -- spec ids (fragment, element): `self`-attribute fragments the list model follows
  owners : List Nat := []          -- spec ids of elements whose list the list model owns although the code aliases it
  flags : List String := []        -- oracle flags logged at clone / normalize time

def kindOfM : Dom.Kind → DomTree.NKind
  | .doc => .doc | .elem => .elem | .text => .text | .frag => .frag

def initS : DomTree.LL :=
  { kids := fun _ => [], kind := fun i => if i = 0 then .doc else .elem, text := fun _ => [], name := fun _ => 0, next := 1 }

def addPool (st : St) (w : String) : St :=
  let mk (k : Dom.Kind) (nm : Nat) (tx : List Nat) : St :=
    let (h1, v) := Dom.create st.h 0 k nm tx
    let ms := st.m.map (fun m => DomTree.alloc m (kindOfM k) nm tx)
    { st with h := h1, m := ms.map (·.1), regM := st.regM ++ [v], regS := st.regS ++ [(ms.map (·.2)).getD 0] }
  if w == "F" then mk .frag 0 []
  else if w.startsWith "E" then
    match (w.drop 1).toString.toNat? with
    | some n => mk .elem n []
    | none => { st with bad := true }
  else if w.startsWith "T" then
    let body := (w.drop 1).toString
    if body.isEmpty then mk .text 0 []
    else match (body.splitOn "_").mapM String.toNat? with
      | some cs => mk .text 0 cs
      | none => { st with bad := true }
  else { st with bad := true }

def rM (st : St) (i : Nat) : Nat := st.regM.getD i 0
def rS (st : St) (i : Nat) : Nat := st.regS.getD i 0

/-- apply a model result and the corresponding spec step -/
def fin (st : St) (r : Dom.Heap × Option Dom.Err) (ms : Option DomTree.LL) : St :=
  { st with h := r.1, err := r.2, m := ms }

def stepRaw (asIs : Bool) (st : St) (ws : List String) : St :=
  let st := { st with err := none }
  match ws with
  | [] => st
  | op :: args =>
    match intList? args with
    | none => { st with bad := true }
    | some as =>
      let n (k : Nat) : Nat := (as.getD k 0).toNat
      let ok (k : Nat) : Bool := decide (0 ≤ as.getD k (-1)) && decide (n k < st.regM.length)
      let noAlias (m : DomTree.LL) (s : Nat) : Option DomTree.LL :=
        if (st.h.attr (rM st s)).isSome && !(st.owners.contains (rS st s)) then none else some m
      match op, as.length with
      | "ap", 2 => if ok 0 && ok 1 then
          fin st (Dom.opAppend st.h (rM st (n 0)) (rM st (n 1)))
            (st.m.bind fun m => (noAlias m (n 0)).bind fun m => DomTree.append? m (rS st (n 0)) (rS st (n 1)))
          else { st with bad := true }
      | "in", 3 => if ok 0 && ok 2 then
          fin st (Dom.opInsert st.h (rM st (n 0)) (as.getD 1 0) (rM st (n 2)))
            (st.m.bind fun m => (noAlias m (n 0)).bind fun m => DomTree.insert? m (rS st (n 0)) (as.getD 1 0) (rS st (n 2)))
          else { st with bad := true }
      | "pp", 2 => if ok 0 then
          fin st (Dom.opPop st.h (rM st (n 0)) (as.getD 1 0))
            (st.m.bind fun m => (noAlias m (n 0)).bind fun m => DomTree.pop? m (rS st (n 0)) (as.getD 1 0))
          else { st with bad := true }
      | "rm", 2 => if ok 0 && ok 1 then
          fin st (Dom.removeChild st.h (rM st (n 0)) (rM st (n 1)))
            (st.m.bind fun m => (noAlias m (n 0)).bind fun m => DomTree.removeChild? m (rS st (n 0)) (rS st (n 1)))
          else { st with bad := true }
      | "ib", 3 => if ok 0 && ok 1 && ok 2 then
          fin st (Dom.insertBefore st.h (rM st (n 0)) (rM st (n 1)) (rM st (n 2)))
            (st.m.bind fun m => (noAlias m (n 0)).bind fun m => DomTree.insertRel? 0 m (rS st (n 0)) (rS st (n 1)) (rS st (n 2)))
          else { st with bad := true }
      | "ia", 3 => if ok 0 && ok 1 && ok 2 then
          fin st (Dom.insertAfter st.h (rM st (n 0)) (rM st (n 1)) (rM st (n 2)))
            (st.m.bind fun m => (noAlias m (n 0)).bind fun m => DomTree.insertRel? 1 m (rS st (n 0)) (rS st (n 1)) (rS st (n 2)))
          else { st with bad := true }
      | "rp", 3 => if ok 0 && ok 1 && ok 2 then
          fin st (Dom.replaceChild st.h (rM st (n 0)) (rM st (n 1)) (rM st (n 2)))
            (st.m.bind fun m => (noAlias m (n 0)).bind fun m => DomTree.replaceChild? m (rS st (n 0)) (rS st (n 1)) (rS st (n 2)))
          else { st with bad := true }
      | "si", 3 => if ok 0 && ok 2 then
          fin st (Dom.setItem st.h (rM st (n 0)) (as.getD 1 0) (rM st (n 2)))
            (st.m.bind fun m => (noAlias m (n 0)).bind fun m => DomTree.setItem? m (rS st (n 0)) (as.getD 1 0) (rS st (n 2)))
          else { st with bad := true }
      | "xn", 2 => if ok 0 && ok 1 then
          fin st (Dom.extendNode st.h (rM st (n 0)) (rM st (n 1)))
            (st.m.bind fun m => (noAlias m (n 0)).bind fun m =>
              if m.kind (rS st (n 1)) = .frag then DomTree.append? m (rS st (n 0)) (rS st (n 1)) else none)
          else { st with bad := true }
      | "nm", 1 => if ok 0 then
          let r := Dom.opNormalize st.h (rM st (n 0))
          let st' := fin st r
            (st.m.bind fun m => (noAlias m (n 0)).bind fun m =>
              -- normalising through a `self` fragment leaves stale parent links on the replaced text nodes: outside the list model
              if st.owners.isEmpty then DomTree.normalize? m (rS st (n 0)) else none)
          { st' with flags := st.flags ++ [if r.2.isNone then s!"n{boolBit (noAdjacentBelow r.1 (rM st (n 0)))}" else "n-"] }
          else { st with bad := true }
      | "cl", 2 => if ok 0 then
          let deep := as.getD 1 0 != 0
          let r := if asIs && !deep then (Dom.cloneAsIs st.h (rM st (n 0)), none) else Dom.opClone st.h (rM st (n 0)) deep
          match r.2 with
          | some e => { st with err := some e }
          | none =>
            let ms := st.m.bind fun m => (noAlias m (n 0)).map fun m => DomTree.cloneLL (m.next + 2) m (rS st (n 0)) deep
            let h' := r.1.1
            let v := r.1.2
            let s0 := rM st (n 0)
            let fl := if deep then
                [s!"q{boolBit (Dom.eqNode (Dom.fuelOf h') h' v s0)}{boolBit (Dom.eqNode (Dom.fuelOf h') h' s0 v)}" ++
                 s!"d{boolBit (disjointBelow h' v s0)}"] else []
            let cs := (ms.map (·.2)).getD 0
            { st with h := h', m := ms.map (·.1), regM := st.regM ++ [v], regS := st.regS ++ [cs],
                      owners := if st.owners.contains (rS st (n 0)) then st.owners ++ [cs] else st.owners,
                      flags := st.flags ++ fl }
          else { st with bad := true }
      | "sa", 2 => if ok 0 && ok 1 then
          -- inside the list model's domain when an *empty*, unused fragment becomes the child list of a childless element
          let e := rS st (n 0)
          let f := rS st (n 1)
          let ms := st.m.bind fun m =>
            if m.kind e = .elem && m.kind f = .frag && (m.kids e).isEmpty && (m.kids f).isEmpty && !m.spent f &&
               !(st.views.any (fun v => v.1 == f)) && !(st.owners.contains e) && (st.h.attr (rM st (n 0))).isNone
            then some { m with spent := DomTree.set m.spent f true } else none
          { st with h := Dom.setSelfAttr st.h (rM st (n 0)) (rM st (n 1)), m := ms,
                    views := if ms.isSome then st.views ++ [(f, e)] else st.views,
                    owners := if ms.isSome then st.owners ++ [e] else st.owners }
          else { st with bad := true }
      | "st", 2 => if ok 0 && ok 1 then
          { st with h := Dom.setAttr2 st.h (rM st (n 0)) (rM st (n 1)), m := none }
          else { st with bad := true }
      | "ex", _ => if as.all (fun a => decide (0 ≤ a) && decide (a.toNat < st.regM.length)) && as.length ≥ 1 then
          fin st (Dom.extend st.h (rM st (n 0)) ((as.drop 1).map (fun a => rM st a.toNat)))
            (st.m.bind fun m => (noAlias m (n 0)).bind fun m => DomTree.extend? m (rS st (n 0)) ((as.drop 1).map (fun a => rS st a.toNat)))
          else { st with bad := true }
      | _, _ => { st with bad := true }

def step (asIs : Bool) (st : St) (ws : List String) : St :=
  if st.cyc || st.bad then st else
  let st' := stepRaw asIs st ws
  -- an operation that names a fragment the list model follows as a view (receiver or argument) leaves its domain
  let args := (ws.drop 1).map (fun w => (w.toNat?).getD 0)
  let pos : List Nat := match ws.head? with
    | some "in" => [0, 2] | some "si" => [0, 2] | some "pp" => [0] | some "nm" => [0] | some "cl" => [0]
    | some "sa" => [] | _ => List.range args.length
  let st' := if pos.any (fun k => st.views.any (fun v => v.1 == rS st (args.getD k 0)))
    then { st' with m := none } else st'
  if cyclic (fun n => Dom.childList st'.h n ++ (st'.h.attr2 n).toList) (Dom.fuelOf st'.h) st'.regM then { st' with cyc := true } else st'

def run (asIs : Bool) (ws : List String) : String :=
  match splitAll ";" ws with
  | [] => "bad-op"
  | pool :: ops =>
    let st0 : St := { h := Dom.init, m := some initS, regM := [0], regS := [0] }
    let st1 := pool.foldl addPool st0
    let st2 := ops.foldl (step asIs) st1
    if st2.bad then "bad-op"
    else if st2.cyc then "cyclic\t-"
    else
      let spec := match st2.m with
        | some m => dumpSpec m st2.regS st2.views
        | none => "-"
      s!"{dumpModel asIs st2.h st2.regM st2.err st2.flags}\t{spec}"

def handle : List String → String
  | "hist" :: ws => run false ws
  | "hist-asis" :: ws => run true ws
  | _ => "bad-op"

end PlasVerif.Driver.C06
