/-! Small helpers shared by the per-property driver modules (line protocol). -/
namespace PlasVerif.Driver

def joinSp (xs : List String) : String := " ".intercalate xs

def natList? (xs : List String) : Option (List Nat) := xs.mapM String.toNat?
def intList? (xs : List String) : Option (List Int) := xs.mapM String.toInt?

def showNats (xs : List Nat) : String := joinSp (xs.map toString)

/-- split a word list at the first occurrence of `sep` -/
def splitAt1 (sep : String) : List String → List String × List String
  | [] => ([], [])
  | x :: xs => if x == sep then ([], xs) else let (a, b) := splitAt1 sep xs; (x :: a, b)

/-- split a word list at every occurrence of `sep` -/
def splitAll (sep : String) (xs : List String) : List (List String) :=
  let rec go : List String → List String → List (List String)
    | [], cur => [cur.reverse]
    | x :: xs, cur => if x == sep then cur.reverse :: go xs [] else go xs (x :: cur)
  go xs []

def boolStr (b : Bool) : String := if b then "true" else "false"

end PlasVerif.Driver
