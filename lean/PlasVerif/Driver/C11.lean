import PlasVerif.Driver.Util
import PlasVerif.Model.Verbatim
import PlasVerif.Model.MathParse
import PlasVerif.Model.NoCharsub
import PlasVerif.Generated.NoCharsub
import PlasVerif.Spec.DocTree
namespace PlasVerif.Driver.C11
open PlasVerif.Driver PlasVerif.Model.Catcodes PlasVerif.Model.Tokenizer PlasVerif.Model.Verbatim
open PlasVerif.Model.MathSource PlasVerif.Model.MathParse PlasVerif.Spec.MathFormula

def cps (xs : List Nat) : String := ",".intercalate (xs.map toString)

def cps? (s : String) : Option (List Nat) :=
  if s == "-" then some [] else (s.splitOn ",").mapM String.toNat?

def tokStr : Tok → String
  | .ch cat c => s!"{cat}:{c}"
  | .space => "S"
  | .cs name => "E:" ++ ",".intercalate (name.map toString)

def resStr (r : VerbRes) : String := s!"{cps r.content}|{boolStr r.closed}|{cps r.resume}"

def bool? : String → Option Bool
  | "1" => some true | "0" => some false | _ => none

/- prefix encoding of formulas (see harness/props/c11.py `enc`) -/
def parseF : Nat → List String → Option (F × List String)
  | 0, _ => none
  | _ + 1, "N" :: r => some (.nil, r)
  | f + 1, "C" :: c :: r => do let c ← c.toNat?; let (x, r) ← parseF f r; pure (.ch c x, r)
  | f + 1, "S" :: r => do let (x, r) ← parseF f r; pure (.sp x, r)
  | f + 1, "Y" :: n :: r => do let n ← cps? n; let (x, r) ← parseF f r; pure (.sym n x, r)
  | f + 1, "X" :: c :: r => do let c ← c.toNat?; let (x, r) ← parseF f r; pure (.csym c x, r)
  | f + 1, "G" :: r => do let (b, r) ← parseF f r; let (x, r) ← parseF f r; pure (.grp b x, r)
  | f + 1, "U" :: b :: r => do let b ← bool? b; let (a, r) ← parseF f r; let (x, r) ← parseF f r; pure (.sup b a x, r)
  | f + 1, "D" :: b :: r => do let b ← bool? b; let (a, r) ← parseF f r; let (x, r) ← parseF f r; pure (.sub b a x, r)
  | f + 1, "1" :: n :: b :: r => do
    let n ← cps? n; let b ← bool? b; let (a, r) ← parseF f r; let (x, r) ← parseF f r; pure (.cmd1 n b a x, r)
  | f + 1, "2" :: n :: b1 :: b2 :: r => do
    let n ← cps? n; let b1 ← bool? b1; let b2 ← bool? b2
    let (a1, r) ← parseF f r; let (a2, r) ← parseF f r; let (x, r) ← parseF f r; pure (.cmd2 n b1 a1 b2 a2 x, r)
  | f + 1, "R" :: b :: r => do
    let b ← bool? b; let (o, r) ← parseF f r; let (a, r) ← parseF f r; let (x, r) ← parseF f r; pure (.root o b a x, r)
  | f + 1, "M" :: r => do let (b, r) ← parseF f r; let (x, r) ← parseF f r; pure (.math b x, r)
  | f + 1, "A" :: s :: r => do let s ← cps? s; let (b, r) ← parseF f r; let (x, r) ← parseF f r; pure (.arr s b x, r)
  | f + 1, "&" :: r => do let (x, r) ← parseF f r; pure (.amp x, r)
  | _, _ => none

def kind? : String → Option Kind
  | "inline" => some .inline | "display" => some .display | "equation" => some .equation | _ => none

/-- `mathjax_source` of the formula node -/
def mathjaxTop : Kind → F → List Nat
  | .inline, f => mathjaxInline (mathTree f)
  | k, f => mathjaxLtGt (src (top k f))

def handle : List String → String
  -- venv <begun> <name> <body> <rest> (comma separated code points, `-` = empty): environment body followed by its end marker and more input
  | ["venv", b, n, bd, rs] | ["vdoc", b, n, bd, rs] | ["vdocp", b, n, bd, rs] =>
    match bool? b, cps? n, cps? bd, cps? rs with
    | some b, some name, some body, some rest =>
      let pat := (patterns b 92 123 125 name).1
      let r := verbatimEnv b 92 123 125 name (body ++ pat ++ rest)
      let asis := verbatimEnvAsIs b 92 123 125 name (body ++ pat ++ rest)
      let spec := if decide (FirstIsFinal pat body) then resStr ⟨body, true, rest⟩ else "-"
      s!"{resStr r}\t{spec}\t{resStr asis}"
    | _, _, _, _ => "bad-op"
  -- venva/vdoca/vdocpa <written name> <class name> <body> <rest> : `\begin{written}` under a `\let` alias of the class
  | ["venva", wn, cn, bd, rs] | ["vdoca", wn, cn, bd, rs] | ["vdocpa", wn, cn, bd, rs] =>
    match cps? wn, cps? cn, cps? bd, cps? rs with
    | some written, some cls, some body, some rest =>
      let pat := endPattern 92 123 125 written
      let r := verbatimBegun 92 123 125 written cls (body ++ pat ++ rest)
      let byClass := verbatimEnv true 92 123 125 cls (body ++ pat ++ rest)
      let spec := if decide (FirstIsFinal pat body) then resStr ⟨body, true, rest⟩ else "-"
      s!"{resStr r}\t{spec}\t{resStr byClass}"
    | _, _, _, _ => "bad-op"
  -- venvraw <begun> <name> | <input> : arbitrary input after \begin{name} (model only)
  | ["venvraw", b, n, inp] =>
    match bool? b, cps? n, cps? inp with
    | some b, some name, some input => s!"{resStr (verbatimEnv b 92 123 125 name input)}\t-"
    | _, _, _ => "bad-op"
  -- verb <star> <delimiter> | <body> | <rest>
  | ["verb", st, d, bd, rs] | ["verbdoc", st, d, bd, rs] | ["verbdocp", st, d, bd, rs] =>
    match bool? st, d.toNat?, cps? bd, cps? rs with
    | some st, some d, some body, some rest =>
      let input := (if st then [42] else []) ++ d :: body ++ closing d :: rest
      let m := match verbCmd input with
        | some r => s!"{boolStr r.star}|{resStr r.res}"
        | none => "err:UnboundLocalError"
      let inDomain := !body.contains (closing d) && (st || d != 42)
      let spec := if inDomain then s!"{boolStr st}|{resStr ⟨body, true, rest⟩}" else "-"
      s!"{m}\t{spec}\t{boolStr (delimiterUsableAsIs d)}"
    | _, _, _, _ => "bad-op"
  | ["verbraw", inp] =>
    match cps? inp with
    | some input =>
      (match verbCmd input with
        | some r => s!"{boolStr r.star}|{resStr r.res}"
        | none => "err:UnboundLocalError") ++ "\t-"
    | none => "bad-op"
  -- msrc <kind> <formula…>
  | "msrc" :: k :: ws =>
    match kind? k, parseF (ws.length + 1) ws with
    | some k, some (f, []) =>
      let s := src (top k f)
      let model := s!"{cps s}|{cps (mathjaxTop k f)}"
      let ok := WF f && !f.isNil
      let spec := if ok then joinSp ((topToks k f).map tokStr) else "-"
      let relex := joinSp ((stripBlanks (tokenize defaultCats s)).map tokStr)
      s!"{model}\t{spec}\t{relex}\t{cps (render f)}\t{joinSp ((toks f).map tokStr)}"
    | _, _ => "bad-op"
  -- nsub <class> <nested> <chars> : `node.normalize(document.charsubs)` on a node of the class holding the characters
  --   (one element deeper when nested); the class's `nosub` flag comes from the regenerated table
  | ["nsub", cls, nested, w] =>
    match cps? w, bool? nested, PlasVerif.Generated.NoCharsub.nosubClasses.lookup cls with
    | some chars, some nested, some flag =>
      let kids := chars.map PlasVerif.Model.NoCharsub.charTok
      let inner := if nested then
          [PlasVerif.Model.Digest.Tree.node (PlasVerif.Model.NoCharsub.groupItem (.item 2)) (.item 1) kids]
        else kids
      let it := { PlasVerif.Model.NoCharsub.nosubItem (.item 1) 1 .env with nosub := flag }
      let out := PlasVerif.Spec.DocTree.allChars (PlasVerif.Model.Digest.norm true (.node it .unset inner))
      let spec := if noSubstitutionClasses.contains cls then cps chars else "-"
      s!"{cps out}\t{spec}"
    | _, _, _ => "bad-op"
  -- mgrp <chars> : text of a brace group inside mathematics after its digest-time normalisation
  --   model = repaired variant (no substitution in mathematics), aux = the pinned (as-is) variant (D17)
  | ["mgrp", w] =>
    match cps? w with
    | some chars =>
      let node := PlasVerif.Model.Digest.Tree.node (PlasVerif.Model.NoCharsub.groupItem (.item 2)) (.item 1)
        (chars.map PlasVerif.Model.NoCharsub.charTok)
      let repaired := PlasVerif.Spec.DocTree.allChars (PlasVerif.Model.NoCharsub.paragraphsInMath true node)
      let asis := PlasVerif.Spec.DocTree.allChars (PlasVerif.Model.Digest.paragraphs false node)
      s!"{cps repaired}\t{cps chars}\t{cps asis}"
    | none => "bad-op"
  | _ => "bad-op"

end PlasVerif.Driver.C11
