import PlasVerif.Driver.Util
import PlasVerif.Driver.C05Sig
import PlasVerif.Model.Args
import PlasVerif.Spec.Literals
import PlasVerif.Spec.Conform
import PlasVerif.Spec.Calls
import PlasVerif.Generated.ArgPaths
import PlasVerif.Generated.CatPaths
import PlasVerif.Spec.Mode
import PlasVerif.Generated.Ligatures
/-!
Driver of C05.  Streams (words after `C05`):
  num <int|dec|dim|dimasis|glue|glueasis> <tok>…     raw token lists (also malformed): model only
  lit <literal> | <tok>…                             literal AST + following tokens: model, spec, rendered tokens
  arg <n> <argdecl>… | <tok>…                        signature (compiled form) + tokens: model of Macro.parse
  call <n> <argdecl+value>… | <tok>…                 structured call: model, spec, rendered tokens
  sig / sigtree …                                     signature compiler (Driver/C05Sig.lean)
  paths                                               enable/disable balance of the regenerated skeletons
token words: c<code> | s | { | } | x<c.c.c> (control sequence) | r<int> (register with value)
-/
namespace PlasVerif.Driver.C05
open PlasVerif.Driver PlasVerif.Model.Numbers PlasVerif.Model.Args PlasVerif.Spec.Literals PlasVerif.Spec.Calls PlasVerif.Spec.Conform

def cps? (w : String) : Option (List Nat) :=
  if w == "-" then some [] else (w.splitOn ".").mapM String.toNat?

def tok? (w : String) : Option Tok :=
  if w == "s" then some .sp
  else if w == "{" then some (.bg false)
  else if w == "}" then some (.eg false)
  else if w.startsWith "c" then (w.drop 1).toString.toNat?.map .ch
  else if w.startsWith "x" then (cps? (w.drop 1).toString).map (.cs · false)
  else if w.startsWith "r" then (w.drop 1).toString.toInt?.map (.reg · false)
  else none

def tokWord : Tok → String
  | .ch c => s!"c{c}" | .sp => "s" | .bg _ => "{" | .eg _ => "}"
  | .cs n _ => "x" ++ ".".intercalate (n.map toString)
  | .reg v _ => s!"r{v}"

/-- code points of the TeX source of a token (`Token.source`) -/
def tokSrc : Tok → List Nat
  | .ch c => [c] | .sp => [32] | .bg _ => [123] | .eg _ => [125]
  | .cs n _ => 92 :: n ++ [32]
  | .reg v _ => [92, 114, 103] ++ (if v < 0 then [109] else []) ++ (toString v.natAbs).toList.map (·.toNat + 49) ++ [32]

def srcOf (ts : List Tok) : String := ".".intercalate ((ts.flatMap tokSrc).map toString)
def cpsStr (s : List Nat) : String := ".".intercalate (s.map toString)

def ratStr (q : Rat) : String := s!"q:{q.num}/{q.den}"
def optRat : Option Rat → String | none => "N" | some q => ratStr q
def numErr : PlasVerif.Model.Numbers.Err → String
  | .unbound => "err:UnboundLocalError" | .typeErr => "err:TypeError"

def showI : Except PlasVerif.Model.Numbers.Err (Int × List Tok) → String
  | .ok (v, r) => s!"ok i:{v} rest:{srcOf r}" | .error e => numErr e
def showQ : Except PlasVerif.Model.Numbers.Err (Rat × List Tok) → String
  | .ok (v, r) => s!"ok {ratStr v} rest:{srcOf r}" | .error e => numErr e
def showD : Except PlasVerif.Model.Numbers.Err (Rat × List Tok) → String
  | .ok (v, r) => s!"ok o:{(decode v).1} {ratStr (decode v).2} rest:{srcOf r}" | .error e => numErr e
def decStr (v : Rat) : String := s!"o:{(decode v).1} {ratStr (decode v).2}"
def optDec : Option Rat → String | none => "N" | some v => decStr v
def showG : Except PlasVerif.Model.Numbers.Err (Glue × List Tok) → String
  | .ok (g, r) => s!"ok {decStr g.dim} plus {optDec g.stretch} minus {optDec g.shrink} rest:{srcOf r}"
  | .error e => numErr e

def dvStr (d : DimVal) : String := s!"o:{d.order} {ratStr d.amount}"
def optDv : Option DimVal → String | none => "N" | some d => dvStr d

/- ---------- literal parser ---------- -/
def digits? (w : String) : Option (List Nat) := cps? w

def parseSignItems : Nat → List String → Option (List (Bool × Nat) × List String)
  | 0, r => some ([], r)
  | n + 1, w :: r => do
    let m ← (if w.startsWith "m" then some true else if w.startsWith "p" then some false else none)
    let k ← (w.drop 1).toString.toNat?
    let (xs, r) ← parseSignItems n r
    pure ((m, k) :: xs, r)
  | _, _ => none

def parseSigns : List String → Option (Signs × List String)
  | "S" :: lead :: n :: r => do
    let (xs, r) ← parseSignItems (← n.toNat?) r
    pure (⟨← lead.toNat?, xs⟩, r)
  | _ => none

def parseDecBody : List String → Option (DecBody × List String)
  | ip :: sep :: fp :: r => do
    let s ← (match sep with | "n" => some none | "c" => some (some true) | "p" => some (some false) | _ => none)
    pure (⟨← digits? ip, s, ← digits? fp⟩, r)
  | _ => none

def parseUnit : List String → Option (UnitLit × List String)
  | pre :: tru :: kind :: spelling :: space :: r => do
    let t ← (if tru == "-" then some none else
              match tru.splitOn "/" with
              | [w, k] => do pure (some (← cps? w, ← k.toNat?))
              | _ => none)
    let k ← (if kind.startsWith "p" then (kind.drop 1).toString.toNat?.map UnitKind.phys
             else if kind.startsWith "f" then (kind.drop 1).toString.toNat?.map UnitKind.fil
             else if kind.startsWith "r" then (kind.drop 1).toString.toInt?.map UnitKind.reg else none)
    pure (⟨← pre.toNat?, t, k, ← cps? spelling, space == "1"⟩, r)
  | _ => none

def dummyUnit : UnitLit := ⟨0, none, .phys 0, [], false⟩

def parseDim : List String → Option (DimLit × List String)
  | "M" :: r => do
    let (sg, r) ← parseSigns r
    match r with
    | "B" :: r => do
      let (b, r) ← parseDecBody r
      match r with
      | "U" :: r => do let (u, r) ← parseUnit r; pure (⟨sg, .inl b, u⟩, r)
      | _ => none
    | "R" :: v :: r => do pure (⟨sg, .inr (← v.toInt?), dummyUnit⟩, r)
    | _ => none
  | _ => none

def parsePM (tag : String) : List String → Option (Option (Nat × List Nat × DimLit) × List String)
  | t :: "-" :: r => if t == tag then some (none, r) else none
  | t :: k :: w :: r => if t == tag then do
      let (d, r) ← parseDim r
      pure (some (← k.toNat?, ← cps? w, d), r) else none
  | _ => none

inductive Lit where
  | i (l : IntLit) | d (l : DecLit) | m (l : DimLit) | g (l : GlueLit)

def parseLit : List String → Option (Lit × List String)
  | "I" :: r => do
    let (sg, r) ← parseSigns r
    match r with
    | k :: v :: sp :: r => do
      let body ← (match k with
        | "d" => (digits? v).map IntBody.dec | "o" => (digits? v).map IntBody.oct | "h" => (digits? v).map IntBody.hex
        | "c" => v.toNat?.map IntBody.chr | "C" => v.toNat?.map IntBody.chrCs | "r" => v.toInt?.map IntBody.reg
        | _ => none)
      pure (.i ⟨sg, body, sp == "1"⟩, r)
    | _ => none
  | "D" :: r => do
    let (sg, r) ← parseSigns r
    let (b, r) ← parseDecBody r
    pure (.d ⟨sg, b⟩, r)
  | "M" :: r => do let (d, r) ← parseDim ("M" :: r); pure (.m d, r)
  | "G" :: r => do
    let (sg, r) ← parseSigns r
    let (d, r) ← parseDim r
    let (p, r) ← parsePM "P" r
    let (n, r) ← parsePM "N" r
    pure (.g ⟨sg, d, p, n⟩, r)
  | _ => none

def handleLit (ws : List String) : String :=
  match parseLit ws with
  | some (l, "|" :: restW) =>
    match restW.mapM tok? with
    | none => "bad-op"
    | some rest =>
      match l with
      | .i l =>
        let toks := l.render
        s!"{showI (readInteger true (toks ++ rest))}\t{if l.wf && intFollow l rest then s!"ok i:{l.den} rest:{srcOf rest}" else "-"}\t{joinSp (toks.map tokWord)}"
      | .d l =>
        let toks := l.render
        s!"{showQ (readDecimal (toks ++ rest))}\t{if l.body.wf && decFollow l.body rest then s!"ok {ratStr l.den} rest:{srcOf rest}" else "-"}\t{joinSp (toks.map tokWord)}"
      | .m l =>
        let toks := l.render
        let sp := if dimWf true l && dimFollow l rest then s!"ok {dvStr l.den} rest:{srcOf rest}" else "-"
        s!"{showD (readDimen stretchUnits (toks ++ rest))}\t{sp}\t{joinSp (toks.map tokWord)}"
      | .g l =>
        let toks := l.render
        let v := l.den
        let sp := if glueWf l && glueFollow l rest then s!"ok {dvStr v.dim} plus {optDv v.stretch} minus {optDv v.shrink} rest:{srcOf rest}" else "-"
        s!"{showG (readGlue (toks ++ rest))}\t{sp}\t{joinSp (toks.map tokWord)}"
  | _ => "bad-op"

/- ---------- arguments ---------- -/
def ty? : String → Option Ty
  | "none" => some .none | "str" => some .str | "int" => some .int | "float" => some .float | "dimen" => some .dimen
  | "list" => some .list | "dict" => some .dict | "nox" => some .nox | "tok" => some .token
  | "Number" => some .tNumber | "Dimen" => some .tDimen | "Glue" => some .tGlue | _ => none

def spec? (w : String) : Option Spec :=
  if w == "t" then some .tok
  else match w.splitOn "." with
    | [c] => c.toNat?.map .chr
    | [b, e] => do pure (.pair (← b.toNat?) (← e.toNat?))
    | _ => none

/-- argdecl ::= <spec> <type> <delim code|-> <subtype> -/
def parseArgs : Nat → List String → Option (List Arg × List String)
  | 0, r => some ([], r)
  | n + 1, sp :: ty :: dl :: sub :: r => do
    let d ← (if dl == "-" then some 44 else dl.toNat?)
    let (as, r) ← parseArgs n r
    pure (({ spec := ← spec? sp, ty := ← ty? ty, delim := d, sub := ← ty? sub } : Arg) :: as, r)
  | _, _ => none

def insertKV (kv : List Nat × String) : List (List Nat × String) → List (List Nat × String)
  | [] => [kv]
  | x :: r => if kv.1 < x.1 then kv :: x :: r else x :: insertKV kv r

mutual
def valStr : Val → String
  | .absent => "N"
  | .toks ts => s!"f:{srcOf ts}"
  | .str s => s!"s:{cpsStr s}"
  | .int i => s!"i:{i}"
  | .rat q => ratStr q
  | .glue g => s!"g( {decStr g.dim} {optDec g.stretch} {optDec g.shrink} )"
  | .tt => "T"
  | .list xs => "L( " ++ valsStr xs ++ ")"
  | .dict kvs => "D( " ++ joinSp (((kvsStr kvs).foldr insertKV []).map (fun kv => s!"k:{cpsStr kv.1} {kv.2}")) ++ " )"
def valsStr : List Val → String
  | [] => ""
  | v :: r => valStr v ++ " " ++ valsStr r
def kvsStr : List (List Nat × Val) → List (List Nat × String)
  | [] => []
  | (k, v) :: r => (k, valStr v) :: kvsStr r
end

def argErr : PlasVerif.Model.Args.Err → String
  | .num e => numErr e | .attr => "err:AttributeError"

def srcPieces (ss : List (Option (List Tok))) : String :=
  if ss.all Option.isSome then ".".intercalate (((ss.filterMap id).flatten.flatMap tokSrc).map toString) else "?"

def showParse : Except PlasVerif.Model.Args.Err (List Val × List (Option (List Tok)) × List Tok) → String
  | .ok (vs, ss, r) => s!"ok {valsStr vs}src:{srcPieces ss} rest:{srcOf r}"
  | .error e => argErr e

def handleArg (ws : List String) : String :=
  match ws with
  | n :: r =>
    match n.toNat? with
    | none => "bad-op"
    | some n =>
      match parseArgs n r with
      | some (as, "|" :: tw) =>
        match tw.mapM tok? with
        | some ts => s!"{showParse (parse as ts)}\t-"
        | none => "bad-op"
      | _ => "bad-op"
  | _ => "bad-op"

/- structured calls: per argument `<spec> <pre> <P|A> <k> <tok>*k` (content tokens; P present / A absent) -/
def parseCall : Nat → List String → Option (List ArgCall × List String)
  | 0, r => some ([], r)
  | n + 1, sp :: pre :: pa :: k :: r => do
    let k ← k.toNat?
    let ws := r.take k
    let toks ← ws.mapM tok?
    let (cs, r) ← parseCall n (r.drop k)
    pure (⟨← spec? sp, ← pre.toNat?, if pa == "P" then some toks else none⟩ :: cs, r)
  | _, _ => none

def showDelims (r : List (Option (List Tok)) × List Tok) : String :=
  "ok " ++ joinSp (r.1.map (fun | none => "N" | some ts => s!"f:{srcOf ts}")) ++ s!" rest:{srcOf r.2}"

def handleCall (ws : List String) : String :=
  match ws with
  | n :: r =>
    match n.toNat? with
    | none => "bad-op"
    | some n =>
      match parseCall n r with
      | some (cs, "|" :: tw) =>
        match tw.mapM tok? with
        | some rest =>
          let toks := renderCall cs
          let m := delimitAll (cs.map (·.spec)) (toks ++ rest)
          let sp := if wfCall cs rest then showDelims (cs.map (·.content), rest) else "-"
          s!"{showDelims m}\t{sp}\t{joinSp (toks.map tokWord)}"
        | none => "bad-op"
      | _ => "bad-op"
  | _ => "bad-op"

def handle : List String → String
  | "num" :: kind :: ws =>
    match ws.mapM tok? with
    | none => "bad-op"
    | some ts =>
      match kind with
      | "int" => s!"{showI (readInteger true ts)}\t-"
      | "dec" => s!"{showQ (readDecimal ts)}\t-"
      | "dim" => s!"{showD (readDimen stretchUnits ts)}\t-"
      | "dimasis" => s!"{showD (readDimenAsIs stretchUnits ts)}\t-"
      | "glue" => s!"{showG (readGlue ts)}\t-"
      | "glueasis" => s!"{showG (readGlueAsIs ts)}\t-"
      | _ => "bad-op"
  | "lit" :: ws => handleLit ws
  | "arg" :: ws => handleArg ws
  | "call" :: ws => handleCall ws
  | "sig" :: ws => C05Sig.handle ("sig" :: ws)
  | "sigtree" :: ws => C05Sig.handle ("sigtree" :: ws)
  | ["paths"] =>
    match PlasVerif.Model.EnableBalance.firstUnbalanced PlasVerif.Generated.ArgPaths.skeletons with
    | none => "balanced\tbalanced"
    | some f => s!"unbalanced:{f}\tbalanced"
  | "mode" :: ws =>
    -- context stack, outermost first: T / F = the context's object sets math / text mode, N = it sets none
    match ws.mapM (fun w => if w == "T" then some (some true) else if w == "F" then some (some false)
                            else if w == "N" then some none else none) with
    | some st => s!"ok:{boolStr (PlasVerif.Model.Mode.isMathMode st)}\tok:{boolStr (PlasVerif.Spec.Mode.modeAfter st)}"
    | none => "bad-op"
  | "ligs" :: ws =>
    -- `<stack words> | <text code points>`: the text of a plain-text argument written under that context stack
    let (sw, tw) := splitAt1 "|" ws
    match sw.mapM (fun w => if w == "T" then some (some true) else if w == "F" then some (some false)
                            else if w == "N" then some none else none), natList? tw with
    | some st, some t =>
      let m := PlasVerif.Model.Mode.argText st PlasVerif.Generated.Ligatures.charsubs t
      let sp := if PlasVerif.Spec.Mode.modeAfter st then s!"t:{cpsStr t}" else "-"
      s!"t:{cpsStr m}\t{sp}"
    | _, _ => "bad-op"
  | ["catpaths"] =>
    match PlasVerif.Model.EnableBalance.firstUnbalanced PlasVerif.Generated.CatPaths.catSkeletons with
    | none => "balanced\tbalanced"
    | some f => s!"unbalanced:{f}\tbalanced"
  | _ => "bad-op"

end PlasVerif.Driver.C05
