import PlasVerif.Driver.Util
import PlasVerif.Spec.NumberingRules
/-!
Line protocol of C08.
  num <fmt> <v>                       representation of one value
  ctr <event…>                        counter operations on an empty context
  doc8 <book|article> <secnumdepth> <event…>   a document history
  fmt V:name:val… (M:the:trim:n <piece…> | F:the:trim:<code points of the raw format>)… E:macro     one `\the…` evaluation
event words: SH:fmt:c ST:c RT:c:piece;piece… TV:n:m AV:n:m IC:n:v C:tag:counter:star:level  H:env  T:n:v  A:n:v  S:n  N:n:within|-  NT:name:shared|-:within|-:star
             BL EL I:tag:hasTerm QB QR NN AP:ctr
-/
namespace PlasVerif.Driver.C08
open PlasVerif.Driver PlasVerif.Model.Counters PlasVerif.Model.Numbering PlasVerif.Spec.NumberingRules
open PlasVerif.Generated.Counters

def errStr : Err → String
  | .keyError => "err:KeyError" | .indexError => "err:IndexError"
  | .recursionError => "err:RecursionError" | .attributeError => "err:AttributeError"

def opt (s : String) : Option String := if s == "-" then none else some s
def flag (s : String) : Bool := s == "1"

def decodeLit (s : String) : String :=
  String.ofList (((s.splitOn "_").filterMap String.toNat?).map Char.ofNat)

/-- a piece of a user `\the…` body: `L<codes>` literal, `K,fmt,name` = `\fmt{name}`, `M,name` = `\name` -/
def upiece? (w : String) : Option Piece :=
  if w.startsWith "L" then some (.lit (decodeLit (w.drop 1).toString))
  else match w.splitOn "," with
    | ["K", f, n] => some (.call f n)
    | ["M", n] => some (.macro n)
    | _ => none

def ev? (w : String) : Option Ev :=
  match w.splitOn ":" with
  | ["SH", f, c] => some (.show f c)
  | ["ST", c] => some (.showThe c)
  | ["RT", c, body] => ((body.splitOn ";").mapM upiece?).map fun ps => .renewThe c ps
  | ["TV", n, m] => some (.setcv n m)
  | ["AV", n, m] => some (.addcv n m)
  | ["IC", n, v] => v.toInt?.map fun v => .initc n v
  | ["C", tag, c, st, lvl] => lvl.toInt?.map fun l => .construct tag c (flag st) l
  | ["H", env] => some (.thm env)
  | ["T", n, v] => v.toInt?.map fun v => .setc n v
  | ["A", n, v] => v.toInt?.map fun v => .addc n v
  | ["S", n] => some (.stepc n)
  | ["N", n, w] => some (.newcounter n (opt w))
  | ["NT", name, sh, w, st] => some (.newtheorem name (opt sh) (opt w) (flag st))
  | ["BL"] => some .beginList
  | ["EL"] => some .endList
  | ["I", tag, t] => some (.item tag (flag t))
  | ["QB"] => some .eqnBegin
  | ["QR"] => some .eqRow
  | ["NN"] => some .nonumber
  | ["AP", c] => some (.appendix c)
  | _ => none

def outsStr (outs : List Out) : String :=
  ";".intercalate ((outs.reverse.filter fun o => o.tag != "bullet").map fun o => o.tag ++ "=" ++ (o.ref.getD "-"))

def storeStr (s : Store) (sorted : Bool) : String :=
  let xs := s.map fun c => c.name ++ "=" ++ toString c.value
  ",".intercalate (if sorted then (xs.toArray.qsort (· < ·)).toList else xs)

def valsStr (v : List (String × Int)) : String := ",".intercalate (v.map fun p => p.1 ++ "=" ++ toString p.2)

def emptySt : St := { store := [], thes := [], depth := 0, secnumdepth := 2, envs := [], outs := [] }

def piece? (w : String) : Option Piece :=
  if w.startsWith "L" then some (.lit (decodeLit (w.drop 1).toString))
  else match w.splitOn ":" with
    | ["R", n, f] => some (.ref n (opt f))
    | _ => none

/-- parse the words of a `fmt` request -/
def parseFmt : Nat → List String → Store → TheEnv → Option (Store × TheEnv × String)
  | 0, _, _, _ => none
  | fuel + 1, w :: ws, s, env =>
    match w.splitOn ":" with
    | ["V", n, v] => v.toInt?.bind fun v => parseFmt fuel ws (s ++ [{ name := n, resetby := none, value := v }]) env
    | ["M", m, tr, k] =>
      k.toNat?.bind fun k =>
        ((ws.take k).mapM piece?).bind fun ps =>
          parseFmt fuel (ws.drop k) s (env ++ [(m, { pieces := ps, trimLeft := flag tr })])
    | ["F", m, tr, codes] =>
      parseFmt fuel ws s (env ++ [(m, { pieces := splitFormat (decodeLit codes), trimLeft := flag tr })])
    | ["E", m] => some (s, env, m)
    | _ => none
  | _, [], _, _ => none

def specNum (fmt : String) (v : Int) : String :=
  match stdRepresent v fmt with
  | some r => "ok:" ++ r
  | none => "-"

def handle : List String → String
  | ["num", fmt, v] =>
    match v.toInt? with
    | some v =>
      let m := match represent v fmt with | .ok s => "ok:" ++ s | .error e => errStr e
      s!"{m}\t{specNum fmt v}"
    | none => "bad-op"
  | "ctr" :: ws =>
    match ws.mapM ev? with
    | some evs =>
      let m := match run emptySt evs with | .ok st => "ok:" ++ storeStr st.store false | .error e => errStr e
      let S0 : LState := { linit .article 2 with vals := [], parent := [] }
      let sp := match lrun S0 evs with | some S => "ok:" ++ valsStr S.vals | none => "-"
      s!"{m}\t{sp}"
    | none => "bad-op"
  | "doc8" :: cls :: snd :: ws =>
    match ws.mapM ev?, snd.toInt? with
    | some evs, some d =>
      let st0 := if cls == "book" then initSt bookCounters bookThes d else initSt articleCounters articleThes d
      let m := match run st0 evs with
        | .ok st => "ok:" ++ outsStr st.outs ++ "#" ++ storeStr st.store true
        | .error e => errStr e
      let sp := match lrun (linit (if cls == "book" then .book else .article) d) evs with
        | some S => "ok:" ++ outsStr S.outs ++ "#" ++ valsStr (S.vals.drop (stdCounters S.cls).length)
        | none => "-"
      -- hypotheses of the list theorems, checked on this very input: every event is `listSafe`, the history is
      -- well nested (`stackAfter` defined), and the initial state satisfies `ListInv … []`
      let hyp := s!"L:{boolStr (evs.all listSafe)}:{boolStr (stackAfter [] evs).isSome}:{boolStr (decide (ListInv st0 []))}"
      s!"{m}\t{sp}\t{hyp}"
    | _, _ => "bad-op"
  | "fmt" :: ws =>
    match parseFmt (ws.length + 1) ws [] [] with
    | some (s, env, m) =>
      let r := match evalThe (theFuel env) env s m with | .ok t => "ok:" ++ t | .error e => errStr e
      let sp := match substEval (theFuel env) env s m with | some t => "ok:" ++ t | none => "-"
      s!"{r}\t{sp}"
    | none => "bad-op"
  | _ => "bad-op"

end PlasVerif.Driver.C08
