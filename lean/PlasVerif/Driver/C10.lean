import PlasVerif.Driver.Util
import PlasVerif.Spec.TableTree
import PlasVerif.Spec.ListNumbers
namespace PlasVerif.Driver.C10
open PlasVerif.Driver PlasVerif.Model.Lists PlasVerif.Model.Arrays PlasVerif.Spec.ListTree PlasVerif.Spec.TableTree

/-! ### kind codes -/

def bit (b : Bool) : String := if b then "1" else "0"
def clsStr : Cls → String | .env => "e" | .list => "l" | .array => "a"

def kindStr : Kind → String
  | .text s => s!"t{s}" | .space => "s" | .par => "P" | .cmd s => s!"c{s}" | .setcounter => "sc" | .low => "lo"
  | .hline => "hl" | .cline a b => s!"cl{a}-{b}" | .vline => "vl"
  | .mcol n st s => s!"mc{n}.{st.align}.{bit st.bl}.{bit st.br}.{s}"
  | .begin_ c t => s!"B{clsStr c}{t}" | .end_ c t => s!"E{clsStr c}{t}"
  | .grpB => "{" | .grpE => "}" | .item t => s!"i{t}" | .amp => "&" | .endrow => "nl" | .row => "row" | .cell => "cell"

def cls? : Char → Option Cls | 'e' => some .env | 'l' => some .list | 'a' => some .array | _ => none
def bool? : String → Option Bool | "1" => some true | "0" => some false | _ => none

def kind? (w : String) : Option Kind :=
  match w with
  | "s" => some .space | "P" => some .par | "sc" => some .setcounter | "lo" => some .low
  | "hl" => some .hline | "vl" => some .vline | "{" => some .grpB | "}" => some .grpE
  | "&" => some .amp | "nl" => some .endrow | "row" => some .row | "cell" => some .cell
  | _ =>
    if w.startsWith "mc" then
      match ((w.drop 2).toString.splitOn ".") with
      | [n, a, bl, br, s] => do pure (.mcol (← n.toNat?) ⟨← a.toNat?, ← bool? bl, ← bool? br⟩ (← s.toNat?))
      | _ => none
    else if w.startsWith "cl" then
      match ((w.drop 2).toString.splitOn "-") with
      | [a, b] => do pure (.cline (← a.toNat?) (← b.toNat?))
      | _ => none
    else if w.startsWith "t" then (w.drop 1).toString.toNat?.map .text
    else if w.startsWith "c" then (w.drop 1).toString.toNat?.map .cmd
    else if w.startsWith "i" then (w.drop 1).toString.toNat?.map .item
    else if w.startsWith "B" then do
      let c ← cls? ((w.drop 1).toString.front); pure (.begin_ c (← (w.drop 2).toString.toNat?))
    else if w.startsWith "E" then do
      let c ← cls? ((w.drop 1).toString.front); pure (.end_ c (← (w.drop 2).toString.toNat?))
    else none

def tok? (w : String) : Option Node :=
  match w.splitOn ":" with
  | [d, k] => do pure (mkT (← d.toNat?) (← kind? k))
  | _ => none

/-! ### canonical shape of a tree (blanks and `\par` dropped) -/

def isContainer : Kind → Bool
  | .begin_ _ _ | .grpB | .item _ | .row | .cell => true
  | _ => false

/-- rows that `Array.applyBorders` pops (inside `Array.digest`) are not shown -/
def keepRow (r : Node) : Bool := !(r.kind == .row && rowBorderOnly ((r.ch.filter (·.kind == .cell)).map cellOf))

/- `ctx`: 0 = inside an item, cell, group, environment (blanks and `par` wrappers are dropped);
   1 = direct children of an array (border-only rows pruned), 2 = direct children of a list or row.
   In 1 and 2 the children must be the rows / items / cells themselves: a `par` there is shown. -/
mutual
def shape (ctx : Nat) : Node → List String
  | .mk t ch =>
    match t.kind with
    | .space => []
    | .par => if ctx == 0 then shapes 0 ch else "P(" :: (shapes 0 ch ++ [")"])
    | .begin_ .array ty => (kindStr (.begin_ .array ty) ++ "(") :: (shapes 1 ch ++ [")"])
    | .begin_ .list ty => (kindStr (.begin_ .list ty) ++ "(") :: (shapes 2 ch ++ [")"])
    | .row => "row(" :: (shapes 2 ch ++ [")"])
    | k => if isContainer k then (kindStr k ++ "(") :: (shapes 0 ch ++ [")"]) else [kindStr k]
def shapes : Nat → List Node → List String
  | _, [] => []
  | ctx, n :: ns => (if ctx == 1 && !keepRow n then [] else shape ctx n) ++ shapes ctx ns
end

def shapeStr (ns : List Node) : String := joinSp (shapes 0 ns)

/-! ### block trees, prefix encoded -/

/-- leading blanks: a word over `s` (space) and `P` (blank line / `\par`) -/
def lead? (w : String) : Option (List Bool) :=
  w.toList.mapM fun c => if c == 's' then some false else if c == 'P' then some true else none

mutual
def pBlock : Nat → List String → Option (Block × List String)
  | 0, _ => none
  | f + 1, w :: r =>
    if w.startsWith "L" then (kind? (w.drop 1).toString).map fun k => (.leaf k, r)
    else if w == "G(" then do let (bs, r) ← pBlocks f r; pure (.grp bs, r)
    else if w.startsWith "V" then do
      let ty ← ((w.drop 1).toString.dropEnd 1).toString.toNat?
      let (bs, r) ← pBlocks f r; pure (.env ty bs, r)
    else if w.startsWith "I" then
      match (((w.drop 1).toString.dropEnd 1).toString.splitOn ".") with
      | [ty, nsp] => do let (is, r) ← pItems f r; pure (.list (← ty.toNat?) (← lead? nsp) is, r)
      | _ => none
    else if w.startsWith "A" then do
      let ty ← ((w.drop 1).toString.dropEnd 1).toString.toNat?
      let (c, r) ← pCellBody f r
      let (cs, r) ← pCells f r
      let (rs, r) ← pRows f r
      pure (.table ty c cs rs, r)
    else none
  | _, [] => none
/-- blocks up to the closing `)` (consumed) -/
def pBlocks : Nat → List String → Option (Blocks × List String)
  | 0, _ => none
  | _ + 1, ")" :: r => some (.nil, r)
  | f + 1, ws => do let (b, r) ← pBlock f ws; let (bs, r) ← pBlocks f r; pure (.cons b bs, r)
def pItems : Nat → List String → Option (Items × List String)
  | 0, _ => none
  | _ + 1, ")" :: r => some (.nil, r)
  | f + 1, w :: r =>
    if w.startsWith "itD" then
      -- `itD<term>.<lead>.<ty>(` body `)` `D(` content of the trailing declaration `)`
      match (((w.drop 3).toString.dropEnd 1).toString.splitOn ".") with
      | [t, nsp, ty] => do
        let (b, r) ← pBlocks f r
        match r with
        | "D(" :: r => do
          let (db, r) ← pBlocks f r
          let (is, r) ← pItems f r
          pure (.consD (← t.toNat?) (← lead? nsp) b (← ty.toNat?) db is, r)
        | _ => none
      | _ => none
    else if w.startsWith "it" then
      match (((w.drop 2).toString.dropEnd 1).toString.splitOn ".") with
      | [t, nsp] => do
        let (b, r) ← pBlocks f r
        let (is, r) ← pItems f r
        pure (.cons (← t.toNat?) (← lead? nsp) b is, r)
      | _ => none
    else none
  | _, [] => none
/-- a cell body: blocks up to (not including) `&`, `nl` or `)` -/
def pCellBody : Nat → List String → Option (Blocks × List String)
  | 0, _ => none
  | _ + 1, "&" :: r => some (.nil, "&" :: r)
  | _ + 1, "nl" :: r => some (.nil, "nl" :: r)
  | _ + 1, ")" :: r => some (.nil, ")" :: r)
  | f + 1, ws => do let (b, r) ← pBlock f ws; let (bs, r) ← pCellBody f r; pure (.cons b bs, r)
def pCells : Nat → List String → Option (Cells × List String)
  | 0, _ => none
  | f + 1, "&" :: r => do let (c, r) ← pCellBody f r; let (cs, r) ← pCells f r; pure (.cons c cs, r)
  | _ + 1, ws => some (.nil, ws)
def pRows : Nat → List String → Option (Rows × List String)
  | 0, _ => none
  | f + 1, "nl" :: r => do
    let (c, r) ← pCellBody f r; let (cs, r) ← pCells f r; let (rs, r) ← pRows f r; pure (.cons c cs rs, r)
  | _ + 1, ")" :: r => some (.nil, r)
  | _, _ => none
end

/-! ### column specifications -/

def ctokStr : CTok → String | .ch c => toString c | .sp => "sp" | .bg => "bg" | .eg => "eg"
def ctok? : String → Option CTok
  | "sp" => some .sp | "bg" => some .bg | "eg" => some .eg | w => w.toNat?.map .ch

def codes? (s : String) : Option (List Nat) := if s == "" then some [] else (s.splitOn ",").mapM String.toNat?

mutual
def pCItem : Nat → List String → Option (CItem × List String)
  | 0, _ => none
  | f + 1, w :: r =>
    if w == "|" then some (.bar, r)
    else if w.startsWith "c" then (w.drop 1).toString.toNat?.map fun c => (.col c, r)
    else if w.startsWith "p" then
      match (w.drop 1).toString.splitOn ":" with
      | [c, ws] => do pure (.pcol (← c.toNat?) (← codes? ws), r)
      | _ => none
    else if w.startsWith "@:" then (codes? (w.drop 2).toString).map fun t => (.at_ t, r)
    else if w.startsWith ">:" then (codes? (w.drop 2).toString).map fun t => (.gt t, r)
    else if w.startsWith "*" then do
      let ds ← codes? ((w.drop 1).toString.dropEnd 1).toString
      let (b, r) ← pCSpec f r
      pure (.star ds b, r)
    else none
  | _, [] => none
def pCSpec : Nat → List String → Option (CSpec × List String)
  | 0, _ => none
  | _ + 1, [] => some (.nil, [])
  | _ + 1, ")" :: r => some (.nil, r)
  | _ + 1, ";" :: r => some (.nil, r)
  | f + 1, ws => do let (i, r) ← pCItem f ws; let (s, r) ← pCSpec f r; pure (.cons i s, r)
end

def colStr (c : ColStyle) : String := s!"{c.align}.{bit c.bl}.{bit c.br}"
def colsRes : Except CErr (List ColStyle) → String
  | .ok cs => "ok:" ++ joinSp (cs.map colStr)
  | .error .indexError => "err:IndexError"
  | .error .overrun => "err:overrun"
  | .error .fuel => "fuel"

def marksStr (m : Marks) : String :=
  (if m.top then "T" else "") ++ (if m.bottom then "B" else "") ++ (if m.left then "L" else "") ++ (if m.right then "R" else "")

def linkStr : Option (Nat × Nat) → String
  | none => "-"
  | some (a, b) => s!"{a}-{b}"

def cellObsStr (span : Nat) (m : Marks) (st : ColStyle) (link : Option (Nat × Nat)) (body : String) : String :=
  s!"{span};{marksStr m};{colStr st};{linkStr link};{body}"

def tableStr (rows : List (List String)) : String := " / ".intercalate (rows.map fun r => " | ".intercalate r)

/-- observation of the finished rows, with the `linkCells` links computed by `lk` -/
def rowsObs (lk : Nat → Nat → RowR → List (Option (Nat × Nat))) (ncols : Nat) (rows : List RowR) : String :=
  tableStr (rows.map fun (r : RowR) =>
    (r.zip (lk ncols 0 r)).map fun ((c : CellR), l) => cellObsStr c.span c.marks c.style l (shapeStr c.items))


def loc? : String → Option Loc
  | "top" => some .top | "bottom" => some .bottom | "left" => some .left | "right" => some .right | _ => none

def fuelFor (ws : List String) : Nat := 4 * ws.length + 20

/-! ### list numbering -/
section numbering
open PlasVerif.Model.ListNumbering PlasVerif.Spec.ListNumbers

/- forests:  lists ::= ( "[" items "]" )*   items ::= ( ("i0" | "i1") lists )* -/
mutual
def pLLists : Nat → List String → Option (LLists × List String)
  | 0, _ => none
  | f + 1, "[" :: r => do
    let (is, r) ← pLItems f r
    match r with
    | "]" :: r => do let (ls, r) ← pLLists f r; pure (.cons is ls, r)
    | _ => none
  | _ + 1, ws => some (.nil, ws)
def pLItems : Nat → List String → Option (LItems × List String)
  | 0, _ => none
  | f + 1, "i0" :: r => do let (ls, r) ← pLLists f r; let (is, r) ← pLItems f r; pure (.cons false ls is, r)
  | f + 1, "i1" :: r => do let (ls, r) ← pLLists f r; let (is, r) ← pLItems f r; pure (.cons true ls is, r)
  | _ + 1, ws => some (.nil, ws)
end

def evStr : Ev → String | .begin_ => "B" | .end_ => "E" | .item false => "I0" | .item true => "I1"
def ev? : String → Option Ev
  | "B" => some .begin_ | "E" => some .end_ | "I0" => some (.item false) | "I1" => some (.item true) | _ => none

def obsStr (os : List ItemObs) : String := joinSp (os.map fun o => s!"{o.counter}.{o.position}")
def numStr (os : List ItemObs) (s : St) : String :=
  s!"ok:{obsStr os} | d={s.depth} c={s.c 0},{s.c 1},{s.c 2},{s.c 3}"

end numbering

def handle : List String → String
  | "pos" :: ws =>
    match pLLists (fuelFor ws) ws with
    | some (ls, []) =>
      let (os, st) := PlasVerif.Model.ListNumbering.run ls.events PlasVerif.Model.ListNumbering.fresh
      let sp := if ls.fits 0 then numStr (ls.expect 0) PlasVerif.Model.ListNumbering.fresh else "-"
      s!"{numStr os st}\t{sp}\t{joinSp (ls.events.map evStr)}"
    | _ => "bad-op"
  | "posev" :: ws =>
    match ws.mapM ev? with
    | some es =>
      let (os, st) := PlasVerif.Model.ListNumbering.run es PlasVerif.Model.ListNumbering.fresh
      s!"{numStr os st}\t-"
    | none => "bad-op"
  | "cspec" :: ws =>
    match pCSpec (fuelFor ws) ws with
    | some (s, []) =>
      let toks := s.render
      let spec := if s.wf then (match s.columns with | some c => colsRes (.ok c) | none => "err:IndexError") else "-"
      s!"{colsRes (compileColspec 100000 toks)}\t{spec}\t{joinSp (toks.map ctokStr)}\t{colsRes (compileColspecAsIs 100000 toks)}\t{s.count}"
    | _ => "bad-op"
  | "ctoks" :: ws =>
    match ws.mapM ctok? with
    | some toks => s!"{colsRes (compileColspec 100000 toks)}\t-\t\t{colsRes (compileColspecAsIs 100000 toks)}"
    | none => "bad-op"
  | "bcmd" :: a :: b :: loc :: col :: spans =>
    match a.toNat?, b.toNat?, loc? loc, col.toNat?, natList? spans with
    | some a, some b, some l, some col, some spans =>
      let span := if a == 0 && b == 0 then none else some (a, b)
      let cells : List CellR := spans.map fun s => { colspan := if s == 0 then none else some s, own := none, items := [] }
      let out (cs : List CellR) := String.join (cs.map fun c => bit (c.marks.has l))
      s!"ok:{out (walk span l col cells)}\tok:{out (markRow span l col cells)}\t\tok:{out (walkAsIs span l col cells)}"
    | _, _, _, _, _ => "bad-op"
  | "rec" :: ws =>
    match ws.mapM tok? with
    | some toks =>
      match parse toks with
      | some ns => s!"ok:{shapeStr ns}\t-"
      | none => "fuel\t-"
    | none => "bad-op"
  | "tree" :: d :: ws =>
    match d.toNat?, pBlock (fuelFor ws) ws with
    | some d, some (b, []) =>
      let toks := b.render d
      let m := match parse toks with | some ns => "ok:" ++ shapeStr ns | none => "fuel"
      let sp := if b.wf then "ok:" ++ shapeStr [b.node d] else "-"
      s!"{m}\t{sp}"
    | _, _ => "bad-op"
  | "table" :: ws =>
    let (cw, bw) := splitAt1 ";" ws
    match pCSpec (fuelFor cw) cw, pBlock (fuelFor bw) bw with
    | some (s, []), some (.table ty c cs rs, []) =>
      match compileColspec 100000 s.render with
      | .ok cols =>
        let b := Block.table ty c cs rs
        let m := match parse (b.render 2) with
          | some [arr] =>
            "ok:" ++ rowsObs linkRow cols.length (applyBordersTable cols (rowsOf arr))
          | some _ => "shape"
          | none => "fuel"
        let mAsIs := match parse (b.render 2) with
          | some [arr] =>
            "ok:" ++ rowsObs linkRowAsIs cols.length (applyBordersTableAsIs cols (rowsOf arr))
          | _ => "-"
        let sp := if b.wf && s.wf then
            (match s.columns, denTable cols c cs rs with
             | some cols', some rows =>
               if cols' == cols then
                 "ok:" ++ tableStr (rows.map fun (r : List CellObs) => r.map fun (c : CellObs) => cellObsStr c.span c.marks c.style c.link (shapeStr (c.body.nodes 4)))
               else "colspec-differs"
             | _, _ => "-")
          else "-"
        -- the structural reading of the rows as written (theorem `table_pipeline`): defined for every placement of rules
        let pipe := "ok:" ++ rowsObs linkRow cols.length (specTable cols (writtenRows 4 c cs rs))
        s!"{m}\t{sp}\t{numCols (rowsOf (b.node 2))}\t{mAsIs}\t{pipe}"
      | e => s!"{colsRes e}\t-"
    | _, _ => "bad-op"
  | _ => "bad-op"

end PlasVerif.Driver.C10
