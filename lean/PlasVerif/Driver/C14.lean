import PlasVerif.Driver.Util
import PlasVerif.Model.Urls
import PlasVerif.Spec.Links
import PlasVerif.Model.UrlsIndex
namespace PlasVerif.Driver.C14
open PlasVerif.Driver PlasVerif.Model.Urls PlasVerif.Spec.Links

/- request:  url <split> <tocdepth> <nonfiles 0|1> <base|-> <filename template, blanks as ~> <nrefs> <label>* <tree>
   tree ::= (N|F) <level> <label|-> <num|-> <nkids> tree*        (prefix encoding; F = a \footnote) -/
mutual
def parseTree : Nat → List String → Option (Tree × List String)
  | 0, _ => none
  | fuel + 1, kind :: lv :: lab :: num :: nk :: r => do
    if kind != "N" && kind != "F" then none
    let lv ← lv.toInt?
    let nk ← nk.toNat?
    let (ks, r) ← parseKids fuel nk r
    pure (.node lv (if lab == "-" then none else some (.lab lab))
            { num := (if num == "-" then "" else num), foot := kind == "F" } none ks, r)
  | _, _ => none
def parseKids : Nat → Nat → List String → Option (List Tree × List String)
  | 0, _, _ => none
  | _ + 1, 0, r => some ([], r)
  | fuel + 1, n + 1, r => do
    let (t, r) ← parseTree fuel r
    let (ts, r) ← parseKids fuel n r
    pure (t :: ts, r)
end

def idStr : Id → String
  | .lab s => s
  | .gen n => s!"@{n}"

def urlStr (base : String) (u : Url) : String :=
  let f := match u.file with | some k => s!"f{k}" | none => ""
  let body := match u.frag with | some i => s!"{f}#{idStr i}" | none => f
  if base ≠ "" then s!"{base}/{body}" else body

def optUrl (base : String) : Option Url → String
  | some u => urlStr base u
  | none => "-"

def toLink (u : Url) : Link Nat Id := ⟨u.file, u.frag⟩

mutual
def labelsOf : Tree → List String
  | .node _ id _ _ kids => (match id with | some (.lab s) => [s] | _ => []) ++ labelsOfList kids
def labelsOfList : List Tree → List String
  | [] => []
  | t :: ts => labelsOf t ++ labelsOfList ts
end

mutual
def monotone : Tree → Bool
  | .node lv _ _ _ kids => monotoneList lv kids
def monotoneList (lv : Int) : List Tree → Bool
  | [] => true
  | t :: ts => decide (lv < t.level) && monotone t && monotoneList lv ts
end

/-- files reachable from the start page: the table of contents (on every page) and the `next` links -/
def closure (toc : List Nat) (next : List (Nat × Option Nat)) : Nat → List Nat → List Nat
  | 0, acc => acc
  | n + 1, acc =>
    let more := next.filterMap (fun p => if acc.contains p.1 then p.2 else none)
    closure toc next n (acc ++ more.filter (fun x => !acc.contains x))

def handle : List String → String
  | "url" :: split :: depth :: nonf :: base :: tmpl :: nrefs :: rest =>
    match split.toInt?, depth.toInt?, nrefs.toNat? with
    | some split, some depth, some nrefs =>
      let refs := rest.take nrefs
      match parseTree (rest.length + 1) (rest.drop nrefs) with
      | some (t0, []) =>
        let nonFiles := nonf == "1"
        let base := normBase (if base == "-" then "" else base)
        let template := (tmpl.replace "~" " ").toList
        let t := prepare (effSplit split template) t0 0
        let us := urls [] t
        let out := render t
        let files := out.2
        let nfiles := files.length
        let sorted := (List.range (nfiles + 1)).filterMap (fun k => files.find? (·.1 == k))
        let toc := tocLinks depth nonFiles [] t
        let secs := fileSections t
        let nav := secs.map (fun p => match p.1.file with
          | some f => (f, nextOf f secs false, prevOf f secs none)
          | none => (0, none, none))
        let rs := refs.map (fun l => (l, renderRef t l))
        let sU := ",".intercalate (us.map (fun p => urlStr base p.2))
        let sF := ";".intercalate (sorted.map (fun p => s!"f{p.1}=" ++ ",".intercalate (p.2.map idStr)))
        let sT := ",".intercalate (toc.map (urlStr base))
        let isDoc := t0.level == -1000000
        let secA := (nodesA [] t).filter (fun p => hasFile p.1 && (fileSections t).any (fun q => q.1.file == p.1.file))
        let upStr := fun (f : Nat) => match secA.find? (fun p => p.1.file == some f) with
          | some p => s!"{optUrl base (upOf p.1 p.2)}~{">".intercalate ((breadcrumbs p.1 p.2).map (urlStr base))}"
          | none => "-~"
        let sN := if isDoc then ",".intercalate (nav.map (fun p => s!"{optUrl base p.2.1}~{optUrl base p.2.2}~{upStr p.1}")) else "*"
        let sR := ",".intercalate (rs.map (fun p => match p.2 with
          | some (u, n) => s!"{p.1}={urlStr base u}~{n}"
          | none => s!"{p.1}=??"))
        let fileStr : Option Nat → String := fun o => match o with | some k => s!"f{k}" | none => "-"
        let foots := footnotes [] t
        let sX := ",".intercalate (foots.map (fun e =>
          s!"{(e.1.id.map idStr).getD "?"}={fileStr e.2.1}~{fileStr e.2.2}"))
        let model := s!"U:{sU}|F:{sF}|T:{sT}|N:{sN}|R:{sR}|X:{sX}"
        -- property oracle on the model's own output (domain: distinct labels, root creates a file, levels nest)
        let wf := nodupB (labelsOf t0) && isDoc && monotone t0 && nests t0 && inputOK t0 && decide (split < endSections)
        let links := us.map (·.2) ++ toc ++ nav.filterMap (·.2.1) ++ nav.filterMap (·.2.2) ++ rs.filterMap (fun p => p.2.map (·.1)) ++
          (nodesA [] t).flatMap (fun p => breadcrumbs p.1 p.2 ++ (upOf p.1 p.2).toList)
        let landAll := links.all (fun u => landsB files (toLink u))
        let uniq := uniqueIdsB files
        let tocFiles := toc.filterMap (·.file)
        let nexts := nav.map (fun p => (p.1, p.2.1.bind (·.file)))
        let reached := closure tocFiles nexts nfiles (0 :: tocFiles)
        let reach := allReachedB files reached
        let numOk := rs.all (fun p => match p.2, lookupLabel p.1 (labelled t) with
          | some (_, n), some (nd, _) => n == nd.num
          | none, _ => true
          | _, _ => false)
        let footOk := foots.all (fun e => e.2.1.isSome && e.2.1 == e.2.2) && navOK t
        let spec := if !wf then "-" else
          if landAll && uniq && reach && numOk && tocOK t && footOk then "ok"
          else s!"bad:land={boolStr landAll}:uniq={boolStr uniq}:reach={boolStr reach}:num={boolStr numOk}:tocok={boolStr (tocOK t)}:foot={boolStr footOk}"
        s!"{model}\t{spec}"
      | _ => "bad-op"
    | _, _, _ => "bad-op"
  | "cap" :: toks =>
    -- cap <caption>* ; each caption is written as the path of wrappers around it, outermost first, e.g. l.p = \centerline{\parbox{..}{\caption..}};
    -- n = directly in the float.  Model: the float node with one chain of wrapper nodes per caption.
    let mk : String → Nat → Tree := fun w k =>
      let cap : Tree := .node 1001 (some (.lab s!"c{k}")) { num := s!"{k}", cap := true } none []
      ((w.splitOn ".").filter (fun x => x != "n" && x != "")).foldr (fun _ inner => Tree.node 1001 none "" none [inner]) cap
    let float : Tree := .node 201 none "" none ((toks.zipIdx).map (fun (w, k) => mk w k))
    let n := ((descendants float).filter isCaption).length
    let title := match floatId float with | some i => idStr i | none => "-"
    s!"caps={n},title={title}\t{if n == toks.length then "ok" else "bad"}"
  | "reg" :: toks =>
    -- reg <construct>* ; i<ctx> = an \index entry, f<ctx> = a \footnote, standing in context number <ctx>.
    -- Requirement (Spec): whatever the context, every construct the parser registers as a link target
    -- (userdata['index'], userdata['footnotes']) is a node of the document tree: registered = attached.
    let ni := (toks.filter (·.startsWith "i")).length
    let nf := (toks.filter (·.startsWith "f")).length
    s!"index={ni}/{ni},foot={nf}/{nf}\tok"
  | "nav" :: toks =>
    -- nav <construct>* ; I = \printindex, X = theindex environment, B = thebibliography environment, S = \section
    let insts : List Inst := (toks.zipIdx).flatMap (fun (w, k) =>
      if w == "I" then [Inst.cmd "index" k]
      else if w == "X" then [Inst.envBegin "index" k, Inst.envEnd "index" k]
      else if w == "B" then [Inst.envBegin "bibliography" k, Inst.envEnd "bibliography" k]
      else [Inst.cmd "" k])
    let links := parseNav insts
    let one := fun (key : String) => match links.find? (·.key == key) with
      | some e => s!"{key}={e.pos}:{if e.inTree then "tree" else "detached"}"
      | none => s!"{key}=-"
    let model := s!"{one "bibliography"},{one "index"}"
    s!"{model}\t{if links.all (·.inTree) then "ok" else "bad:detached"}"
  | "post" :: toks =>
    -- post <piece>* ; piece = P /P TD /TD BR W T A=<id> E=<id> L=<href>
    let parse : String → Option Piece := fun w =>
      if w == "W" then some .ws else if w == "T" then some .text
      else if w.startsWith "A=" then some (.anchor (w.drop 2).toString)
      else if w.startsWith "E=" then some (.elem (w.drop 2).toString)
      else if w.startsWith "L=" then some (.link (w.drop 2).toString)
      else if ["P", "/P", "TD", "/TD", "BR"].contains w then some (.tag w) else none
    match toks.mapM parse with
    | some ps =>
      let one := s!"{",".intercalate (pageIds ps)}|{",".intercalate (pageHrefs ps)}"
      s!"H5:{one};XH:{one}\tok"
    | none => "bad-op"
  | "idx" :: toks =>
    -- idx <entry>* ; entry = ! (empty sort key: IndexError) | e (empty transliteration) | code points joined by '.'
    let parse : String → Option (Option (List Char)) := fun w =>
      if w == "!" then some none
      else if w == "e" then some (some [])
      else ((w.splitOn ".").mapM (fun (d : String) => d.toNat?.map Char.ofNat)).map some
    match toks.mapM parse with
    | some cs =>
      let gs := PlasVerif.Model.UrlsIndex.groups cs
      let show1 := fun (g : PlasVerif.Model.UrlsIndex.Group) => s!"{String.ofList g.title}/{String.ofList g.id}/{g.items.length}"
      let model := ";".intercalate (gs.map show1)
      let uniq := nodupB (gs.map (·.id))
      s!"{model}\t{if uniq then "ok" else "bad:ids"}"
    | none => "bad-op"
  | _ => "bad-op"

end PlasVerif.Driver.C14
