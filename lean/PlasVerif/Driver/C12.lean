import PlasVerif.Driver.Util
import PlasVerif.Model.Escape
import PlasVerif.Model.TemplateExpr
import PlasVerif.Spec.HtmlText
namespace PlasVerif.Driver.C12
open PlasVerif.Driver PlasVerif.Model.Escape PlasVerif.Spec.HtmlText

def flag? : String → Option Bool
  | "0" => some false | "1" => some true | _ => none

/-- the fixed family of templates used by the `tree` stream (the harness installs the same ones): piece
    sequences; 5 and 6 have words of their own and show the content twice / never -/
def tplPieces : Nat → List Piece
  | 0 => [.lit (str "<span>"), .content, .lit (str "</span>")]
  | 1 => [.lit (str "<div class=\"c\">"), .content, .lit (str "</div>")]
  | 2 => [.content]
  | 3 => [.lit (str "<p>"), .content, .lit (str "</p><hr/>")]
  | 5 => [.lit (str "<b>T</b>: "), .content, .lit (str "<i>"), .content, .lit (str "</i>")]
  | 6 => [.lit (str "<u>no content</u>")]
  | _ => [.lit (str "<li><b>"), .content, .lit (str "</b></li>")]
def templates : Templates := pieceTemplates tplPieces

/- prefix encoding of render trees:  T m n c1..cn | U m n c1..cn | E tpl k child1..childk -/
mutual
def parseNode : Nat → List String → Option (RNode × List String)
  | 0, _ => none
  | _ + 1, "T" :: m :: n :: r => do
    let m ← flag? m; let n ← n.toNat?
    let cs ← natList? (r.take n)
    if (r.take n).length = n then pure (.text m cs, r.drop n) else none
  | _ + 1, "U" :: m :: n :: r => do
    let m ← flag? m; let n ← n.toNat?
    let cs ← natList? (r.take n)
    if (r.take n).length = n then pure (.uni m cs, r.drop n) else none
  | f + 1, "E" :: t :: k :: r => do
    let t ← t.toNat?; let k ← k.toNat?
    let (cs, r) ← parseNodes f k r
    pure (.elem t cs, r)
  | _, _ => none
def parseNodes : Nat → Nat → List String → Option (List RNode × List String)
  | 0, _, _ => none
  | _ + 1, 0, r => some ([], r)
  | f + 1, k + 1, r => do
    let (c, r) ← parseNode f r
    let (cs, r) ← parseNodes f k r
    pure (c :: cs, r)
end

/-- `m n c1..cn` repeated -/
def parseCalls : Nat → List String → Option (List (Bool × List Nat))
  | 0, _ => none
  | _ + 1, [] => some []
  | f + 1, m :: n :: r => do
    let m ← flag? m; let n ← n.toNat?
    let cs ← natList? (r.take n)
    if (r.take n).length = n then
      let rest ← parseCalls f (r.drop n)
      pure ((m, cs) :: rest)
    else none
  | _ + 1, _ => none

def handle : List String → String
  | "esc" :: m :: ws =>
    match flag? m, natList? ws with
    | some m, some s => s!"{showNats (textDefault m s)}\t{if m then "-" else showNats s}"
    | _, _ => "bad-op"
  | "pfc" :: e :: ws =>
    match flag? e, natList? ws with
    | some e, some s => s!"{showNats (processFileContent e s)}\t-"
    | _, _ => "bad-op"
  | "h5" :: e :: ws =>
    match flag? e, natList? ws with
    | some e, some s => s!"{showNats (processHtml5 e s)}\t-"
    | _, _ => "bad-op"
  | "xh" :: e :: ws =>
    match flag? e, natList? ws with
    | some e, some s => s!"{showNats (processXhtml e s)}\t-"
    | _, _ => "bad-op"
  | "dec" :: ws =>
    match natList? ws with
    | some s => s!"{showNats (decode s)}\t{showNats (decode s)}"
    | none => "bad-op"
  | "hist" :: ws =>
    match parseCalls (ws.length + 1) ws with
    | some calls =>
      let outs := textDefaultSeq calls
      let exp := calls.map fun c => if c.1 then "M" else showNats c.2
      s!"{" | ".intercalate (outs.map showNats)}\t{" | ".intercalate exp}"
    | none => "bad-op"
  | "flt" :: src :: fl :: ws =>
    let src? : Option PlasVerif.Model.TemplateExpr.Src := match src with | "r" => some .rendered | "w" => some .raw | _ => none
    let fs? : Option (List PlasVerif.Model.TemplateExpr.Filt) :=
      if fl == "-" then some [] else (fl.splitOn ",").mapM fun f => match f with | "e" => some .esc | "s" => some .striptags | _ => none
    match src?, fs?, natList? ws with
    | some sr, some fs, some s =>
      let i : PlasVerif.Model.TemplateExpr.Interp := ⟨"", "", sr, fs, .text, true⟩
      s!"{showNats (PlasVerif.Model.TemplateExpr.emit decode i s)}\t{if PlasVerif.Model.TemplateExpr.safe i then "safe" else "-"}"
    | _, _, _ => "bad-op"
  | "tal" :: src :: via :: mode :: pos :: ws =>
    let src? : Option PlasVerif.Model.TemplateExpr.Src := match src with | "r" => some .rendered | "w" => some .raw | _ => none
    let mode? : Option PlasVerif.Model.TemplateExpr.TalMode :=
      match mode with | "t" => some .text | "s" => some .structure | "d" => some .dropped | _ => none
    let pos? : Option PlasVerif.Model.TemplateExpr.TalPos := match pos with | "c" => some .content | "a" => some .attr | _ => none
    match src?, flag? via, mode?, pos?, natList? ws with
    | some sr, some v, some m, some p, some s =>
      let i : PlasVerif.Model.TemplateExpr.TalInterp := ⟨"", "", sr, v, m, p, true⟩
      s!"{showNats (PlasVerif.Model.TemplateExpr.emitTal i s)}\t{if PlasVerif.Model.TemplateExpr.safeTal i then "safe" else "-"}"
    | _, _, _, _, _ => "bad-op"
  | "tree" :: ws =>
    match parseNode (ws.length + 1) ws with
    | some (n, []) =>
      let out := renderSelf templates n
      s!"{showNats out}\t{if n.flagged then "-" else showNats n.leaves}"
    | _ => "bad-op"
  | _ => "bad-op"

end PlasVerif.Driver.C12
