import PlasVerif.Driver.Util
import PlasVerif.Spec.Crossref
import PlasVerif.Model.ParseEvents
namespace PlasVerif.Driver.C09
open PlasVerif.Driver PlasVerif.Model.Labels PlasVerif.Spec.Crossref

/- request:  `lbl <op>*`  /  `doc9 <op>*`  with
     N<n>          numbered n            V<n>:<v>     number n v
     L<l>          label l (current)     L<l>@<n>     label l on node n
     R<r>.<s>:<l>  ref r s l             (label 0 = blank after strip)
   answer: `<final state of the model>\t<spec view or ->`                                   -/

def tail1 (s : String) : String := (s.drop 1).toString

def op? (w : String) : Option Op :=
  if w.startsWith "N" then (tail1 w).toNat?.map .numbered
  else if w.startsWith "V" then
    match (tail1 w).splitOn ":" with
    | [a, b] => do pure (.number (← a.toNat?) (← b.toNat?))
    | _ => none
  else if w.startsWith "L" then
    match (tail1 w).splitOn "@" with
    | [a] => do pure (.label (← a.toNat?) none)
    | [a, b] => do pure (.label (← a.toNat?) (some (← b.toNat?)))
    | _ => none
  else if w.startsWith "R" then
    match (tail1 w).splitOn ":" with
    | [k, l] =>
      match k.splitOn "." with
      | [r, s] => do pure (.ref (← r.toNat?) (← s.toNat?) (← l.toNat?))
      | _ => none
    | _ => none
  else none

def sortNat (xs : List Nat) : List Nat := (xs.eraseDups).mergeSort (· ≤ ·)

def keysOf (h : List Op) : List (RefId × Slot) :=
  (h.filterMap fun | .ref r s _ => some (r, s) | _ => none).eraseDups

def labelsOf (h : List Op) : List Label :=
  sortNat (h.filterMap fun
    | .ref _ _ l => if l = 0 then none else some l
    | .label l _ => if l = 0 then none else some l
    | _ => none)

def nodesOf (h : List Op) : List NodeId :=
  sortNat (h.flatMap fun
    | .numbered n => [n] | .number n _ => [n] | .label _ (some n) => [n] | _ => [])

def optNat : Option Nat → String
  | some n => toString n
  | none => "-"

def targetStr : Option Target → String
  | some (.node n) => s!"n{n}"
  | some (.placeholder l) => s!"p{l}"
  | none => "-"

def stateStr (h : List Op) (st : State) : String :=
  let keys := keysOf h
  let i := keys.map fun (r, s) => s!"{r}.{s}={targetStr (st.idref r s)}"
  let l := (labelsOf h).filterMap fun l => (st.labels l).map fun n => s!"{l}={n}"
  let p := (labelsOf h).filterMap fun l => (st.refs l).map fun o => s!"{l}=" ++ ",".intercalate (o.map toString)
  let d := (nodesOf h).filterMap fun n => (st.ids n).map fun l => s!"{n}={l}"
  let v := (nodesOf h).filterMap fun n => (st.nums n).map fun x => s!"{n}={x}"
  let w := keys.map fun (r, s) => s!"{r}.{s}={optNat (printed st r s)}"
  s!"I {joinSp i} | L {joinSp l} | P {joinSp p} | D {joinSp d} | V {joinSp v} | C {optNat st.current} | W {joinSp w}"

def resStr : Resolution → String
  | .object n => s!"o{n}"
  | .noObject => "none"

/-- the property's own oracle (never runs the model): resolution and printed number of every
    non-blank reference, identifier of every object -/
def specStr (h : List Op) : String :=
  if LabelsDistinct h ∧ RefKeysDistinct h then
    let refs := h.filterMap fun | .ref r s l => if l = 0 then none else some (r, s, l) | _ => none
    let i := refs.map fun (r, s, l) => s!"{r}.{s}={resStr (resolveSpec h l)}"
    let w := refs.map fun (r, s, l) =>
      s!"{r}.{s}={optNat (match attach h l with | some n => numberOf h n | none => none)}"
    let d := (nodesOf h).filterMap fun n => (identOf h n).map fun l => s!"{n}={l}"
    s!"I {joinSp i} | W {joinSp w} | D {joinSp d}"
  else "-"

/- `rerun9 J<job> (F<job> S<l>@<n>:<v>*)* <op>*` : the `.paux` files found in the directory, then the document -/
def entry? (w : String) : Option Entry :=
  match (tail1 w).splitOn "@" with
  | [l, r] =>
    match r.splitOn ":" with
    | [n, v] => do pure ⟨← l.toNat?, ← n.toNat?, ← v.toNat?⟩
    | _ => none
  | _ => none

/-- returns (files in order, remaining words) -/
def files? : List String → List PauxFile → Option (List PauxFile × List String)
  | w :: ws, acc =>
    if w.startsWith "F" then
      match (tail1 w).toNat? with
      | some j => files? ws (⟨j, []⟩ :: acc)
      | none => none
    else if w.startsWith "S" then
      match entry? w, acc with
      | some e, f :: rest => files? ws (⟨f.job, f.entries ++ [e]⟩ :: rest)
      | _, _ => none
    else some (acc.reverse, w :: ws)
  | [], acc => some (acc.reverse, [])

def specStrX (job : Nat) (files : List PauxFile) (h : List Op) : String :=
  if LabelsDistinct h ∧ RefKeysDistinct h ∧ ForeignOk job files h then
    let refs := h.filterMap fun | .ref r s l => if l = 0 then none else some (r, s, l) | _ => none
    let i := refs.map fun (r, s, l) => s!"{r}.{s}={resStr (resolveSpecX job files h l)}"
    let w := refs.map fun (r, s, l) => s!"{r}.{s}={optNat (numberSpecX job files h l)}"
    let d := (nodesOf h).filterMap fun n => (identOf h n).map fun l => s!"{n}={l}"
    s!"I {joinSp i} | W {joinSp w} | D {joinSp d}"
  else "-"

/- `parse9 B <op>* ; M <node> <counter 0|1|2> <num> <level 0|1> ; (A <modifier 0|1> <given 0|1> <op>* ;)* E <op>*` :
   events before the call, the call (`Macro.parse` of a macro with that signature), events after it -/
open PlasVerif.Model.ParseEvents in
def call? : List (List String) → Option (List Op × MacroCall × List Op)
  | ("B" :: b) :: ["M", n, c, v, lvl] :: rest => do
    let before ← b.mapM op?
    let ctr ← (match c with | "0" => some Ctr.none | "1" => some Ctr.empty | "2" => some Ctr.named | _ => none)
    let rec args : List (List String) → Option (List Arg × List Op)
      | ("A" :: md :: g :: ws) :: more => do
        let ops ← ws.mapM op?
        let (as, e) ← args more
        pure (⟨md == "1", g == "1", ops⟩ :: as, e)
      | [("E" :: e)] => do pure ([], ← e.mapM op?)
      | _ => none
    let (as, after) ← args rest
    pure (before, ⟨← n.toNat?, ctr, ← v.toNat?, lvl == "1", as⟩, after)
  | _ => none

def opStr : Op → String
  | .numbered n => s!"N{n}"
  | .number n v => s!"V{n}:{v}"
  | .label l none => s!"L{l}"
  | .label l (some n) => s!"L{l}@{n}"
  | .ref r sl l => s!"R{r}.{sl}:{l}"

def handle : List String → String
  | "parse9" :: ws =>
    match call? (splitAll ";" ws) with
    | some (before, m, after) =>
      let h := before ++ PlasVerif.Model.ParseEvents.parse m ++ after
      s!"{stateStr h (run h)}\t{specStr h}\t{joinSp (h.map opStr)}"
    | none => "bad-op"
  | "rerun9" :: j :: ws =>
    match (if j.startsWith "J" then (tail1 j).toNat? else none), files? ws [] with
    | some job, some (files, rest) =>
      match rest.mapM op? with
      | some h => s!"{stateStr h (compileParse job files h)}\t{specStrX job files h}"
      | none => "bad-op"
    | _, _ => "bad-op"
  | "lbl" :: ws | "doc9" :: ws =>
    match ws.mapM op? with
    | some h => s!"{stateStr h (run h)}\t{specStr h}"
    | none => "bad-op"
  | _ => "bad-op"

end PlasVerif.Driver.C09
