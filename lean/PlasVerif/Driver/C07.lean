import PlasVerif.Driver.Util
import PlasVerif.Spec.DocTree
namespace PlasVerif.Driver.C07
open PlasVerif.Driver PlasVerif.Model.Digest PlasVerif.Spec.DocTree PlasVerif.Generated.Digest

def nats? (s : String) : Option (List Nat) :=
  if s == "-" then some [] else (s.splitOn ".").mapM String.toNat?

def dk? : String → Option DK
  | "n" => some .none | "e" => some .env | "s" => some .sec | "b" => some .bgroup
  | "l" => some .listEnv | "i" => some .listItem | _ => none

def flag (s : List Char) (i : Nat) : Bool := s.getD i '0' == '1'

/-- `id:elem:level:depth:block:dk:ty:flags:chars:src:argl[:container:isa]:nkids` -/
def item? (w : String) : Option (Item × Nat) :=
  match w.splitOn ":" with
  | [id, el, lv, dp, bl, dk, ty, fl, ch, sr, al, nk] => do
    let f := fl.toList
    let it : Item := {
      ref := .item (← id.toNat?), elem := el == "1", level := ← lv.toInt?, depth := ← dp.toInt?,
      block := bl == "1", dk := ← dk? dk, ty := ← ty.toNat?,
      modeEnd := flag f 0, egroup := flag f 1, isItem := flag f 2, ws := flag f 3, dynws := flag f 4,
      setctr := flag f 5, forcePars := flag f 6, nosub := flag f 7,
      chars := ← nats? ch, src := ← nats? sr, argLeaves := ← nats? al }
    pure (it, ← nk.toNat?)
  | [id, el, lv, dp, bl, dk, ty, fl, ch, sr, al, co, isa, nk] => do
    let f := fl.toList
    let it : Item := {
      ref := .item (← id.toNat?), elem := el == "1", level := ← lv.toInt?, depth := ← dp.toInt?,
      block := bl == "1", dk := ← dk? dk, ty := ← ty.toNat?,
      modeEnd := flag f 0, egroup := flag f 1, isItem := flag f 2, ws := flag f 3, dynws := flag f 4,
      setctr := flag f 5, forcePars := flag f 6, nosub := flag f 7,
      chars := ← nats? ch, src := ← nats? sr, argLeaves := ← nats? al,
      cont := ← co.toNat?, isa := ← nats? isa }
    pure (it, ← nk.toNat?)
  | _ => none

mutual
def tree? : Nat → Ref → List String → Option (Tree × List String)
  | 0, _, _ => none
  | _, _, [] => none
  | f + 1, par, w :: r => do
    let (it, n) ← item? w
    let (ks, r') ← trees? f it.ref n r
    pure (.node it par ks, r')
def trees? : Nat → Ref → Nat → List String → Option (List Tree × List String)
  | _, _, 0, r => some ([], r)
  | 0, _, _, _ => none
  | f + 1, par, n + 1, r => do
    let (t, r1) ← tree? f par r
    let (ts, r2) ← trees? f par n r1
    pure (t :: ts, r2)
end

def stream? : Nat → List String → Option (List Tree)
  | 0, _ => none
  | _, [] => some []
  | f + 1, ws => do
    let (t, r) ← tree? (2 * ws.length + 2) .unset ws
    let ts ← stream? f r
    pure (t :: ts)

def dots (xs : List Nat) : String := if xs.isEmpty then "-" else ".".intercalate (xs.map toString)

def refStr : Ref → String
  | .item n => toString n
  | _ => "s"

mutual
def dump (container : Ref) : Tree → String
  | .node it p kids =>
    let ok := if p == container then "+" else "-"
    if it.elem then s!"e({refStr it.ref}|{it.level}|{ok}|{dumpL it.ref kids})"
    else s!"t({dots it.chars}|{ok})"
def dumpL (container : Ref) : List Tree → String
  | [] => ""
  | k :: ks => dump container k ++ dumpL container ks
end

mutual
/-- Spec side: the characters of the non-blank text of the stream, in order, without trigger characters -/
def plainChars : Tree → List Nat
  | .node it _ kids => (if it.elem then [] else it.chars.filter fun c => !(trigger c) && c != 32 && c != 10 && c != 9 && !(8208 ≤ c && c ≤ 8223)) ++ plainCharsL kids
def plainCharsL : List Tree → List Nat
  | [] => []
  | k :: ks => plainChars k ++ plainCharsL ks
end


def mframe? : String → Option MFrame
  | "g" => some none | "a" => some (some none) | "c" => some (some none)
  | "m" => some (some (some true)) | "e" => some (some (some true)) | "b" => some (some (some false))
  | _ => none

/-- args of the `extend` stream: `n` = a node (original parent `item 100`), `f<k>` = a fragment with k children -/
def earg? (i : Nat) (w : String) : Option Arg :=
  let mk (r : Ref) (p : Ref) : Tree := .node { PlasVerif.Model.Digest.defaultPar with ref := r } p []
  if w == "n" then some (.node (mk (.item (1000 + i)) (.item 100)))
  else if w.startsWith "f" then
    (w.drop 1).toString.toNat?.map fun k =>
      .frag (.item 300) ((List.range k).map fun j => mk (.item (2000 + 10 * i + j)) (.item (200 + i)))
  else none

def eargs? : Nat → List String → Option (List Arg)
  | _, [] => some []
  | i, w :: r => do let a ← earg? i w; let as ← eargs? (i + 1) r; pure (a :: as)

def labelCode (target : Ref) (orig : List Tree) (res : List Tree) : String :=
  String.join ((List.zip orig res).map fun (o, t) => if t.parent == target then "T" else if t.parent == o.parent then "K" else "?")

def handle : List String → String
  | "digest" :: mode :: cs :: "|" :: ws =>
    match stream? (ws.length + 1) ws with
    | none => "bad-op"
    | some s =>
      let res := if mode == "doc" then parse s else if mode == "raw" then parse s else parseFragment (cs == "1") s
      let model := match res with
        | none => "fuel"
        | some ts => dumpL .out ts
      let wf := boolStr (cleanL s)
      s!"{model}\t{dots (plainCharsL s)}\t{wf}"
  | "mathmode" :: ws =>
    -- frames in push order (last = innermost)
    match ws.mapM mframe? with
    | some fs =>
      let st := fs.reverse
      -- spec: the innermost frame that declares a mode decides, by the property text; none = text mode
      let spec := match (st.filterMap fun f => match f with | some (some b) => some b | _ => none) with
        | b :: _ => b | [] => false
      s!"{boolStr (isMathMode st)}\t{boolStr spec}"
    | none => "bad-op"
  | "extend" :: isf :: hasp :: sp :: "|" :: ws =>
    match eargs? 0 ws with
    | some args =>
      let c : Cont := { ref := .item 1, isFrag := isf == "1", parent := if hasp == "1" then .item 2 else .unset }
      let res := extend c (sp == "1") args
      let orig := args.flatMap Arg.kids
      let spec := String.join (orig.map fun _ => if sp == "1" then "T" else "K")
      s!"{labelCode c.target orig res}\t{spec}"
    | none => "bad-op"
  | "apptexts" :: ws =>
    -- calls separated by "|": flag (1 = the document's table, 0 = None) followed by the code points
    let call? (c : List String) : Option (Bool × List Nat) :=
      match c with
      | f :: cs => (natList? cs).map fun v => (f == "1", v)
      | [] => none
    match (splitAll "|" ws).mapM call? with
    | some calls =>
      let out := ";".intercalate ((appendTexts calls).map dots)
      -- the property's expectation per call, independent of the calls before it
      let spec := ";".intercalate (calls.map fun c => dots (if c.1 then applySubs charsubs c.2 else c.2))
      s!"{out}\t{spec}"
    | none => "bad-op"
  | "docsubs" :: ws =>
    -- documents separated by "|", each word one disabled source (code points joined by ".")
    match (splitAll "|" ws).mapM (fun d => d.mapM nats?) with
    | some hist =>
      let r := createDocs charsubs hist
      let show1 (t : SubTable) : String := ",".intercalate (t.map fun sd => dots sd.1 ++ ">" ++ dots sd.2)
      let out := ";".intercalate (r.2.map show1) ++ "#" ++ show1 r.1
      -- the property's expectation, written without the model: each document has every default entry whose
      -- source it did not disable itself, and the defaults are intact at the end
      let spec := ";".intercalate (hist.map fun d => show1 (charsubs.filter fun sd => !(d.contains sd.1))) ++ "#" ++ show1 charsubs
      s!"{out}\t{spec}"
    | none => "bad-op"
  | "subs" :: ws =>
    match natList? ws with
    | some cs => s!"{dots (applySubs charsubs cs)}\t-"
    | none => "bad-op"
  | _ => "bad-op"

end PlasVerif.Driver.C07
