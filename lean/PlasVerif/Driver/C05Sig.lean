import PlasVerif.Driver.Util
import PlasVerif.Spec.Signature
/-!
Driver part of C05 for the signature compiler.

 * `sig <cp> <cp> …`            the `args` string as decimal code points
     answer `showArgs (compileArgs s)\t-`
 * `sigtree <item>…`            structured encoding of a `Sig` with a spacing style per item:
       item ::= <style> M <42|43|45> | <style> E | <style> A <delim 0-4> <name> <type|-> <delimcp|-> <subtype|->
     names as code points joined by `.`; delim 0 none, 1 `[]`, 2 `()`, 3 `<>`, 4 `{}`;
     style bits: 1 = no blank after the opening bracket, 2 = no blank before the closing bracket,
     4 = no blank before the item when the previous item ends in a non-word character (modifier, `=`, bracket),
     8 = two blanks before the item.  All styles 0 = `renderSig` (the spelling of theorem `compile_render`).
     answer `showArgs (compileArgs rendered)\t<showArgs (.ok (expected sig)) | - if not WF>\t<rendered code points>\t<c|v>`
     (`c` iff rendered = renderSig sig).
-/
namespace PlasVerif.Driver.C05Sig
open PlasVerif.Driver PlasVerif.Model.Signature PlasVerif.Spec.Signature

def cps? (w : String) : Option (List Nat) :=
  if w == "-" then none else (w.splitOn ".").mapM String.toNat?

def optCps? (w : String) : Option (Option (List Nat)) :=
  if w == "-" then some none else (cps? w).map some

def delim? : String → Option Delim
  | "0" => some .none | "1" => some .square | "2" => some .paren | "3" => some .angle | "4" => some .brace
  | _ => none

def parseSig : Nat → List String → Option (List (Nat × SigItem))
  | _, [] => some []
  | 0, _ => none
  | f + 1, st :: "M" :: c :: r => do
    let m ← (match c with | "42" => some Modifier.star | "43" => some .plus | "45" => some .minus | _ => none)
    pure ((← st.toNat?, .modifier m) :: (← parseSig f r))
  | f + 1, st :: "E" :: r => do pure ((← st.toNat?, .equals) :: (← parseSig f r))
  | f + 1, st :: "A" :: d :: n :: t :: dc :: s :: r => do
    let name ← cps? n
    let ty ← optCps? t
    let dch ← (if dc == "-" then some none else dc.toNat?.map some)
    let sub ← optCps? s
    let tspec ← (match ty with
      | some t => some (some ({ ty := t, delim := dch, sub := sub } : TypeSpec))
      | none => if dch.isNone && sub.isNone then some none else none)
    pure ((← st.toNat?, .arg (← delim? d) name tspec) :: (← parseSig f r))
  | _, _ => none

def endsNonWord : SigItem → Bool
  | .modifier _ => true | .equals => true | .arg d _ _ => d != .none

def itemText (style : Nat) : SigItem → List Nat
  | .arg d name ty =>
    match d.opening, d.closing with
    | some o, some c =>
      [o] ++ (if style % 2 == 1 then [] else [32]) ++ nameSpec name ty ++
        (if (style / 2) % 2 == 1 then [] else [32]) ++ [c]
    | _, _ => nameSpec name ty
  | it => (itemWords it).flatten

def renderVar (first : Bool) (prevSafe : Bool) : List (Nat × SigItem) → List Nat
  | [] => []
  | (style, it) :: rest =>
    let sep := if first then [] else if (style / 8) % 2 == 1 then [32, 32]
               else if (style / 4) % 2 == 1 && prevSafe then [] else [32]
    sep ++ itemText style it ++ renderVar false (endsNonWord it) rest

def handle : List String → String
  | "sig" :: ws =>
    match natList? ws with
    | some s => s!"{showArgs (compileArgs s)}\t-"
    | none => "bad-op"
  | "sigtree" :: ws =>
    match parseSig (ws.length + 1) ws with
    | some items =>
      let sig : Sig := items.map (·.2)
      let s := renderVar true false items
      let spec := if WF sig then showArgs (.ok (expected sig)) else "-"
      s!"{showArgs (compileArgs s)}\t{spec}\t{showNats s}\t{if s == renderSig sig then "c" else "v"}"
    | none => "bad-op"
  | _ => "bad-op"

end PlasVerif.Driver.C05Sig
