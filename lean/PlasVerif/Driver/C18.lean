import PlasVerif.Driver.Util
import PlasVerif.Spec.Index
namespace PlasVerif.Driver.C18
open PlasVerif.Driver PlasVerif.Model.Index PlasVerif.Spec.Index

def dots (xs : List Nat) : String := ".".intercalate (xs.map toString)

/-- `s97.98` → `[97, 98]`, `s` → `[]` -/
def str? (w : String) : Option Str :=
  if w.startsWith "s" then
    let r := (w.drop 1).toString
    if r.isEmpty then some [] else (r.splitOn ".").mapM String.toNat?
  else none

def tok? (w : String) : Option Tok :=
  if w.startsWith "l" then (w.drop 1).toString.toNat?.map (Tok.ch true)
  else if w.startsWith "c" then (w.drop 1).toString.toNat?.map (Tok.ch false)
  else if w.startsWith "o" then (w.drop 1).toString.toNat?.map Tok.oth
  else none

def tokStr : Tok → String
  | .ch true c => s!"l{c}"
  | .ch false c => s!"c{c}"
  | .oth i => s!"o{i}"

def toksStr (l : List Tok) : String := ",".intercalate (l.map tokStr)

def typeStr : EType → String
  | .normal => "0" | .see => "1" | .seealso => "2"

def parsedStr (p : Parsed) : String :=
  let f := match p.format with
    | none => "F-"
    | some (m, r) => s!"F{dots m}/{toksStr r}"
  "S" ++ "|".intercalate (p.sortkeys.map toksStr) ++ ";K" ++ "|".intercalate (p.keys.map toksStr) ++ ";" ++ f ++ ";T" ++ typeStr p.type

/- spec entry encoding: items `p<tok>` / `q<tok>`; words `@` `!` `|` separate -/
def item? (w : String) : Option Item :=
  if w.startsWith "p" then (tok? (w.drop 1).toString).map Item.plain
  else if w.startsWith "q" then (tok? (w.drop 1).toString).map Item.quoted
  else none

def level? (ws : List String) : Option SLevel :=
  match splitAll "@" ws with
  | [d] => do pure { sort := none, disp := ← d.mapM item? }
  | [s, d] => do pure { sort := some (← s.mapM item?), disp := ← d.mapM item? }
  | _ => none

def sentry? (ws : List String) : Option SEntry := do
  let (body, fmt) ← match splitAll "|" ws with
    | [b] => some (b, none)
    | [b, f] => some (b, some f)
    | _ => none
  let format ← match fmt with
    | none => some none
    | some f => (f.mapM item?).map some
  match splitAll "!" body with
  | [] => none
  | l :: ls => do pure { first := ← level? l, more := ← ls.mapM level?, format := format }

/- entries: `E L sk txt src csk ctxt ini L … E …` -/
structure Tables where
  coll : List (Str × List Nat) := []
  ini : List (Str × Option Str) := []

def iniWord? (w : String) : Option (Option Str) :=
  if w == "x" then some none else (str? w).map some

def levels? : List String → Tables → Option (List Level × Tables × List String)
  | "L" :: sk :: txt :: src :: csk :: ctxt :: ini :: r, t => do
    let sk ← str? sk; let txt ← str? txt; let src ← str? src
    let csk ← str? csk; let ctxt ← str? ctxt; let ini ← iniWord? ini
    let t := { t with coll := (sk, csk) :: (txt, ctxt) :: t.coll, ini := (sk, ini) :: t.ini }
    match levels? r t with
    | some (ls, t, r) => some ({ sk, txt, src } :: ls, t, r)
    | none => none
  | r, t => some ([], t, r)
termination_by ws => ws.length
decreasing_by simp_wf; omega

def entries? (fuel : Nat) (ws : List String) (t : Tables) (n : Nat) : Option (List Entry × Tables) :=
  match fuel, ws with
  | _, [] => some ([], t)
  | 0, _ => none
  | f + 1, "E" :: r =>
    match levels? r t with
    | some (ls, t, r) =>
      match entries? f r t (n + 1) with
      | some (es, t) => some ({ path := ls, id := n } :: es, t)
      | none => none
    | none => none
  | _, _ => none

def lookup {β} (k : Str) : List (Str × β) → Option β
  | [] => none
  | (a, b) :: r => if a = k then some b else lookup k r

def mkEnv (t : Tables) : Env :=
  { coll := fun s => (lookup s t.coll).getD [], ini := fun s => (lookup s t.ini).getD none }

def lineStr (l : Line) : String :=
  match l.path.getLast? with
  | some lv => s!"{l.path.length}/{dots lv.src}/{dots lv.sk}/{dots l.pages}"
  | none => "0///"

def errStr : Err → String
  | .indexError => "err:IndexError" | .zeroDivisionError => "err:ZeroDivisionError" | .attributeError => "err:AttributeError" | .keyError => "err:KeyError"

def idxOf (x : Line × Nat) (l : List (Line × Nat)) : Nat := l.findIdx (fun y => y.1 = x.1)

def groupsStr (env : Env) (lines : List Line) (cols : Nat) : String :=
  match groups env lines cols with
  | .error e => errStr e
  | .ok gs =>
    let tops := topItems lines
    joinSp (gs.map fun g =>
      s!"{dots g.title}/{dots g.label}/" ++ "|".intercalate (g.items.map fun col => ",".intercalate (col.map fun it => toString (idxOf it tops))))

def pathStr (p : List Level) : String := ">".intercalate (p.map fun lv => s!"{dots lv.src}~{dots lv.sk}")

def specStr (es : List Entry) : String :=
  joinSp ((specLines es).map fun (p, pg) => s!"{pathStr p}/{dots pg}")

def runIdx (asIs : Bool) (ws : List String) : String :=
  match ws with
  | cols :: r =>
    match cols.toNat?, entries? (r.length + 1) r {} 0 with
    | some cols, some (es, t) =>
      if es.any (fun e => e.path.isEmpty) then "err:AttributeError\t-" else
      let env := mkEnv t
      let lines := if asIs then buildIndexAsIs env es else buildIndex env es
      s!"L: {joinSp (lines.map lineStr)} G {groupsStr env lines cols}\t{specStr es}"
    | _, _ => "bad-op"
  | _ => "bad-op"

/-- rendered key text of a line as the harness reads it back from the HTML: the text content, or `*` when the
    key contains markup or mathematics (source has `{` or `$`) -/
def hLineStr (l : Line) : String :=
  match l.path.getLast? with
  | some lv =>
    let t := if lv.src.any (fun c => c == 123 || c == 36) then "*" else dots lv.txt
    s!"{l.path.length}/{t}/{l.pages.length}"
  | none => "0//0"

def htmlStr (env : Env) (lines : List Line) (cols : Nat) : String :=
  match renderIndex env lines cols with
  | .error e => errStr e
  | .ok r =>
    let gs := joinSp (r.map fun g => s!"{dots g.1}/" ++ "|".intercalate (g.2.map fun col => toString col.length))
    s!"H: {joinSp ((htmlLines r).map hLineStr)} G {gs}"

def runHtml (ws : List String) : String :=
  match ws with
  | cols :: r =>
    match cols.toNat?, entries? (r.length + 1) r {} 0 with
    | some cols, some (es, t) =>
      if es.any (fun e => e.path.isEmpty) then "err:AttributeError\t-" else
      let env := mkEnv t
      let lines := buildIndex env es
      s!"L: {joinSp (lines.map lineStr)} G {groupsStr env lines cols} ## {htmlStr env lines cols}\t{specStr es}"
    | _, _ => "bad-op"
  | _ => "bad-op"

def colsStr (cs : List (List Nat)) : String := "|".intercalate (cs.map fun c => ",".intercalate (c.map toString))

def handle : List String → String
  | "idxparse" :: ws =>
    match ws.mapM tok? with
    | some toks => s!"P:{parsedStr (parseEntry toks)}\t-"
    | none => "bad-op"
  | "idxspec" :: ws =>
    match sentry? ws with
    | some e =>
      let toks := e.render
      let spec := if e.wf then "P:" ++ parsedStr e.denote else "-"
      s!"P:{parsedStr (parseEntry toks)}\t{spec}\t{joinSp (toks.map tokStr)}"
    | none => "bad-op"
  | "idx" :: ws => runIdx false ws
  | "doc18" :: ws => runIdx false ws
  | "html18" :: ws => runHtml ws
  | "idx-asis" :: ws => runIdx true ws
  | "idxcols" :: cols :: ws =>
    match cols.toNat?, natList? ws with
    | some cols, some wts =>
      if cols = 0 then "err:ZeroDivisionError\t-" else
      -- items are their positions; weights by position
      let items := List.range wts.length
      let out := splitColumns (fun i => wts.getD i 0) items cols
      s!"C:{colsStr out}\t-"
    | _, _ => "bad-op"
  | _ => "bad-op"

end PlasVerif.Driver.C18
