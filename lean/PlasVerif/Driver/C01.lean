import PlasVerif.Driver.Util
import PlasVerif.Model.Tokenizer
namespace PlasVerif.Driver.C01
open PlasVerif.Driver PlasVerif.Model.Catcodes PlasVerif.Model.Tokenizer

def tokStr : Tok → String
  | .ch cat c => s!"{cat}:{c}"
  | .space => "S"
  | .cs name => "E:" ++ ",".intercalate (name.map toString)

/-- table ops: `D` | `V` | `<char>=<code>` applied left to right -/
def applyOps : CatTable → List String → Option CatTable
  | t, [] => some t
  | _, "D" :: r => applyOps defaultCats r
  | _, "V" :: r => applyOps verbatimCats r
  | t, w :: r =>
    match w.splitOn "=" with
    | [a, b] => do
      let c ← a.toNat?
      let k ← b.toNat?
      if k < 16 then applyOps (setCat t c k) r else none
    | _ => none

def handle : List String → String
  | "tok" :: ws =>
    let (ops, cps) := splitAt1 "|" ws
    match applyOps defaultCats ops, natList? cps with
    | some t, some s => joinSp ((tokenize t s).map tokStr) ++ "\t-"
    | _, _ => "bad-op"
  | "dyn" :: ws =>
    -- `<ops> ; <n> ; <ops> ; <n> … | code points` : apply ops, pull n tokens, …, then pull everything
    let (schedW, cps) := splitAt1 "|" ws
    let segs := splitAll ";" schedW
    let rec build : List (List String) → Option (List (List String × Nat))
      | [] => some []
      | [_] => none
      | ops :: [n] :: more => do
        let k ← n.toNat?
        let r ← build more
        pure ((ops, k) :: r)
      | _ => none
    match build segs, natList? cps with
    | some sched, some s =>
      -- run the schedule, threading the table through `applyOps`
      let rec go (t : CatTable) (st : St) (p : Bool) (cs : List Nat) : List (List String × Nat) → Option (List Tok)
        | [] => some (tokFrom t st p cs)
        | (ops, n) :: more => do
          let t' ← applyOps t ops
          let r := pullN t' n st p cs
          let rest ← go t' r.2.1 r.2.2.1 r.2.2.2 more
          pure (r.1 ++ rest)
      match go defaultCats .N false s sched with
      | some toks => joinSp (toks.map tokStr) ++ "\t-"
      | none => "bad-op"
    | _, _ => "bad-op"
  | "code" :: ws =>
    -- whichCode of each listed character under the table
    let (ops, cps) := splitAt1 "|" ws
    match applyOps defaultCats ops, natList? cps with
    | some t, some s => showNats (s.map (whichCode t)) ++ "\t-"
    | _, _ => "bad-op"
  | _ => "bad-op"

end PlasVerif.Driver.C01
