import PlasVerif.Proofs.Urls
import PlasVerif.Proofs.UrlsNav
import PlasVerif.Proofs.UrlsRender
import PlasVerif.Proofs.UrlsToc
import PlasVerif.Proofs.UrlsFoot
import PlasVerif.Proofs.UrlsIndex
import PlasVerif.Proofs.UrlsCrumbs
/-!
# C14 — every internal link in the rendered output lands on an existing target

Property theorems only; helper lemmas are in `Proofs/Urls.lean`, `Proofs/UrlsNav.lean`, `Proofs/UrlsToc.lean`, `Proofs/UrlsFoot.lean`, `Proofs/UrlsRender.lean`.  The model (`Model/Urls.lean`) mirrors
`Macro.id`/`idgen`, `Renderer.cacheFilenames`, `Renderable.filename`/`url`/`__str__`,
`SectionUtils.tableofcontents`/`links`, the `TableOfContents` proxy and `Context.label`.
`prepare split t g` is the tree after `cacheFilenames` and after every template has read its `obj.id`;
`render` is the set of files written with the identifiers emitted into each.
-/
namespace PlasVerif.Properties.C14
open PlasVerif.Model.Urls PlasVerif.Spec.Links PlasVerif.Proofs.Urls PlasVerif.Proofs.UrlsNav PlasVerif.Proofs.UrlsRender PlasVerif.Proofs.UrlsToc PlasVerif.Proofs.UrlsFoot

/-- a small document used for the non-vacuity examples: document{ section[s1]{ par{ equation[e1] } subsection } section } -/
def sample : Tree :=
  .node (-1000000) none "" none
    [.node 1 (some (.lab "s1")) "1" none
       [.node 101 none "" none [.node 201 (some (.lab "e1")) "1" none []],
        .node 2 none "1.1" none []],
     .node 1 none "2" none []]

/-- **The URL of every node names a file that was produced**, for every tree whose root creates a file
    (the `document` node always does), every split level and whatever ids/labels. -/
theorem url_names_produced_file (split : Int) (t : Tree) (g : Nat) (h : t.level ≤ split) :
    ∀ p ∈ urls [] (prepare split t g), ∃ f ids, p.2.file = some f ∧ (f, ids) ∈ (render (prepare split t g)).2 := by
  intro p hp
  obtain ⟨f, ids, a, b, _⟩ := land_root _ 0 (prepare_root_file split t g h) p hp
  exact ⟨f, ids, a, b⟩

example : ((urls [] (prepare 1 sample 0)).map (fun p => p.2.file)) =
    [some 0, some 1, some 1, some 1, some 1, some 2] := by decide

/-- **A fragment is an identifier emitted into exactly the file the URL names**: the file `url` finds by
    walking up the parents is the file into which `__str__` writes the node's own output
    (relative to the abstraction "a node's template emits its id"). -/
theorem fragment_is_in_that_file (split : Int) (t : Tree) (g : Nat) (h : t.level ≤ split) :
    ∀ p ∈ urls [] (prepare split t g), ∀ i, p.2.frag = some i →
      ∃ f ids, p.2.file = some f ∧ (f, ids) ∈ (render (prepare split t g)).2 ∧ i ∈ ids := by
  intro p hp i hi
  obtain ⟨f, ids, a, b, c⟩ := land_root _ 0 (prepare_root_file split t g h) p hp
  exact ⟨f, ids, a, b, c i hi⟩

/-- the same two facts for any annotated tree whose root has a file (not only `prepare`d ones) -/
theorem every_url_lands (root : Tree) (f : Nat) (hf : root.file = some f) :
    ∀ p ∈ urls [] root, Lands (render root).2 (toLink p.2) := land_root root f hf

example : (render (prepare 1 sample 0)).2 =
    [(0, [.gen 0]), (1, [.lab "s1", .gen 2, .lab "e1", .gen 3]), (2, [.gen 1])] := by decide

/-- **Identifiers are unique within each file** (indeed in the whole output): labels pairwise distinct
    (NF-doc), generated identifiers fresh — every pass draws them from the counter interval it moves over,
    above everything drawn before. -/
theorem ids_unique_per_file (split : Int) (t : Tree) (g : Nat)
    (hl : (idsOf t).Nodup) (hg : ∀ k, Id.gen k ∈ idsOf t → k < g) :
    UniqueIds (render (prepare split t g)).2 := by
  intro p hp
  exact (render_nodup _ (prepare_nodup split t g hl hg)).2 p hp

/-- generated identifiers are strictly fresh: an identifier present after a pass is an old one or
    `gen k` with `g ≤ k <` the new counter value; the counter never decreases. -/
theorem generated_ids_fresh (touch mk : Int → Bool) (t : Tree) (g f : Nat) :
    g ≤ (pass touch mk t g f).2.1 ∧
    ∀ i ∈ idsOf (pass touch mk t g f).1, i ∈ idsOf t ∨ ∃ k, i = .gen k ∧ g ≤ k ∧ k < (pass touch mk t g f).2.1 := by
  have e := pass_fill touch mk t g f
  have sp := fill_spec (slots touch t) g
  rw [e.1, e.2, ← pre_slots touch t]
  exact sp

example : (idsOf sample).Nodup ∧ ∀ k, Id.gen k ∈ idsOf sample → k < 0 := by
  have e : idsOf sample = [.lab "s1", .lab "e1"] := by decide
  rw [e]; simp

/-- **A resolved reference shows the number of its target and links to its URL**: with pairwise distinct
    labels, `\ref{l}` to the node carrying label `l` renders that node's number and that node's URL
    (which lands, by the theorems above). -/
theorem ref_shows_target_number (root : Tree) (l : String) (n : Tree) (u : Url)
    (hd : ((labelled root).map (·.1)).Nodup)
    (hn : (n, u) ∈ urls [] root) (hl : n.id = some (.lab l)) (hnum : n.num ≠ "") :
    renderRef root l = some (u, n.num) := by
  have hmem : (l, n, u) ∈ labelled root := by
    unfold labelled
    simp only [List.mem_filterMap]
    exact ⟨(n, u), hn, by simp [hl]⟩
  have hfind := find_unique (fun e : String × Tree × Url => e.1) (labelled root).reverse (l, n, u)
    (by rw [List.map_reverse]; exact ((List.reverse_perm _).nodup_iff).mpr hd) (by simpa using hmem)
  unfold renderRef lookupLabel
  simp only at hfind
  rw [hfind]
  simp [hnum]

example : renderRef (prepare 1 sample 0) "e1" = some (⟨some 1, some (.lab "e1")⟩, "1") := by decide

/-- **Every table-of-contents link lands**: each entry the layout emits is the URL of a node of the tree. -/
theorem toc_links_land (root : Tree) (f : Nat) (hf : root.file = some f) (depth : Int) (nonFiles : Bool) :
    ∀ u ∈ tocLinks depth nonFiles [] root, Lands (render root).2 (toLink u) := by
  intro u hu
  unfold tocLinks at hu
  split at hu
  · simp at hu
  · split at hu
    · simp at hu
    · cases root with
      | node lv id num file kids =>
        obtain ⟨p, hp, e⟩ := entries_sub nonFiles depth kids 1 [.node lv id num file kids] u hu
        have := land_root (.node lv id num file kids) f hf p (by simp [hp])
        rw [e] at this
        exact this

/-- **With a table of contents every produced file is reachable from the start page** — full strength, any
    toc-depth, toc-non-files on or off.  `step a b` = page `a` carries a hyperlink to page `b`: an entry of the
    document's table of contents (the layouts print it on every page) or the `next` link of `SectionUtils.links`.
    Every file of the tree is reachable from the root's file.  (The proof goes along the chain of `next` links, so
    it does not even need toc-depth ≥ 1; with a depth-limited toc the deeper files are exactly the ones reached
    that way.)  Hypotheses, both decidable and evaluated by the driver on every well-formed case: `tocOK` —
    file-producing sections hang on file-producing sections; `(filesOf root).Nodup` — a file-producing node is
    identified by its file (`item is self` in the loop of `links`); for `prepare`d trees it is
    `prepared_files_distinct` below, for real names it is C15. -/
theorem toc_reaches_every_file (root : Tree) (f0 : Nat) (hf0 : root.file = some f0)
    (hok : tocOK root = true) (hn : (filesOf root).Nodup) (depth : Int) (nonFiles : Bool) :
    ∀ f ∈ filesOf root,
      Reachable f0 (fun a b => (∃ u ∈ tocLinks depth nonFiles [] root, u.file = some b) ∨
                               (∃ u, nextOf a (fileSections root) false = some u ∧ u.file = some b)) f := by
  intro f hf
  obtain ⟨p, hp, hpf⟩ := allSections_complete [] root hok f hf
  have hps : p ∈ fileSections root := by
    unfold fileSections
    exact List.mem_filter.mpr ⟨hp, by simp [hasFile, hpf]⟩
  exact next_chain_reaches root f0 hf0 hn _ (fun a b h => .inr ⟨_, h, rfl⟩) p hps f hpf

/-- the file ranks handed out by `cacheFilenames` are pairwise distinct (the hypothesis of the theorem above) -/
theorem prepared_files_distinct (split : Int) (t : Tree) (g : Nat) (h0 : filesOf t = []) :
    (filesOf (prepare split t g)).Nodup := prepare_files_nodup split t g h0

/-- the other hypothesis: after `cacheFilenames`, file-producing sections hang on file-producing sections, for
    every document whose levels nest (no node has a lower level than its parent) and every split level below
    `ENDSECTIONS_LEVEL` -/
theorem prepared_tocOK (split : Int) (hs : split < endSections) (t : Tree) (g : Nat)
    (hn : nests t = true) (h0 : filesOf t = []) : tocOK (prepare split t g) = true :=
  prepare_tocOK split hs t g hn h0

/-- **Reachability, stated on the input document only**: for every document tree whose levels nest and whose
    root is at or above the split level (the `document` node always is), at every split level below
    `ENDSECTIONS_LEVEL`, every toc-depth and toc-non-files setting and any state of `idgen`: every produced file
    is reachable from the start page (file 0) through table-of-contents and `next` links. -/
theorem toc_reaches_every_file_of_document (split : Int) (hs : split < endSections) (t : Tree) (g : Nat)
    (hroot : t.level ≤ split) (hn : nests t = true) (h0 : filesOf t = []) (depth : Int) (nonFiles : Bool) :
    ∀ f ∈ filesOf (prepare split t g),
      Reachable 0 (fun a b => (∃ u ∈ tocLinks depth nonFiles [] (prepare split t g), u.file = some b) ∨
                              (∃ u, nextOf a (fileSections (prepare split t g)) false = some u ∧ u.file = some b)) f :=
  toc_reaches_every_file (prepare split t g) 0 (prepare_root_file split t g hroot)
    (prepare_tocOK split hs t g hn h0) (prepare_files_nodup split t g h0) depth nonFiles

example : nests sample = true ∧ sample.level ≤ 1 ∧ filesOf (prepare 1 sample 0) = [0, 1, 2] := by decide

example : tocOK (prepare 1 sample 0) = true ∧ (prepare 1 sample 0).file = some 0 ∧ filesOf sample = [] ∧
    nextOf 0 (fileSections (prepare 1 sample 0)) false = some ⟨some 1, none⟩ ∧
    nextOf 1 (fileSections (prepare 1 sample 0)) false = some ⟨some 2, none⟩ := by decide

/-- **With toc-depth at least the nesting depth, the table of contents alone links every produced file**
    (no `next` link needed). -/
theorem toc_alone_reaches_every_file (root : Tree) (depth : Int) (nonFiles : Bool)
    (hok : tocOK root = true) (hh : (heightL root.kids : Int) ≤ depth) :
    ∀ f ∈ filesOfList root.kids, ∃ u ∈ tocLinks depth nonFiles [] root, u.file = some f := by
  intro f hm
  cases root with
  | node lv id num file kids =>
    simp only [Tree.kids] at hh hm
    simp only [tocOK_node] at hok
    have hpos := heightL_pos_of_mem kids f hm
    have hany := any_sub_file kids f hok hm
    unfold tocLinks
    have h1 : ¬ depth < 1 := by omega
    simp only [h1, if_false, Tree.kids, hany]
    exact entries_reach nonFiles depth kids 1 [.node lv id num file kids] hok (by omega) f hm

example : tocOK (prepare 1 sample 0) = true ∧ heightL (prepare 1 sample 0).kids ≤ 3 ∧
    (tocLinks 3 false [] (prepare 1 sample 0)).map (·.file) = [some 1, some 2] := by decide

/-- **`next` and `prev` links land**: whatever `SectionUtils.links` computes as `next` / `prev` of any file `f`
    is the URL of a node of the tree, hence names a produced file (and has no dangling fragment). -/
theorem nav_links_land (root : Tree) (f0 : Nat) (hf0 : root.file = some f0) (f : Nat) (u : Url)
    (h : nextOf f (fileSections root) false = some u ∨ prevOf f (fileSections root) none = some u) :
    Lands (render root).2 (toLink u) := by
  have key : ∃ p ∈ fileSections root, p.2 = u := by
    rcases h with h | h
    · exact nextOf_mem f _ _ u h
    · rcases prevOf_mem f _ _ u h with e | e
      · simp at e
      · exact e
  obtain ⟨p, hp, e⟩ := key
  have hp' := allSections_sub [] root p (mem_fileSections hp).1
  rw [← e]
  exact land_root root f0 hf0 p hp'

/-- **`next` and `prev` are each other's inverse on neighbouring file sections**: if `p`, `q` are consecutive in
    `sections` (document order of the file-producing sections), the page of `p` links forward to the page of `q`
    and the page of `q` links back to the page of `p`. -/
theorem next_prev_neighbours (root : Tree) (hn : (filesOf root).Nodup) (pre : List (Tree × Url)) (p q : Tree × Url)
    (post : List (Tree × Url)) (hS : fileSections root = pre ++ p :: q :: post) :
    ∃ fp fq, p.1.file = some fp ∧ q.1.file = some fq ∧
      nextOf fp (fileSections root) false = some ⟨some fq, none⟩ ∧
      prevOf fq (fileSections root) none = some ⟨some fp, none⟩ :=
  next_links_neighbour root hn pre p q post hS

example : prevOf 2 (fileSections (prepare 1 sample 0)) none = some ⟨some 1, none⟩ ∧
    prevOf 0 (fileSections (prepare 1 sample 0)) none = none := by decide

/-- **C14 ↔ C13 (owner rule)**: embed the tree into C13's model of `Renderable.__str__`
    (`Model/Render.lean`, with layouts and footnote collection; `toRender tag fname`, no footnote nodes).  For a
    root that creates a file, the file named by the URL of *any* node `n` is a file C13's render writes, and the
    token list of that file contains the opening of `n`'s own template (`Tok.op (tag n)`): `Renderable.url`'s walk
    up the parents and C13's bubbling-up of rendered strings agree on the owner of every node. -/
theorem url_file_is_c13_owner (tag : Tree → Nat) (fname : Nat → String) (root : Tree) (f0 : Nat)
    (hf0 : root.file = some f0) :
    ∀ p ∈ urls [] root, ∃ f toks, p.2.file = some f ∧
      (fname f, toks) ∈ (PlasVerif.Model.Render.child (toRender tag fname root)).2 ∧
      PlasVerif.Model.Render.Tok.op (tag p.1) ∈ toks := by
  intro p hp
  rcases owner_tree tag fname [] root p hp with ⟨a, b⟩ | h
  · -- a root with a file passes nothing upwards
    cases root with
    | node lv id num file kids =>
      simp only [Tree.file] at hf0
      subst hf0
      rw [child_node_some] at b
      simp at b
  · exact h

example : (PlasVerif.Model.Render.child (toRender (fun t => t.level.toNat) (fun k => s!"f{k}") (prepare 1 sample 0))).2.map (·.1)
    = ["f1", "f2", "f0"] := by decide

/-- a document with footnotes: one in a section that becomes a file at split level 1, one in a subsection below it -/
def sampleFoot : Tree :=
  .node (-1000000) none "" none
    [.node 1 (some (.lab "s1")) "1" none
       [.node 101 none "" none [.node 1001 none { num := "", foot := true } none []],
        .node 2 none "1.1" none [.node 101 none "" none [.node 1001 none { num := "", foot := true } none []]]]]

/-- **Footnote marks land**: a footnote's mark `<a href="#id">` is printed in the file of the footnote's own URL
    (it is part of the parent's string); its text `<li id="id">` is printed by the layout of the file-producing
    section that `SectionUtils.footnotes` finds by walking `currentSection` until a section has a filename.
    When only sections create files and footnotes are not sections (`navOK`, decidable, evaluated by the driver;
    `prepared_navOK` below), the two files are the same file, and it is a produced file. -/
theorem footnote_mark_lands (root : Tree) (f0 : Nat) (hf0 : root.file = some f0) (hok : navOK root = true) :
    ∀ e ∈ footnotes [] root, e.2.1 = e.2.2 ∧ ∃ f ids, e.2.1 = some f ∧ (f, ids) ∈ (render root).2 := by
  intro e he
  refine ⟨(foot_tree [] (by simp) root (by rw [← navOK_eq]; exact hok) e he).1, ?_⟩
  obtain ⟨p, hp, _, e2⟩ := footnotes_sub [] root e he
  obtain ⟨f, ids, a, b, _⟩ := land_root root f0 hf0 p hp
  exact ⟨f, ids, by rw [← e2]; exact a, b⟩

/-- after `cacheFilenames` at any split level below `ENDSECTIONS_LEVEL`, only sections have files -/
theorem prepared_navOK (split : Int) (hs : split < endSections) (t : Tree) (g : Nat) (h : inputOK t = true) :
    navOK (prepare split t g) = true := prepare_navOK split hs t g h

/-- **Footnote marks land, stated on the input document and the configuration**: for every filename template
    (a template that names a single file forces level −10 whatever `split-level` says: `effSplit`), every
    configured split level below `ENDSECTIONS_LEVEL`, every document in which footnotes are not sections. -/
theorem footnote_mark_lands_of_document (split : Int) (hs : split < endSections) (tmpl : List Char) (t : Tree) (g : Nat)
    (hroot : t.level ≤ effSplit split tmpl) (h : inputOK t = true) :
    ∀ e ∈ footnotes [] (prepare (effSplit split tmpl) t g),
      e.2.1 = e.2.2 ∧ ∃ f ids, e.2.1 = some f ∧ (f, ids) ∈ (render (prepare (effSplit split tmpl) t g)).2 :=
  footnote_mark_lands _ 0 (prepare_root_file _ t g hroot)
    (prepare_navOK _ (effSplit_lt split tmpl hs) t g h)

example : inputOK sampleFoot = true ∧ effSplit 2 "paper.html".toList = -10 ∧
    effSplit 2 "index [$id, sect$num(4)]".toList = 2 ∧
    (footnotes [] (prepare (effSplit 2 "paper.html".toList) sampleFoot 0)).map (fun e => (e.2.1, e.2.2)) =
      [(some 0, some 0), (some 0, some 0)] ∧
    (footnotes [] (prepare 1 sampleFoot 0)).map (fun e => (e.2.1, e.2.2)) = [(some 1, some 1), (some 1, some 1)] ∧
    (footnotes [] (prepare 2 sampleFoot 0)).map (fun e => (e.2.1, e.2.2)) = [(some 1, some 1), (some 2, some 2)] := by
  decide

/-- **`up` links and breadcrumbs land**: for every node `n` of the tree (with its chain of ancestors `a`), the
    `up`/`parent` entry and every breadcrumb that `SectionUtils.links` computes for `n` is the URL of a node of
    the tree — the ancestor, computed with that ancestor's own ancestors — hence names a produced file and an
    identifier emitted in it. -/
theorem up_and_breadcrumb_links_land (root : Tree) (f0 : Nat) (hf0 : root.file = some f0)
    (n : Tree) (a : List Tree) (hn : (n, a) ∈ nodesA [] root) (u : Url)
    (hu : u ∈ breadcrumbs n a ∨ upOf n a = some u) : Lands (render root).2 (toLink u) := by
  obtain ⟨p, hp, e⟩ := PlasVerif.Proofs.UrlsCrumbs.crumb_is_node_url root n a hn u hu
  rw [← e]
  exact land_root root f0 hf0 p hp

example : (nodesA [] (prepare 1 sample 0)).map (fun p => (breadcrumbs p.1 p.2).map (·.file)) =
    [[some 0], [some 0, some 1], [some 0, some 1, some 1], [some 0, some 1, some 1, some 1],
     [some 0, some 1, some 1], [some 0, some 2]] := by decide

/-- **A float carries the label of its caption, wherever the caption stands inside it**: if exactly one
    caption node lies below the float — directly, or nested at any depth inside boxes (`\parbox`, `\centerline`,
    `\fbox`), font commands or environments (`center`, `minipage`) — `Float.digest` makes it the float's title, so
    the identifier the float's template prints (`obj.title.id`) is the caption's id, i.e. the `\label` a `\ref`
    links to.  (`countCaps` counts caption nodes on the tree; `floatTitle` goes through `allChildNodes`.) -/
theorem float_carries_caption_label (t : Tree) (h : countCaps t = 1) :
    ∃ c, floatTitle t = some c ∧ isCaption c = true ∧ c ∈ descendants t ∧ floatId t = c.id := by
  have hl := PlasVerif.Proofs.UrlsCrumbs.caps_length t
  rw [h] at hl
  match hc : (descendants t).filter isCaption, hl with
  | [c], _ =>
    have hm : c ∈ (descendants t).filter isCaption := by rw [hc]; simp
    have hm' := List.mem_filter.mp hm
    exact ⟨c, by simp [floatTitle, hc], hm'.2, hm'.1, by simp [floatId, floatTitle, hc]⟩

/-- a figure whose caption sits in `\centerline{\parbox{..}{\caption..\label{fig:x}}}` -/
example : floatId (.node 201 none "" none
    [.node 1001 none "" none [.node 1001 none "" none
      [.node 1001 (some (.lab "fig:x")) { num := "1", cap := true } none []]]]) = some (.lab "fig:x") := by decide

/-- **The navigation entries of `userdata['links']` are nodes of the document**: whatever sequence of commands,
    `\begin{…}` and `\end{…}` instances of link-type macros the parser invokes (`\printindex`, the `theindex`
    environment makeindex writes, `thebibliography`, …), every registered entry is a command or `\begin` instance —
    never the throw-away instance created for `\end{…}` — so `links.index.url` is the URL of a rendered node
    and lands by `every_url_lands`. -/
theorem nav_entries_are_document_nodes (hist : List Inst) : ∀ e ∈ parseNav hist, e.inTree = true :=
  parseNav_inTree_go hist [] (by simp)

example : parseNav [.cmd "" 0, .envBegin "bibliography" 1, .envEnd "bibliography" 1, .envBegin "index" 2, .envEnd "index" 2] =
    [⟨"index", 2, true⟩, ⟨"bibliography", 1, true⟩] := by decide

/-! ### the index page: one navigation link and one heading per group (`IndexUtils.groups`, `Model/UrlsIndex.lean`) -/

section IndexGroups
open PlasVerif.Model.UrlsIndex PlasVerif.Proofs.UrlsIndex

/-- **The group headings of the index have pairwise distinct ids**, for every sequence of entries in whatever
    order the sort produced (entries of one group need not be adjacent: accented initials sort apart when no
    collator is installed) and whatever `unidecode` returns (multi-character or empty transliterations included):
    so the letter navigation link `#id` of each group has exactly one target. -/
theorem index_group_ids_unique (cs : List (Option (List Char))) :
    ((groups cs).map (·.id)).Pairwise (· ≠ ·) := by
  have inv := groupsGo_inv cs 0 [] ⟨by simp, by simp⟩
  have := ids_pairwise _ inv
  unfold groups
  rw [List.pairwise_map] at this ⊢
  exact this.imp (by intro a b h; simpa [key] using h)

/-- every entry of the index is listed in a group -/
theorem index_every_entry_grouped (cs : List (Option (List Char))) (i : Nat) (hi : i < cs.length) :
    ∃ g ∈ groups cs, i ∈ g.items := by
  have := groupsGo_places cs 0 [] ⟨by simp, by simp⟩ i hi
  simpa [groups] using this

example : (groups [some ['A'], some ['Z'], some ['A'], some ['S', 'S'], none, some ['_']]).map (fun g => (String.ofList g.id, g.items)) =
    [("A", [0, 2]), ("Z", [1]), ("Symbols", [3, 4]), ("_", [5])] := by decide

/-- the code before the repair (a new group whenever the title differs from the previous entry's) gives two
    headings the same id on `A, Z, A` — e.g. `Apfel`, `zeta`, `Ärger` with the fallback collation: kernel-checked -/
theorem index_group_ids_asIs_counterexample :
    ¬ ((groupsAsIs [some ['A'], some ['Z'], some ['A']]).map (·.id)).Pairwise (· ≠ ·) := by decide

end IndexGroups

end PlasVerif.Properties.C14
