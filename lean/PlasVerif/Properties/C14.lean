import PlasVerif.Proofs.Urls
/-!
# C14 — every internal link in the rendered output lands on an existing target

Property theorems only; helper lemmas are in `Proofs/Urls.lean`.  The model (`Model/Urls.lean`) mirrors
`Macro.id`/`idgen`, `Renderer.cacheFilenames`, `Renderable.filename`/`url`/`__str__`,
`SectionUtils.tableofcontents`/`links`, the `TableOfContents` proxy and `Context.label`.
`prepare split t g` is the tree after `cacheFilenames` and after every template has read its `obj.id`;
`render` is the set of files written with the identifiers emitted into each.
-/
namespace PlasVerif.Properties.C14
open PlasVerif.Model.Urls PlasVerif.Spec.Links PlasVerif.Proofs.Urls

/-- a small document used for the non-vacuity examples: document{ section[s1]{ par{ equation[e1] } subsection } section } -/
def sample : Tree :=
  .node (-1000000) none "" none
    [.node 1 (some (.lab "s1")) "1" none
       [.node 101 none "" none [.node 201 (some (.lab "e1")) "1" none []],
        .node 2 none "1.1" none []],
     .node 1 none "2" none []]

/-- **The URL of every node names a file that was produced**, for every tree whose root creates a file
    (the `document` node always does), every split level and whatever ids/labels. -/
theorem url_names_produced_file (split : Int) (t : Tree) (g : Nat) (h : t.level ≤ split) :
    ∀ p ∈ urls [] (prepare split t g), ∃ f ids, p.2.file = some f ∧ (f, ids) ∈ (render (prepare split t g)).2 := by
  intro p hp
  obtain ⟨f, ids, a, b, _⟩ := land_root _ 0 (prepare_root_file split t g h) p hp
  exact ⟨f, ids, a, b⟩

example : ((urls [] (prepare 1 sample 0)).map (fun p => p.2.file)) =
    [some 0, some 1, some 1, some 1, some 1, some 2] := by decide

/-- **A fragment is an identifier emitted into exactly the file the URL names**: the file `url` finds by
    walking up the parents is the file into which `__str__` writes the node's own output
    (relative to the abstraction "a node's template emits its id"). -/
theorem fragment_is_in_that_file (split : Int) (t : Tree) (g : Nat) (h : t.level ≤ split) :
    ∀ p ∈ urls [] (prepare split t g), ∀ i, p.2.frag = some i →
      ∃ f ids, p.2.file = some f ∧ (f, ids) ∈ (render (prepare split t g)).2 ∧ i ∈ ids := by
  intro p hp i hi
  obtain ⟨f, ids, a, b, c⟩ := land_root _ 0 (prepare_root_file split t g h) p hp
  exact ⟨f, ids, a, b, c i hi⟩

/-- the same two facts for any annotated tree whose root has a file (not only `prepare`d ones) -/
theorem every_url_lands (root : Tree) (f : Nat) (hf : root.file = some f) :
    ∀ p ∈ urls [] root, Lands (render root).2 (toLink p.2) := land_root root f hf

example : (render (prepare 1 sample 0)).2 =
    [(0, [.gen 0]), (1, [.lab "s1", .gen 2, .lab "e1", .gen 3]), (2, [.gen 1])] := by decide

/-- **Identifiers are unique within each file** (indeed in the whole output): labels pairwise distinct
    (NF-doc), generated identifiers fresh — every pass draws them from the counter interval it moves over,
    above everything drawn before. -/
theorem ids_unique_per_file (split : Int) (t : Tree) (g : Nat)
    (hl : (idsOf t).Nodup) (hg : ∀ k, Id.gen k ∈ idsOf t → k < g) :
    UniqueIds (render (prepare split t g)).2 := by
  intro p hp
  exact (render_nodup _ (prepare_nodup split t g hl hg)).2 p hp

/-- generated identifiers are strictly fresh: an identifier present after a pass is an old one or
    `gen k` with `g ≤ k <` the new counter value; the counter never decreases. -/
theorem generated_ids_fresh (touch mk : Int → Bool) (t : Tree) (g f : Nat) :
    g ≤ (pass touch mk t g f).2.1 ∧
    ∀ i ∈ idsOf (pass touch mk t g f).1, i ∈ idsOf t ∨ ∃ k, i = .gen k ∧ g ≤ k ∧ k < (pass touch mk t g f).2.1 := by
  have e := pass_fill touch mk t g f
  have sp := fill_spec (slots touch t) g
  rw [e.1, e.2, ← pre_slots touch t]
  exact sp

example : (idsOf sample).Nodup ∧ ∀ k, Id.gen k ∈ idsOf sample → k < 0 := by
  have e : idsOf sample = [.lab "s1", .lab "e1"] := by decide
  rw [e]; simp

/-- **A resolved reference shows the number of its target and links to its URL**: with pairwise distinct
    labels, `\ref{l}` to the node carrying label `l` renders that node's number and that node's URL
    (which lands, by the theorems above). -/
theorem ref_shows_target_number (root : Tree) (l : String) (n : Tree) (u : Url)
    (hd : ((labelled root).map (·.1)).Nodup)
    (hn : (n, u) ∈ urls [] root) (hl : n.id = some (.lab l)) (hnum : n.num ≠ "") :
    renderRef root l = some (u, n.num) := by
  have hmem : (l, n, u) ∈ labelled root := by
    unfold labelled
    simp only [List.mem_filterMap]
    exact ⟨(n, u), hn, by simp [hl]⟩
  have hfind := find_unique (fun e : String × Tree × Url => e.1) (labelled root).reverse (l, n, u)
    (by rw [List.map_reverse]; exact ((List.reverse_perm _).nodup_iff).mpr hd) (by simpa using hmem)
  unfold renderRef lookupLabel
  simp only at hfind
  rw [hfind]
  simp [hnum]

example : renderRef (prepare 1 sample 0) "e1" = some (⟨some 1, some (.lab "e1")⟩, "1") := by decide

/-- **Every table-of-contents link lands**: each entry the layout emits is the URL of a node of the tree. -/
theorem toc_links_land (root : Tree) (f : Nat) (hf : root.file = some f) (depth : Int) (nonFiles : Bool) :
    ∀ u ∈ tocLinks depth nonFiles [] root, Lands (render root).2 (toLink u) := by
  intro u hu
  unfold tocLinks at hu
  split at hu
  · simp at hu
  · split at hu
    · simp at hu
    · cases root with
      | node lv id num file kids =>
        obtain ⟨p, hp, e⟩ := entries_sub nonFiles depth kids 1 [.node lv id num file kids] u hu
        have := land_root (.node lv id num file kids) f hf p (by simp [hp])
        rw [e] at this
        exact this

/-- Full statement of the reachability clause: with a table of contents (toc-depth ≥ 1), every produced
    file is the start page or reachable from it through toc links and `next` links. -/
def toc_reaches_every_file_statement : Prop :=
  ∀ (root : Tree) (depth : Int) (nonFiles : Bool), tocOK root = true → hasFile root = true → 1 ≤ depth →
    ∀ f ∈ filesOf root, root.file = some f ∨
      (∃ u ∈ tocLinks depth nonFiles [] root, u.file = some f) ∨
      (∃ p ∈ fileSections root, ∃ u, nextOf ((p.1.file).getD 0) (fileSections root) false = some u ∧ u.file = some f)

/-- **With toc-depth at least the nesting depth, the table of contents links every produced file.**
    Partial: the depth-limited case (files deeper than toc-depth are reached through the chain of `next`
    links of `SectionUtils.links`) is not proved here; it is carried by the correspondence streams
    (`url`: closure over T and N links; `doc14`: reachability in the real output).
    `tocOK`: file-producing sections hang on file-producing sections (evaluated by the driver on every case). -/
theorem toc_reaches_every_file_partial (root : Tree) (depth : Int) (nonFiles : Bool)
    (hok : tocOK root = true) (hh : (heightL root.kids : Int) ≤ depth) :
    ∀ f ∈ filesOfList root.kids, ∃ u ∈ tocLinks depth nonFiles [] root, u.file = some f := by
  intro f hm
  cases root with
  | node lv id num file kids =>
    simp only [Tree.kids] at hh hm
    simp only [tocOK_node] at hok
    have hpos := heightL_pos_of_mem kids f hm
    have hany := any_sub_file kids f hok hm
    unfold tocLinks
    have h1 : ¬ depth < 1 := by omega
    simp only [h1, if_false, Tree.kids, hany]
    exact entries_reach nonFiles depth kids 1 [.node lv id num file kids] hok (by omega) f hm

example : tocOK (prepare 1 sample 0) = true ∧ heightL (prepare 1 sample 0).kids ≤ 3 ∧
    (tocLinks 3 false [] (prepare 1 sample 0)).map (·.file) = [some 1, some 2] := by decide

end PlasVerif.Properties.C14
