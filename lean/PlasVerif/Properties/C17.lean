import PlasVerif.Proofs.GlobalState
import PlasVerif.Proofs.ClassCache
import PlasVerif.Proofs.GlobalStateSim
import PlasVerif.Proofs.EnableBalanceTable
import PlasVerif.Proofs.Holders
import PlasVerif.Proofs.FileLookup
/-!
# C17 — A document's result does not depend on what was processed before it

Property theorems only (helpers in `Proofs/GlobalState.lean`).  `Variant` says where the code keeps each
interpreter-wide datum: `pinned` (the tree as pinned: D5, D6a, D6b, D6c, D6d, column types all on classes),
`current` (after the `fix:` commits for D5, D6a, D6b — what the correspondence ties to the code now) and
`repaired` (everything per document).  Histories and documents are arbitrary event lists: unbounded length,
documents may end inside math, inside `\hbox{` arguments or inside lists, may contain stray closers.
-/
namespace PlasVerif.Properties.C17
open PlasVerif.Model.GlobalState PlasVerif.Spec.Isolation PlasVerif.Proofs.GlobalState

/-- **State restored, every variant.**  After any history of documents each of which is `Clean` for the
    variant (a restriction only where the variant still keeps the datum on a class), no class-level datum
    differs from its initial value — exactly, not up to anything. -/
theorem state_restored (v : Variant) : Restored v (fun A => Clean v A = true) := by
  intro hist
  suffices h : ∀ (k : Nat), (∀ A ∈ hist, Clean v A = true) → (processAll v (init, k) hist).1 = init from h 0
  induction hist with
  | nil => intro k _; rfl
  | cons A rest ih =>
    intro k h
    simp only [processAll, process]
    rw [runDoc_restores v A (h A (List.mem_cons_self ..))]
    exact ih _ (fun B hB => h B (List.mem_cons_of_mem _ hB))

/-- **Isolation, every variant.**  `B` (any document, clean or not) processed after any history of clean
    documents has the canonical result it has as the first document of a fresh interpreter. -/
theorem isolation_of_clean (v : Variant) : Isolated v (fun A => Clean v A = true) := by
  intro hist B h
  have hs : (processAll v (init, 0) hist).1 = init := state_restored v hist h
  simp only [result, process, fresh]
  rw [hs, canon_label, canon_label]

/-- **Isolation (repaired variant): the full statement**, for every history and every document. -/
theorem isolation : Isolated repaired (fun _ => True) := by
  intro hist B _
  exact isolation_of_clean repaired hist B (fun A _ => by simp [Clean, repaired])

/-- … and its consequence: nothing interpreter-wide ever differs from its initial value. -/
theorem state_restored_repaired : Restored repaired (fun _ => True) := by
  intro hist _
  exact state_restored repaired hist (fun A _ => by simp [Clean, repaired])

/-- non-vacuity: a history that ends inside math, inside a list and inside a box, assigns a register, loads
    `article`, defines a column type and uses an `any` argument; `B` uses all of them -/
example : result repaired (processAll repaired fresh
      [[.docclass .article, .dollar, .listBegin, .item, .assign 0 7, .newcol 90, .arg .any, .boxOpen, .dollar]])
      [.docclass .book, .dollar, .dollar, .listBegin, .item, .use 0, .usecol 90, .printindex, .node] =
    [.dc .book, .mopen .display, .lb, .item 0, .use 0 20, .col 90 false, .idx false, .node 0] := by decide

/-- the full statement for the code as it is now; it is FALSE (see `current_leaks_*`) -/
def isolation_statement : Prop := Isolated current (fun _ => True)

/-- **Isolation for the current code (partial).**  What is missing for the full statement: the two known
    findings — earlier documents must not assign a TeX register (D6c) and not define a column type (D6e); see
    `isolation_partial_reads` for the larger fragment in which they may, as long as `B` does not read them.  Documents may still end inside math, boxes or lists and use `any` arguments. -/
theorem isolation_partial :
    Isolated current (fun A => assignsReg A = false ∧ definesCol A = false) := by
  intro hist B h
  refine isolation_of_clean current hist B (fun A hA => ?_)
  obtain ⟨h1, h3⟩ := h A hA
  simp [Clean, current, h1, h3]

theorem state_restored_partial :
    Restored current (fun A => assignsReg A = false ∧ definesCol A = false) := by
  intro hist h
  refine state_restored current hist (fun A hA => ?_)
  obtain ⟨h1, h3⟩ := h A hA
  simp [Clean, current, h1, h3]

/-- non-vacuity: the hypotheses hold for a document that ends inside `$`, a list and an `\hbox{` -/
example : (fun A => assignsReg A = false ∧ definesCol A = false)
    [.docclass .article, .arg .any, .dollar, .listBegin, .item, .boxOpen, .dollar, .ifthen] := by decide

/-- **Isolation for the pinned code (partial)**: additionally every earlier document must (i) close its math
    shifts, boxes and lists and (iv) use no `any`-typed argument. -/
theorem isolation_partial_pinned :
    Isolated pinned (fun A => closesAll pinned A = true ∧ usesAny A = false ∧ assignsReg A = false ∧
      patchesClass A = false ∧ definesCol A = false) := by
  intro hist B h
  refine isolation_of_clean pinned hist B (fun A hA => ?_)
  obtain ⟨h0, h1, h2, h3, h4⟩ := h A hA
  unfold Clean
  rw [h0, h1, h2, h3, h4]
  rfl

example : (fun A => closesAll pinned A = true ∧ usesAny A = false ∧ assignsReg A = false ∧
      patchesClass A = false ∧ definesCol A = false)
    [.docclass .book, .dollar, .dollar, .node, .dollar, .dollar, .listBegin, .item, .boxOpen, .dollar, .use 0, .dollar, .boxClose,
     .listEnd, .ifthen, .arg .number] := by decide

/-- **The same input twice gives identical results.** -/
theorem repeatable (v : Variant) : Repeatable v (fun B => Clean v B = true) := by
  intro B h
  have := isolation_of_clean v [B] B (fun A hA => by simp at hA; subst hA; exact h)
  simpa [processAll] using this

theorem repeatable_repaired : Repeatable repaired (fun _ => True) := by
  intro B _
  exact repeatable repaired B (by simp [Clean, repaired])

/-- **Argument-scanning switches are balanced** by every document at all (any events, any ending) once the
    `any` path re-enables: `enabled`, `_enablelevel`, `BeginMath/EndMath.disableMath` are back at their
    initial values after the document. -/
theorem switches_restored (v : Variant) (hv : v.fixAny = true) (d : List Ev) :
    (runDoc v init d).1.enabled = init.enabled ∧ (runDoc v init d).1.level = init.level ∧
    (runDoc v init d).1.disBegin = init.disBegin ∧ (runDoc v init d).1.disEnd = init.disEnd :=
  runDoc_switches v d (fun e _ => by
    cases e with
    | arg ty => cases ty <;> simp [okSw, hv]
    | _ => simp [okSw])

/-- **Math and list nesting trackers**: with the trackers on the document, no document — whatever it leaves
    open — changes the class-level ones, from any state. -/
theorem trackers_restored (v : Variant) (hv : v.trkDoc = true) (g : G) (d : List Ev) :
    (runDoc v g d).1.inEnv = g.inEnv ∧ (runDoc v g d).1.depth = g.depth :=
  runDoc_trackers v hv g d

example : (runDoc current init [.dollar, .listBegin, .boxOpen, .dollar]).1 = init := by decide

/-! ### kernel-checked counterexamples, one per leak -/

/-- D5 (pinned): after `\openout\f=x ` a later document's `\parindent=9pt` is printed, not executed -/
theorem pinned_leaks_any :
    result pinned (processAll pinned fresh [[.arg .any]]) [.assign 0 9, .use 0] ≠ result pinned fresh [.assign 0 9, .use 0] := by
  decide

/-- D6a (pinned): after a document ending inside `$`, the next document's first `$` closes math -/
theorem pinned_leaks_math :
    result pinned (processAll pinned fresh [[.dollar]]) [.dollar, .dollar] ≠ result pinned fresh [.dollar, .dollar] := by
  decide

/-- D6a, box form (pinned): `\hbox{$x}` leaves a `None` entry on the class-level stack -/
theorem pinned_leaks_box : (processAll pinned fresh [[.boxOpen, .dollar, .boxClose]]).1 ≠ init := by decide

/-- D6b (pinned): after a document ending inside a list the next document's items use `enumii` -/
theorem pinned_leaks_list :
    result pinned (processAll pinned fresh [[.listBegin]]) [.listBegin, .item] ≠ result pinned fresh [.listBegin, .item] := by
  decide

/-- D6c (current code): a register assigned in one document is read by the next -/
theorem current_leaks_register :
    result current (processAll current fresh [[.assign 0 7]]) [.use 0] ≠ result current fresh [.use 0] := by decide

/-- D6d (pinned, repaired since): `article` then `book`: the index is at section level -/
theorem pinned_leaks_class :
    result pinned (processAll pinned fresh [[.docclass .article]]) [.docclass .book, .printindex] ≠
      result pinned fresh [.docclass .book, .printindex] := by decide

/-- D6e (current code): a column type defined in one document is known to the next -/
theorem current_leaks_column :
    result current (processAll current fresh [[.newcol 90]]) [.usecol 90] ≠ result current fresh [.usecol 90] := by decide

/-- hence the full statement is false of the current code -/
theorem isolation_statement_false : ¬ isolation_statement := by
  intro h
  exact current_leaks_register (h [[.assign 0 7]] [.use 0] (fun _ _ => trivial))

/-! ### the largest fragment of `isolation_statement` for the current code -/

/-- **Isolation for the current code, whatever the history does** (it may assign registers and define column
    types — the two data still kept on classes — end inside math or lists, load any class): `B` has the result it
    has in a fresh interpreter provided `B` itself reads no register that an earlier document assigned and tests no
    column type that an earlier document defined (`Unobserved`, a decidable predicate on the texts).  What is
    missing for `isolation_statement`: exactly the documents `B` that *do* read such a register / column type —
    for those the statement is false (`current_leaks_register`, `current_leaks_column`). -/
theorem isolation_partial_reads (hist : List (List Ev)) (B : List Ev) (h : Unobserved hist B = true) :
    result current (processAll current fresh hist) B = result current fresh B := by
  have hs : Sim ([] ++ hist.flatMap writesOf) ([] ++ hist.flatMap newcolsOf) init (processAll current (init, 0) hist).1 :=
    processAll_touch current rfl rfl rfl hist [] [] init init 0 (Sim.refl init) ⟨rfl, rfl, rfl, rfl⟩
  simp only [List.nil_append] at hs
  have hav : ∀ e ∈ B, evAvoids (hist.flatMap writesOf) (hist.flatMap newcolsOf) e = true := by
    simpa [Unobserved, List.all_eq_true] using h
  obtain ⟨o, _⟩ := runDoc_sim current rfl rfl _ _ init (processAll current (init, 0) hist).1 B hs hav
  simp only [result, process, fresh]
  rw [canon_label, canon_label, o]

/-- non-vacuity: the history assigns `\parindent` and `\thinmuskip`, copies a register, defines column type `Z`, loads
    `article` and ends inside math and a list; `B` reads other registers, re-assigns `\parindent`, uses column `c` -/
example : Unobserved
    [[.docclass .article, .assign 0 7, .copy 8 9, .newcol 90, .dollar, .listBegin, .item, .arg .any]]
    [.docclass .book, .use 1, .assign 0 3, .copy 2 3, .usecol 99, .dollar, .dollar, .printindex, .node] = true := by decide

/-- the class-level state after ANY history of the current code differs from the initial one at most in the
    registers the history assigned and the column types it defined (everything else — switches, trackers, index
    level — is exactly initial, whatever the documents contain and however they end) -/
theorem state_restored_except_written (hist : List (List Ev)) :
    Sim (hist.flatMap writesOf) (hist.flatMap newcolsOf) init (processAll current fresh hist).1 := by
  have hs := processAll_touch current rfl rfl rfl hist [] [] init init 0 (Sim.refl init) ⟨rfl, rfl, rfl, rfl⟩
  simp only [List.nil_append] at hs
  exact hs

example : (processAll current fresh [[.assign 0 7, .newcol 90, .dollar, .listBegin, .arg .any, .docclass .article]]).1 =
    { init with regs := init.regs.set 0 7, cols := 90 :: init.cols } := by decide

/-! ### the abstraction "an argument read is balanced" against the regenerated reader skeletons -/
section Readers
open PlasVerif.Model.EnableBalance PlasVerif.Proofs.EnableBalanceTable

/-- Every event of the model that reads an argument changes the enable level by `balancedArg`.  That is what the code
    does: for each of the seven reader functions whose control-flow skeleton is regenerated from `plasTeX/TeX.py` on
    every run (`readArgumentAndSource`, `readDimen`, `readInteger`, `readGlue`, `readMuGlue`, …), every execution that
    returns or falls off the end — any branches, any number of loop iterations, exceptions caught anywhere — leaves the
    enable level where `balancedArg` leaves it. -/
theorem readers_agree_with_balancedArg (g : G) :
    ∀ p ∈ PlasVerif.Generated.ArgPaths.skeletons, ∀ m : Int,
      Exec p.2 g.level .returned m ∨ Exec p.2 g.level .normal m → m = (balancedArg g).level := by
  intro p hp m h
  have := all_skeletons_paths_balanced p hp g.level m h
  simp [balancedArg, enable, disable, this]

/-- non-vacuity: the skeleton of `readDimen` has a returning execution (the register branch) -/
example : ∃ m, Exec PlasVerif.Generated.ArgPaths.readDimen 0 .returned m :=
  ⟨0, .seqNormal (.disable 0) (.seqStop (.loopExit (.seqStop (.choiceL (.seqNormal (.enable _) (.ret _))) (by decide)) (Or.inl rfl)) (by decide))⟩

end Readers

/-! ### the per-document state holders (`TeXDocument.__init__`, `Context.__init__`, `TeX.__init__`, the configuration) -/
section HoldersSec
open PlasVerif.Model.Holders PlasVerif.Proofs.Holders

/-- **Holders that share no mutable object isolate their documents.**  If no object is reachable from both the
    holders of `A` and the holders of `B`, then after any sequence of mutations by `A` (of objects it reaches, storing
    references to objects it reaches or to fresh ones) `B` reaches exactly the same objects, each with exactly the
    same content — and the two documents are still disjoint.  The stream `holders` checks the hypothesis on the
    object graphs of real documents and the conclusion by mutating every object of one and looking at the other. -/
theorem holders_isolated {RA RB : List Nat} {h h' : Heap} (hs : Steps RA RB h h')
    (hd : ∀ o, Reach h RA o → ¬ Reach h RB o) :
    (∀ o, Reach h' RB o ↔ Reach h RB o) ∧ (∀ o, Reach h RB o → h' o = h o) ∧
    (∀ o, Reach h' RA o → ¬ Reach h' RB o) :=
  steps_frame hs hd

/-- two documents: holder 0 with a dict 2, holder 1 with a dict 3 -/
def twoDocs : Heap := fun o => if o = 0 then [2] else if o = 1 then [3] else []

/-- non-vacuity: `A` stores a freshly allocated object 4 in its dict -/
example : Steps [0] [1] twoDocs (write twoDocs 2 [4]) := by
  refine .write 2 [4] (.step (a := 0) (.root (by simp)) (by simp [twoDocs])) (fun x hx => .inr ?_) (.done _)
  simp at hx; subst hx
  refine ⟨by simp [twoDocs], fun hr => ?_⟩
  generalize hx : (4 : Nat) = x at hr
  induction hr with
  | root h => simp at h; omega
  | step ha hb ih =>
    rename_i a b
    by_cases h1 : a = 0
    · subst h1; simp [twoDocs] at hb; omega
    · by_cases h2 : a = 1
      · subst h2; simp [twoDocs] at hb; omega
      · simp [twoDocs, h1, h2] at hb

/-- holders 0 and 1 share their content object 2 (a mutable default) -/
def sharedDefault : Heap := fun o => if o = 0 then [2] else if o = 1 then [2] else []

/-- a shared default: what `A` writes into it, `B` sees -/
theorem shared_default_leaks :
    Reach sharedDefault [0] 2 ∧ Reach sharedDefault [1] 2 ∧ write sharedDefault 2 [3] 2 ≠ sharedDefault 2 := by
  refine ⟨.step (a := 0) (.root (by simp)) (by simp [sharedDefault]),
    .step (a := 1) (.root (by simp)) (by simp [sharedDefault]), by simp [write, sharedDefault]⟩

/-- **Interpreter-wide state that a document does not write stays what it was.**  `R` are the roots of the
    interpreter-wide state (every class and every module global of plasTeX); a document whose mutations all go to
    objects that cannot be reached from `R` leaves everything reachable from `R` — every class attribute, every
    module-level table, at any depth — exactly as it was.  The document-level oracle snapshots all of these
    attributes before and after every document of the `pair` stream (and conversely reports the attribute that
    changed, e.g. a list that moved from the instance to the class). -/
theorem unwritten_state_unchanged {R : List Nat} {h h' : Heap} (hs : WritesAvoid R h h') :
    (∀ o, Reach h' R o ↔ Reach h R o) ∧ (∀ o, Reach h R o → h' o = h o) :=
  avoid_frame hs

/-- non-vacuity: class root 1 owns table 3; the document (holder 0, dict 2) writes only into its own dict -/
example : WritesAvoid [1] twoDocs (write twoDocs 2 [4]) := by
  refine .write 2 [4] (fun hr => ?_) (.done _)
  generalize hx : (2 : Nat) = x at hr
  induction hr with
  | root h => simp at h; omega
  | step ha hb ih =>
    rename_i a b
    by_cases h1 : a = 0
    · subst h1; exact absurd ha (by
        intro ha
        generalize hy : (0 : Nat) = y at ha
        induction ha with
        | root h => simp at h; omega
        | step ha' hb' ih' =>
          rename_i a' b'
          by_cases g1 : a' = 0
          · subst g1; simp [twoDocs] at hb'; omega
          · by_cases g2 : a' = 1
            · subst g2; simp [twoDocs] at hb'; omega
            · simp [twoDocs, g1, g2] at hb')
    · by_cases h2 : a = 1
      · subst h2; simp [twoDocs] at hb; omega
      · simp [twoDocs, h1, h2] at hb

/-- the `auxFiles` shape: the list (object 2) hangs off the class (root 1) and the document's `TeX` object (root 0)
    only reaches it through the class: appending to it is a write the class-level state sees -/
theorem class_level_list_is_written :
    Reach sharedDefault [1] 2 ∧ write sharedDefault 2 [3] 2 ≠ sharedDefault 2 :=
  ⟨shared_default_leaks.2.1, shared_default_leaks.2.2⟩

/-- the `\\ifpdf` shape: a switch cell (object 2) that hangs off a module-level class (root 1) is reachable from that
    class, so `\\pdftrue` executed by a document (holder 0, which reaches the cell only through the class) is a write
    that the interpreter-wide state sees; a switch made by `\\newif` is a fresh object of the document's own context
    (`twoDocs`: cell 2 under holder 0 only) and `unwritten_state_unchanged` applies to it -/
theorem module_level_switch_is_shared :
    Reach sharedDefault [1] 2 ∧ write sharedDefault 2 [3] 2 ≠ sharedDefault 2 :=
  class_level_list_is_written

end HoldersSec

/-! ### file lookup (`TeX.kpsewhich`): the `TEXINPUTS` juggling and what a lookup may depend on -/
section FileLookupSec
open PlasVerif.Model.FileLookup PlasVerif.Proofs.FileLookup

/-- **`TEXINPUTS` is restored by every lookup** — found, not found (the exception path) or absolute name — whatever
    the files, the search list and the directory of the file being read. -/
theorem kpsewhich_restores_texinputs (fs : FS) (ti : List Nat) (r : Req) : (kpsewhich fs ti r).2 = ti := by
  unfold kpsewhich; split <;> rfl

/-- **A lookup is decided by the request alone**: the directory of the file being read comes first, then the entries
    of `TEXINPUTS` in order, then the working directory; so the same request in a later document finds the same file. -/
theorem kpsewhich_search_order (fs : FS) (ti : List Nat) (name : Nat) (s : Nat) :
    find fs ti ⟨name, false, some s⟩ =
      (if fs.contains (s, name) then Res.found s else search fs name (if ti.isEmpty then [0] else ti ++ [0])) := by
  simp only [find, kpsewhich, during, Bool.false_eq_true, if_false]
  by_cases h : ti.isEmpty = true <;> simp [h, search]

example : find [(1, 7), (2, 7), (0, 9)] [] ⟨7, false, some 2⟩ = .found 2 ∧
    find [(1, 7), (2, 7), (0, 9)] [1] ⟨9, false, some 2⟩ = .found 0 ∧
    find [(1, 7)] [1] ⟨8, false, some 2⟩ = .notFound := by decide

/-- **A memo table in front of the lookup is transparent exactly when its key determines the lookup**: then, for every
    sequence of requests (of any documents, in any order) it answers what the uncached lookup answers. -/
theorem lookup_memo_transparent {κ} [BEq κ] [LawfulBEq κ] (key : Req → List Nat → κ) (fs : FS)
    (hd : Determines key fs) (reqs : List (List Nat × Req)) :
    memoRun key fs [] reqs = reqs.map (fun q => find fs q.1 q.2) :=
  memoRun_eq key fs hd reqs [] (fun _ _ _ h => by simp [List.lookup] at h)

/-- non-vacuity: the full key (request and search list) determines the lookup -/
example (fs : FS) : Determines (fun r ti => (r, ti)) fs := by
  intro r r' ti ti' h
  simp only [Prod.mk.injEq] at h
  rw [h.1, h.2]

/-- a table keyed by the name and `TEXINPUTS` only (not by the directory of the file being read) is NOT transparent:
    two projects each with their own file 7, the second one gets the first one's — kernel-checked -/
theorem lookup_memo_by_name_leaks :
    memoRun (fun r ti => (r.name, ti)) [(1, 7), (2, 7)] [] [([], ⟨7, false, some 1⟩), ([], ⟨7, false, some 2⟩)] ≠
      [([], ⟨7, false, some 1⟩), ([], (⟨7, false, some 2⟩ : Req))].map (fun q => find [(1, 7), (2, 7)] q.1 q.2) := by
  decide

end FileLookupSec

/-! ### the per-class caches `'@locals'` and `'@arguments'` are transparent

They are class-level state that earlier documents fill and nothing resets; what the property needs is that no
later lookup can tell.  `mro`, the uncached computation `f` and the history of lookups are arbitrary. -/
section ClassCache
open PlasVerif.Model.ClassCache PlasVerif.Proofs.ClassCache

/-- **Every lookup, after any history of lookups (any classes, any order, any repetitions), returns exactly what
    the uncached computation gives for that class** — and the whole history of answers is `hist.map f`. -/
theorem class_cache_transparent {τ} (mro : Nat → List Nat) (f : Nat → τ) (hist : List Nat) (c : Nat) :
    (lookups false mro f [] hist).2 = hist.map f ∧
    (lookup false mro f (lookups false mro f [] hist).1 c).2 = f c := by
  obtain ⟨h1, h2⟩ := lookups_sound mro f hist [] (sound_nil f)
  exact ⟨h1, (lookup_sound mro f _ c h2).1⟩

/-- instance: the macros local to an environment do not depend on which environments were used before -/
theorem locals_independent_of_history (mro : Nat → List Nat) (own : Nat → Table) (hist : List Nat) (c : Nat) :
    (lookup false mro (computeLocals mro own) (lookups false mro (computeLocals mro own) [] hist).1 c).2 =
      computeLocals mro own c :=
  (class_cache_transparent mro (computeLocals mro own) hist c).2

/-- non-vacuity: class 1 derives from class 0 and overrides macro 5; using 0 first does not change what 1 sees -/
example : (lookups false (fun c => if c = 1 then [1, 0] else [c])
      (computeLocals (fun c => if c = 1 then [1, 0] else [c]) (fun c => if c = 0 then [(5, 10), (6, 12)] else if c = 1 then [(5, 11)] else []))
      [] [0, 1, 0, 1]).2 = [[(5, 10), (6, 12)], [(5, 11), (6, 12)], [(5, 10), (6, 12)], [(5, 11), (6, 12)]] := by decide

/-- reading the cache with attribute lookup (so that a class sees the entry cached by a base class) breaks it:
    kernel-checked counterexample — the derived class gets the base class's table once the base has been used -/
theorem inherited_cache_leaks :
    (lookups true (fun c => if c = 1 then [1, 0] else [c])
      (computeLocals (fun c => if c = 1 then [1, 0] else [c]) (fun c => if c = 0 then [(5, 10)] else if c = 1 then [(5, 11)] else []))
      [] [0, 1]).2 ≠ [[(5, 10)], [(5, 11)]] := by decide

end ClassCache

end PlasVerif.Properties.C17
