import PlasVerif.Proofs.Config
import PlasVerif.Proofs.ConfigInterp
import PlasVerif.Proofs.ConfigAcyclic
import PlasVerif.Proofs.ConfigDomain
import PlasVerif.Generated.Config
/-!
# C16 — Configuration values come from defaults, files and command line in that order

Property theorems only; helper lemmas are in `Proofs/Config.lean` and `Proofs/ConfigInterp.lean`.
`run false T files argv` is the model of `client.main` (defaults → `read(files)` → `updateFromDict`),
for an arbitrary option table `T`, any number of files with any lines, any command line.
`den T files argv i` is what the property prescribes for option `i` (`Spec/Config.lean`).
-/
namespace PlasVerif.Properties.C16
open PlasVerif.Model.Config PlasVerif.Spec.Config PlasVerif.Proofs.Config PlasVerif.Proofs.ConfigInterp
  PlasVerif.Proofs.ConfigAcyclic

/-! ## a small table for the non-vacuity examples: `[s] name : str = "d"`, `[s] n : int = 2`, `[s] flag : bool = True
(--flag / !--no-flag)`, `[s] items : list = []`, `[s] map : dict of int = {}` -/
def exT : Table := [
  ⟨[115], [110, 97, 109, 101], .atom .str, .atom (.str [100]), [[45, 45, 110, 97, 109, 101]], []⟩,
  ⟨[115], [110], .atom .int, .atom (.int 2), [[45, 45, 110]], []⟩,
  ⟨[115], [102, 108, 97, 103], .atom .bool, .atom (.bool true), [[45, 45, 102, 108, 97, 103]], [[45, 45, 110, 111, 45, 102, 108, 97, 103]]⟩,
  ⟨[115], [105, 116, 101, 109, 115], .list, .list [], [[45, 45, 105, 116, 101, 109, 115]], []⟩,
  ⟨[115], [109, 97, 112], .dict .int false, .dict [], [[45, 45, 109, 97, 112]], []⟩]

/-- file 1: `[s] n = 5`, `flag = no`, `items = a b`, `k = 7` (unknown key) -/
def exF1 : File := [([115], [([110], [53]), ([102, 108, 97, 103], [110, 111]), ([105, 116, 101, 109, 115], [97, 32, 98]), ([107], [55])])]
/-- file 2: `[s] n = 9`, `items = c` -/
def exF2 : File := [([115], [([110], [57]), ([105, 116, 101, 109, 115], [99])])]

def obs (r : Except Err St) (n : Nat) : Option (List Val) := r.toOption.map fun st => (List.range n).map st

/-! ## the layering theorem -/

/-- **Refinement.**  For every well-formed table, every list of files, every command line and every option:
    whenever the code's layering (`read` then `updateFromDict`, with their global loops, unknown-key routing and
    per-class conversions) finishes, the option holds exactly the value the property prescribes. -/
theorem run_refines_den (T : Table) (hwf : WF T = true) (files : List File) (argv : List Occ) (st : St)
    (h : run false T files argv = .ok st) (i : Nat) (o : Opt) (hi : T[i]? = some o) :
    den T files argv i = some (st i) := by
  simp only [WF, Bool.and_eq_true, List.all_eq_true] at hwf
  obtain ⟨hd, htd⟩ := hwf
  have hto := htd o (List.mem_of_getElem? hi)
  simp only [run, bind, Except.bind] at h
  cases hp : parseArgs T argv with
  | error e => simp [hp] at h
  | ok u =>
    simp only [hp] at h
    cases hr : Model.Config.read false T (init T) files with
    | error e => simp [hr] at h
    | ok st1 =>
      simp only [hr] at h
      have h1 := read_refines hd hi files (init T) st1 hr
      rw [optFold_mentions] at h1
      have hinit : init T i = o.dflt := by simp [init, hi]
      rw [hinit] at h1
      have hf := files_den hto h1
      have hu := updateFrom_spec T argv T 0 st1 st h i o hi
      simp only [Nat.zero_add] at hu
      have hc := cli_den (denFiles_typed hf) hu
      simp only [den, hi, mentions, bind, Option.bind]
      rw [hf]
      exact hc

/-- non-vacuity: two files and a command line over `exT`; every option class is touched -/
example : obs (run false exT [exF1, exF2] [⟨[45, 45, 102, 108, 97, 103], []⟩, ⟨[45, 45, 109, 97, 112], [[107], [49]]⟩]) 5
    = some [.atom (.str [100]), .atom (.int 9), .atom (.bool true), .list [[97], [98], [99]], .dict [([107], .int 1)]] := by
  decide
example : WF exT = true := by decide

/-! ## the clauses, read off the denotation (they hold of the code's result by `run_refines_den`) -/

/-- **Every option has its default** when no file line mentions it and no flag of it is on the command line. -/
theorem default_when_untouched (T : Table) (hwf : WF T = true) (files : List File) (argv : List Occ) (i : Nat) (o : Opt)
    (hi : T[i]? = some o) (hfiles : mentions T i o files = []) (hcli : cliOccs o argv = []) :
    den T files argv i = some o.dflt := by
  simp only [WF, Bool.and_eq_true, List.all_eq_true] at hwf
  have hto := hwf.2 o (List.mem_of_getElem? hi)
  simp only [den, hi, hfiles, hcli, bind, Option.bind]
  unfold denFiles
  cases hty : o.ty with
  | atom t => cases t <;> simp [denCli, hty]
  | list =>
    cases hd : o.dflt with
    | list xs => simp [denCli, hty]
    | atom a => simp [typedDflt, hty, hd] at hto
    | dict k => simp [typedDflt, hty, hd] at hto
  | dict t l =>
    cases hd : o.dflt with
    | dict k => simp [denCli, hty]
    | atom a => simp [typedDflt, hty, hd] at hto
    | list xs => simp [typedDflt, hty, hd] at hto

/-- … and the code yields it: the model's result for an untouched option is its default. -/
theorem default_when_untouched_model (T : Table) (hwf : WF T = true) (files : List File) (argv : List Occ) (st : St)
    (h : run false T files argv = .ok st) (i : Nat) (o : Opt) (hi : T[i]? = some o)
    (hfiles : mentions T i o files = []) (hcli : cliOccs o argv = []) : st i = o.dflt := by
  have h1 := run_refines_den T hwf files argv st h i o hi
  rw [default_when_untouched T hwf files argv i o hi hfiles hcli] at h1
  exact (Option.some.inj h1).symm

example : mentions exT 0 exT[0] [exF1, exF2] = [] ∧ cliOccs exT[0] [⟨[45, 45, 110], [[49]]⟩] = [] := by decide

/-- **A value given in a file replaces the default of a scalar option** (string, integer, float, boolean), converted
    according to the option's type; with several files it is the *last* line that mentions the option. -/
theorem file_replaces_scalar (T : Table) (files : List File) (argv : List Occ) (i : Nat) (o : Opt) (t : ATy)
    (hi : T[i]? = some o) (hty : o.ty = .atom t) (m : Mention)
    (hlast : (mentions T i o files).getLast? = some m) (hcli : cliOccs o argv = []) :
    den T files argv i = (specAtom t (mentionStr m)).map .atom := by
  simp only [den, hi, hcli, bind, Option.bind, denFiles, hty, hlast]
  cases specAtom t (mentionStr m) with
  | none => rfl
  | some a => cases t <;> simp [denCli, hty]

example : (mentions exT 1 exT[1] [exF1, exF2]).getLast? = some (.direct [57]) ∧ specAtom .int [57] = some (.int 9) := by decide

theorem mentions_append (T : Table) (i : Nat) (o : Opt) (fs gs : List File) :
    mentions T i o (fs ++ gs) = mentions T i o fs ++ mentions T i o gs := by
  simp [mentions, flat, List.filterMap_append]

/-- **A later file overrides an earlier one** (scalars): if the last file mentions the option, the earlier files are irrelevant. -/
theorem later_file_wins (T : Table) (fs : List File) (f : File) (argv : List Occ) (i : Nat) (o : Opt) (t : ATy)
    (hi : T[i]? = some o) (hty : o.ty = .atom t) (hf : mentions T i o [f] ≠ []) :
    den T (fs ++ [f]) argv i = den T [f] argv i := by
  have hl : (mentions T i o (fs ++ [f])).getLast? = (mentions T i o [f]).getLast? := by
    rw [mentions_append, List.getLast?_append]
    cases hm : (mentions T i o [f]).getLast? with
    | none => exact absurd (List.getLast?_eq_none_iff.mp hm) hf
    | some m => rfl
  simp only [den, hi, bind, Option.bind, denFiles, hty, hl]

example : mentions exT 1 exT[1] [exF2] ≠ [] := by decide

/-- **A value given in a file extends a list option**: the result is the default followed by the words of every
    line that mentions the option, files in order. -/
theorem file_extends_list (T : Table) (files : List File) (argv : List Occ) (i : Nat) (o : Opt) (xs : List Str)
    (hi : T[i]? = some o) (hty : o.ty = .list) (hd : o.dflt = .list xs) (hcli : cliOccs o argv = []) :
    den T files argv i = some (.list (xs ++ ((mentions T i o files).map fun m => shlexSplit (mentionStr m)).flatten)) := by
  simp [den, hi, hcli, bind, Option.bind, denFiles, hty, hd, denCli]

/-- … incrementally: one more file appends its words to what the earlier files gave. -/
theorem later_file_extends_list (T : Table) (fs : List File) (f : File) (i : Nat) (o : Opt) (xs : List Str)
    (hi : T[i]? = some o) (hty : o.ty = .list) (hd : o.dflt = .list xs) :
    ∃ ys, den T fs [] i = some (.list ys) ∧
      den T (fs ++ [f]) [] i = some (.list (ys ++ ((mentions T i o [f]).map fun m => shlexSplit (mentionStr m)).flatten)) := by
  refine ⟨_, file_extends_list T fs [] i o xs hi hty hd (by simp [cliOccs]), ?_⟩
  rw [file_extends_list T (fs ++ [f]) [] i o xs hi hty hd (by simp [cliOccs]), mentions_append]
  simp [List.append_assoc]

example : den exT [exF1, exF2] [] 3 = some (.list [[97], [98], [99]]) := by decide

/-- **A value given in a file extends a dictionary option**, entry by entry (`name = k=v, k=v` lines and lines with an
    unknown key, which are routed to the section's first dictionary option); a later file continues from the
    dictionary the earlier files produced, so it overrides per key. -/
theorem file_extends_dict (T : Table) (fs gs : List File) (i : Nat) (o : Opt) (t : ATy) (l : Bool) (kvs : List (Str × Atom))
    (hi : T[i]? = some o) (hty : o.ty = .dict t l) (hd : o.dflt = .dict kvs) :
    den T (fs ++ gs) [] i =
      (((mentions T i o fs).foldlM (dictMention t) kvs).bind fun mid =>
        ((mentions T i o gs).foldlM (dictMention t) mid).map .dict) := by
  simp only [den, hi, bind, Option.bind, denFiles, hty, hd, mentions_append, List.foldlM_append, cliOccs,
    List.filter_nil]
  cases (mentions T i o fs).foldlM (dictMention t) kvs with
  | none => rfl
  | some mid =>
    cases hg : (mentions T i o gs).foldlM (dictMention t) mid with
    | none => simp [hg]
    | some r => simp [hg, denCli, hty]

example : den exT [exF1] [] 4 = some (.dict [([107], .int 7)]) := by decide

/-- **A command-line option overrides files** (scalars): when a flag of the option occurs, files are irrelevant
    (as long as their lines are in the domain). -/
theorem cli_overrides_files (T : Table) (files : List File) (argv : List Occ) (i : Nat) (o : Opt) (t : ATy)
    (hi : T[i]? = some o) (hty : o.ty = .atom t) (hcli : cliOccs o argv ≠ [])
    (hdom : (denFiles o (mentions T i o files)).isSome) :
    den T files argv i = den T [] argv i := by
  obtain ⟨a, ha⟩ : ∃ a, (cliOccs o argv).getLast? = some a := by
    cases h : (cliOccs o argv).getLast? with
    | none => exact absurd (List.getLast?_eq_none_iff.mp h) hcli
    | some a => exact ⟨a, rfl⟩
  obtain ⟨v, hv⟩ := Option.isSome_iff_exists.mp hdom
  have h0 : denFiles o (mentions T i o []) = some o.dflt := by simp [mentions, flat, denFiles, hty]
  simp only [den, hi, bind, Option.bind, hv, h0]
  cases t <;> simp [denCli, hty, ha]

/-- the command line extends lists after the files -/
theorem cli_extends_list (T : Table) (files : List File) (argv : List Occ) (i : Nat) (o : Opt) (xs : List Str)
    (hi : T[i]? = some o) (hty : o.ty = .list) (hd : o.dflt = .list xs) :
    den T files argv i = some (.list (xs ++ ((mentions T i o files).map fun m => shlexSplit (mentionStr m)).flatten
      ++ ((cliOccs o argv).map (·.args)).flatten)) := by
  simp [den, hi, bind, Option.bind, denFiles, hty, hd, denCli]

example : den exT [exF1] [⟨[45, 45, 110], [[49]]⟩] 1 = some (.atom (.int 1)) := by decide

/-! ## booleans -/

/-- **Booleans in files**: `BooleanOption.setFromString` (after the D3 repair) accepts exactly the words
    yes/true/on/1 (True) and no/false/off/0 (False), in any letter case, and raises on everything else. -/
theorem bool_words (s : Str) : (boolFromString s).toOption = specBool s := bool_conv s

theorem bool_words_table : ∀ p ∈ boolWords, boolFromString p.1 = .ok p.2 := by decide

/-- `No`, ` OFF ` -/
example : boolFromString [78, 111] = .ok false ∧ boolFromString [32, 79, 70, 70, 32] = .ok false := by decide

/-- The pinned code (D3): `bool(string)` makes every non-empty word True — kernel-checked witness `no`. -/
theorem asIs_counterexample :
    setFromString true (.atom .bool) (.atom (.bool true)) sNo = .ok (.atom (.bool true)) ∧
    specAtom .bool sNo = some (.bool false) := by decide

/-- and on a whole layering: `[s] flag = no` leaves `flag` True in the as-is model, False in the repaired one -/
example : obs (run true exT [exF1] []) 4 = some [.atom (.str [100]), .atom (.int 5), .atom (.bool true), .list [[97], [98]]] ∧
          obs (run false exT [exF1] []) 4 = some [.atom (.str [100]), .atom (.int 5), .atom (.bool false), .list [[97], [98]]] := by
  decide

/-- **Paired flags**: the last occurrence of any flag of a boolean option decides; a `--x` flag gives True, its
    `!`-paired `--no-x` flag gives False (when the two names differ), whatever the files said. -/
theorem bool_flag_pair (o : Opt) (cur : Val) (argv : List Occ) (a : Occ) (hty : o.ty = .atom .bool)
    (hlast : (cliOccs o argv).getLast? = some a) :
    updateOpt o cur argv = .ok (.atom (.bool (o.flags.contains a.flag))) := by
  simp [updateOpt, hty, occsOf_eq, hlast, pure, Except.pure]

theorem bool_flag_absent (o : Opt) (cur : Val) (argv : List Occ) (hty : o.ty = .atom .bool) (hno : cliOccs o argv = []) :
    updateOpt o cur argv = .ok cur := by
  simp [updateOpt, hty, occsOf_eq, hno, pure, Except.pure]

/-- `--flag --no-flag` → False ; `--no-flag --flag` → True -/
example : updateOpt exT[2] (.atom (.bool true)) [⟨[45, 45, 102, 108, 97, 103], []⟩, ⟨[45, 45, 110, 111, 45, 102, 108, 97, 103], []⟩]
      = .ok (.atom (.bool false)) ∧
    updateOpt exT[2] (.atom (.bool false)) [⟨[45, 45, 110, 111, 45, 102, 108, 97, 103], []⟩, ⟨[45, 45, 102, 108, 97, 103], []⟩]
      = .ok (.atom (.bool true)) := by decide

/-! ## reading back -/

/-- **Interpolation**: for every format string of the grammar (literal text without `%`, `%%`, `%(name)s` in any
    order and number) `string % wrapper` is the concatenation of the literal text, a `%` for each `%%`, and the
    looked-up value for each reference; it fails exactly when a lookup fails. -/
theorem interp_substitutes (look : Str → Except Err Str) (segs : List Seg) (hwf : ∀ s ∈ segs, s.wf = true) :
    (interp look (render segs)).toOption = segsDen (fun n => (look n).toOption) segs :=
  interp_render look segs hwf

/-- `a%%b%(k)s` with `k ↦ "V"` reads `a%bV` -/
example : interp (fun n => if n = [107] then .ok [86] else .error .keyError)
    (render [.lit [97], .pct, .lit [98], .ref [107]]) = .ok [97, 37, 98, 86] := by decide

/-- `%%` reads back as a literal percent sign -/
theorem interp_percent (look : Str → Except Err Str) : interp look [37, 37] = .ok [37] := by
  simp [interp, scan, Functor.map, Except.map, pure, Except.pure]

/-- text without `%` reads back unchanged (for every option, with any fuel ≥ 1: no recursion is needed) -/
theorem interp_no_percent (T : Table) (st : St) (f i : Nat) (s : Str) (hs : s.contains 37 = false)
    (hv : st i = .atom (.str s)) : getItem T st (f + 1) i = .ok (.atom (.str s)) := by
  have := scan_lit (fun name => lookupWith (getItem T st f) (candidates T name)) s hs []
  simp only [List.append_nil, scan, pure, Except.pure, Functor.map, Except.map] at this
  simp [getItem, hv, interp, this, Functor.map, Except.map]

/-- what a reference denotes: the value of the first option (sections in order) whose key is `name` and whose own
    read-back does not raise `KeyError`, as `str()` prints it -/
theorem interp_ref_value (get : Nat → Except Err Val) (j : Nat) (js : List Nat) (v : Val) (h : get j = .ok v) :
    lookupWith get (j :: js) = .ok (valStr v) := by
  simp [lookupWith, h, pure, Except.pure]

/-- non-string, non-list values are returned as they are (dictionaries are not interpolated) -/
theorem readBack_other (T : Table) (st : St) (f i : Nat) (kvs : List (Str × Atom)) (hv : st i = .dict kvs) :
    getItem T st (f + 1) i = .ok (.dict kvs) := by
  simp [getItem, hv, pure, Except.pure]

/-- **Reading back a string option**: if the option holds a format string of the grammar, `config[section][key]` is its
    denotation where each name means: the first option with that key (sections in order) that reads back without
    `KeyError`, printed by `str()`. -/
theorem readBack_format (T : Table) (st : St) (f i : Nat) (segs : List Seg) (hwf : ∀ s ∈ segs, s.wf = true)
    (hv : st i = .atom (.str (render segs))) :
    (getItem T st (f + 1) i).toOption =
      (segsDen (fun n => (lookupWith (getItem T st f) (candidates T n)).toOption) segs).map fun r => .atom (.str r) := by
  rw [← interp_render _ segs hwf]
  simp only [getItem, hv, Functor.map, Except.map]
  cases interp (fun name => lookupWith (getItem T st f) (candidates T name)) (render segs) <;> rfl

/-- a table with a reference chain: `a = "x%(b)s"`, `b = "%(c)s%%"`, `c = 7` -/
def exR : Table := [
  ⟨[115], [97], .atom .str, .atom (.str (render [.lit [120], .ref [98]])), [[45, 45, 97]], []⟩,
  ⟨[115], [98], .atom .str, .atom (.str (render [.ref [99], .pct])), [[45, 45, 98]], []⟩,
  ⟨[115], [99], .atom .int, .atom (.int 7), [[45, 45, 99]], []⟩]

/-- `a` reads back as `x7%` -/
example : readBack exR (init exR) 0 = .ok (.atom (.str [120, 55, 37])) := by decide
/-- a cycle `a = "%(a)s"` ends in `RecursionError` (as Python's recursion limit does) -/
example : readBack [⟨[115], [97], .atom .str, .atom (.str [37, 40, 97, 41, 115]), [], []⟩]
    (init [⟨[115], [97], .atom .str, .atom (.str [37, 40, 97, 41, 115]), [], []⟩]) 0 = .error .recursionError := by decide

/-- **Interpolation terminates on acyclic references**: if every string an option holds (also every item of a list
    option) is a format string of the grammar whose references only name options of strictly lower rank, reading back
    never ends in `RecursionError` — the fuel `|T| + 1` of the model is never exhausted. -/
theorem interp_terminates_acyclic (T : Table) (st : St) (rank : Nat → Nat) (hr : Ranked T st rank)
    (hb : ∀ i, rank i ≤ T.length) (i : Nat) : readBack T st i ≠ .error .recursionError :=
  getItem_no_recursion T st rank hr (fuelFor T) i (by have := hb i; simp only [fuelFor]; omega)

/-! ## the live option table (regenerated from `defaultConfig()` + `collect_renderer_config` on every run) -/

/-- the live table is well-formed: distinct section/key pairs, list/dict options start from a list/dict -/
theorem table_wf : WF PlasVerif.Generated.Config.table = true := by decide

/-- every default has the type of its option class -/
def strictTyped (o : Opt) : Bool :=
  match o.ty, o.dflt with
  | .atom .str, .atom (.str _) => true
  | .atom .int, .atom (.int _) => true
  | .atom .flt, .atom (.flt _ _) => true
  | .atom .bool, .atom (.bool _) => true
  | .list, .list _ => true
  | .dict _ _, .dict _ => true
  | _, _ => false

theorem table_defaults_typed : PlasVerif.Generated.Config.table.all strictTyped = true := by decide

/-- no option string is registered twice (argparse would refuse; makes `occurrences of a flag` unambiguous) -/
def flagsDistinct (T : Table) : Bool :=
  let fl := T.flatMap fun o => o.flags ++ o.noflags
  fl.Nodup

theorem table_flags_distinct : flagsDistinct PlasVerif.Generated.Config.table = true := by decide

/-! ## the code does not raise inside the domain -/

/-- Full statement (not proved): on a well-formed table with unambiguous option strings, if every file value and
    every command-line occurrence is in the spec's domain and the denotation of every option is defined, the
    layering finishes (so, by `run_refines_den`, with exactly the prescribed values). -/
def run_defined_on_domain_statement : Prop :=
  ∀ (T : Table) (files : List File) (argv : List Occ), WF T = true → flagsDistinct T = true →
    inDomain T files argv = true → (∀ i o, T[i]? = some o → (den T files argv i).isSome) →
    ∃ st, run false T files argv = .ok st

/-- Proved part: the command line is accepted (`parse_args` does not exit) whenever every occurrence is a registered
    option string with arguments of the option's arity and type.  Missing: that `read` and `updateFromDict` do not
    raise inside the domain (the converses of `files_den` / `cli_den` along the global loops); this direction is
    carried by the correspondence streams (on every generated in-domain layering the real code returns the values
    of the spec and raises nothing). -/
theorem run_defined_on_domain_partial (T : Table) (argv : List Occ) (h : argv.all (occWf T) = true) :
    parseArgs T argv = .ok () := PlasVerif.Proofs.ConfigDomain.parseArgs_ok T argv h

example : [(⟨[45, 45, 110], [[49]]⟩ : Occ), ⟨[45, 45, 110, 111, 45, 102, 108, 97, 103], []⟩].all (occWf exT) = true := by decide

/-- hence the layering theorem applies to the live table -/
theorem live_table_layering (files : List File) (argv : List Occ) (st : St)
    (h : run false PlasVerif.Generated.Config.table files argv = .ok st) (i : Nat) (o : Opt)
    (hi : PlasVerif.Generated.Config.table[i]? = some o) :
    den PlasVerif.Generated.Config.table files argv i = some (st i) :=
  run_refines_den _ table_wf files argv st h i o hi

end PlasVerif.Properties.C16
