import PlasVerif.Proofs.Config
import PlasVerif.Proofs.ConfigInterp
import PlasVerif.Proofs.ConfigAcyclic
import PlasVerif.Proofs.ConfigDomain
import PlasVerif.Proofs.ConfigTotal
import PlasVerif.Proofs.ConfigDest
import PlasVerif.Proofs.ConfigHist
import PlasVerif.Proofs.ConfigHistTotal
import PlasVerif.Proofs.ConfigMain
import PlasVerif.Proofs.ConfigRouting
import PlasVerif.Proofs.ConfigReadBack
import PlasVerif.Proofs.ConfigBuiltins
import PlasVerif.Proofs.ConfigFloat
import PlasVerif.Generated.Config
/-!
# C16 — Configuration values come from defaults, files and command line in that order

Property theorems only; helper lemmas are in `Proofs/Config.lean` and `Proofs/ConfigInterp.lean`.
`run false T files argv` is the model of `client.main` (defaults → `read(files)` → `updateFromDict`),
for an arbitrary option table `T`, any number of files with any lines, any command line.
`den T files argv i` is what the property prescribes for option `i` (`Spec/Config.lean`).
-/
namespace PlasVerif.Properties.C16
open PlasVerif.Model.Config PlasVerif.Spec.Config PlasVerif.Proofs.Config PlasVerif.Proofs.ConfigInterp
  PlasVerif.Proofs.ConfigAcyclic PlasVerif.Proofs.ConfigDest PlasVerif.Proofs.ConfigHist

/-! ## a small table for the non-vacuity examples: `[s] name : str = "d"`, `[s] n : int = 2`, `[s] flag : bool = True
(--flag / !--no-flag)`, `[s] items : list = []`, `[s] map : dict of int = {}` -/
def exT : Table := [
  ⟨[115], [110, 97, 109, 101], [115] ++ [110, 97, 109, 101], .atom .str, .atom (.str [100]), [[45, 45, 110, 97, 109, 101]], []⟩,
  ⟨[115], [110], [115] ++ [110], .atom .int, .atom (.int 2), [[45, 45, 110]], []⟩,
  ⟨[115], [102, 108, 97, 103], [115] ++ [102, 108, 97, 103], .atom .bool, .atom (.bool true), [[45, 45, 102, 108, 97, 103]], [[45, 45, 110, 111, 45, 102, 108, 97, 103]]⟩,
  ⟨[115], [105, 116, 101, 109, 115], [115] ++ [105, 116, 101, 109, 115], .list, .list [], [[45, 45, 105, 116, 101, 109, 115]], []⟩,
  ⟨[115], [109, 97, 112], [115] ++ [109, 97, 112], .dict .int false, .dict [], [[45, 45, 109, 97, 112]], []⟩]

/-- file 1: `[s] n = 5`, `flag = no`, `items = a b`, `k = 7` (unknown key) -/
def exF1 : File := [([115], [([110], [53]), ([102, 108, 97, 103], [110, 111]), ([105, 116, 101, 109, 115], [97, 32, 98]), ([107], [55])])]
/-- file 2: `[s] n = 9`, `items = c` -/
def exF2 : File := [([115], [([110], [57]), ([105, 116, 101, 109, 115], [99])])]

def obs (r : Except Err St) (n : Nat) : Option (List Val) := r.toOption.map fun st => (List.range n).map st

/-! ## the layering theorem -/

/-- **Refinement.**  For every well-formed table, every list of files, every command line and every option:
    whenever the code's layering (`read` then `updateFromDict`, with their global loops, unknown-key routing and
    per-class conversions) finishes, the option holds exactly the value the property prescribes. -/
theorem run_refines_den (T : Table) (hwf : WF T = true) (hwc : WFcli T = true) (files : List File) (argv : List Occ) (st : St)
    (h : run false T files argv = .ok st) (i : Nat) (o : Opt) (hi : T[i]? = some o) :
    den T files argv i = some (st i) := by
  simp only [WF, Bool.and_eq_true, List.all_eq_true] at hwf
  obtain ⟨hd, htd⟩ := hwf
  have hto := htd o (List.mem_of_getElem? hi)
  simp only [run, bind, Except.bind] at h
  cases hp : parseArgs T argv with
  | error e => simp [hp] at h
  | ok u =>
    simp only [hp] at h
    cases hr : Model.Config.read false T (init T) files with
    | error e => simp [hr] at h
    | ok st1 =>
      simp only [hr] at h
      have h1 := read_refines hd hi files (init T) st1 hr
      rw [optFold_mentions] at h1
      have hinit : init T i = o.dflt := by simp [init, hi]
      rw [hinit] at h1
      have hf := files_den hto h1
      have hu := updateFrom_spec T argv T 0 st1 st h i o hi
      simp only [Nat.zero_add] at hu
      rw [updateOptD_eq hwc hi argv hp _ (denFiles_typed hf)] at hu
      have hc := cli_den (denFiles_typed hf) hu
      simp only [den, hi, mentions, bind, Option.bind]
      rw [hf]
      exact hc

/-- non-vacuity: two files and a command line over `exT`; every option class is touched -/
example : obs (run false exT [exF1, exF2] [⟨[45, 45, 102, 108, 97, 103], []⟩, ⟨[45, 45, 109, 97, 112], [[107], [49]]⟩]) 5
    = some [.atom (.str [100]), .atom (.int 9), .atom (.bool true), .list [[97], [98], [99]], .dict [([107], .int 1)]] := by
  decide
example : WF exT = true ∧ WFcli exT = true := by decide

/-! ## the clauses, read off the denotation (they hold of the code's result by `run_refines_den`) -/

/-- **Every option has its default** when no file line mentions it and no flag of it is on the command line. -/
theorem default_when_untouched (T : Table) (hwf : WF T = true) (files : List File) (argv : List Occ) (i : Nat) (o : Opt)
    (hi : T[i]? = some o) (hfiles : mentions T i o files = []) (hcli : cliOccs o argv = []) :
    den T files argv i = some o.dflt := by
  simp only [WF, Bool.and_eq_true, List.all_eq_true] at hwf
  have hto := hwf.2 o (List.mem_of_getElem? hi)
  simp only [den, hi, hfiles, hcli, bind, Option.bind]
  unfold denFiles
  cases hty : o.ty with
  | atom t => cases t <;> simp [denCli, hty]
  | list =>
    cases hd : o.dflt with
    | list xs => simp [denCli, hty]
    | atom a => simp [typedDflt, hty, hd] at hto
    | dict k => simp [typedDflt, hty, hd] at hto
  | dict t l =>
    cases hd : o.dflt with
    | dict k => simp [denCli, hty]
    | atom a => simp [typedDflt, hty, hd] at hto
    | list xs => simp [typedDflt, hty, hd] at hto

/-- … and the code yields it: the model's result for an untouched option is its default. -/
theorem default_when_untouched_model (T : Table) (hwf : WF T = true) (hwc : WFcli T = true) (files : List File) (argv : List Occ) (st : St)
    (h : run false T files argv = .ok st) (i : Nat) (o : Opt) (hi : T[i]? = some o)
    (hfiles : mentions T i o files = []) (hcli : cliOccs o argv = []) : st i = o.dflt := by
  have h1 := run_refines_den T hwf hwc files argv st h i o hi
  rw [default_when_untouched T hwf files argv i o hi hfiles hcli] at h1
  exact (Option.some.inj h1).symm

example : mentions exT 0 exT[0] [exF1, exF2] = [] ∧ cliOccs exT[0] [⟨[45, 45, 110], [[49]]⟩] = [] := by decide

/-- **A value given in a file replaces the default of a scalar option** (string, integer, float, boolean), converted
    according to the option's type; with several files it is the *last* line that mentions the option. -/
theorem file_replaces_scalar (T : Table) (files : List File) (argv : List Occ) (i : Nat) (o : Opt) (t : ATy)
    (hi : T[i]? = some o) (hty : o.ty = .atom t) (m : Mention)
    (hlast : (mentions T i o files).getLast? = some m) (hcli : cliOccs o argv = []) :
    den T files argv i = (specAtom t (mentionStr m)).map .atom := by
  simp only [den, hi, hcli, bind, Option.bind, denFiles, hty, hlast]
  cases specAtom t (mentionStr m) with
  | none => rfl
  | some a => cases t <;> simp [denCli, hty]

example : (mentions exT 1 exT[1] [exF1, exF2]).getLast? = some (.direct [57]) ∧ specAtom .int [57] = some (.int 9) := by decide

theorem mentions_append (T : Table) (i : Nat) (o : Opt) (fs gs : List File) :
    mentions T i o (fs ++ gs) = mentions T i o fs ++ mentions T i o gs := by
  simp [mentions, flat, List.filterMap_append]

/-- **A later file overrides an earlier one** (scalars): if the last file mentions the option, the earlier files are irrelevant. -/
theorem later_file_wins (T : Table) (fs : List File) (f : File) (argv : List Occ) (i : Nat) (o : Opt) (t : ATy)
    (hi : T[i]? = some o) (hty : o.ty = .atom t) (hf : mentions T i o [f] ≠ []) :
    den T (fs ++ [f]) argv i = den T [f] argv i := by
  have hl : (mentions T i o (fs ++ [f])).getLast? = (mentions T i o [f]).getLast? := by
    rw [mentions_append, List.getLast?_append]
    cases hm : (mentions T i o [f]).getLast? with
    | none => exact absurd (List.getLast?_eq_none_iff.mp hm) hf
    | some m => rfl
  simp only [den, hi, bind, Option.bind, denFiles, hty, hl]

example : mentions exT 1 exT[1] [exF2] ≠ [] := by decide

/-- **A value given in a file extends a list option**: the result is the default followed by the words of every
    line that mentions the option, files in order. -/
theorem file_extends_list (T : Table) (files : List File) (argv : List Occ) (i : Nat) (o : Opt) (xs : List Str)
    (hi : T[i]? = some o) (hty : o.ty = .list) (hd : o.dflt = .list xs) (hcli : cliOccs o argv = []) :
    den T files argv i = some (.list (xs ++ ((mentions T i o files).map fun m => shlexSplit (mentionStr m)).flatten)) := by
  simp [den, hi, hcli, bind, Option.bind, denFiles, hty, hd, denCli]

/-- … incrementally: one more file appends its words to what the earlier files gave. -/
theorem later_file_extends_list (T : Table) (fs : List File) (f : File) (i : Nat) (o : Opt) (xs : List Str)
    (hi : T[i]? = some o) (hty : o.ty = .list) (hd : o.dflt = .list xs) :
    ∃ ys, den T fs [] i = some (.list ys) ∧
      den T (fs ++ [f]) [] i = some (.list (ys ++ ((mentions T i o [f]).map fun m => shlexSplit (mentionStr m)).flatten)) := by
  refine ⟨_, file_extends_list T fs [] i o xs hi hty hd (by simp [cliOccs]), ?_⟩
  rw [file_extends_list T (fs ++ [f]) [] i o xs hi hty hd (by simp [cliOccs]), mentions_append]
  simp [List.append_assoc]

example : den exT [exF1, exF2] [] 3 = some (.list [[97], [98], [99]]) := by decide

/-- **A value given in a file extends a dictionary option**, entry by entry (`name = k=v, k=v` lines and lines with an
    unknown key, which are routed to the section's first dictionary option); a later file continues from the
    dictionary the earlier files produced, so it overrides per key. -/
theorem file_extends_dict (T : Table) (fs gs : List File) (i : Nat) (o : Opt) (t : ATy) (l : Bool) (kvs : List (Str × Atom))
    (hi : T[i]? = some o) (hty : o.ty = .dict t l) (hd : o.dflt = .dict kvs) :
    den T (fs ++ gs) [] i =
      (((mentions T i o fs).foldlM (dictMention t) kvs).bind fun mid =>
        ((mentions T i o gs).foldlM (dictMention t) mid).map .dict) := by
  simp only [den, hi, bind, Option.bind, denFiles, hty, hd, mentions_append, List.foldlM_append, cliOccs,
    List.filter_nil]
  cases (mentions T i o fs).foldlM (dictMention t) kvs with
  | none => rfl
  | some mid =>
    cases hg : (mentions T i o gs).foldlM (dictMention t) mid with
    | none => simp [hg]
    | some r => simp [hg, denCli, hty]

example : den exT [exF1] [] 4 = some (.dict [([107], .int 7)]) := by decide

/-- **A command-line option overrides files** (scalars): when a flag of the option occurs, files are irrelevant
    (as long as their lines are in the domain). -/
theorem cli_overrides_files (T : Table) (files : List File) (argv : List Occ) (i : Nat) (o : Opt) (t : ATy)
    (hi : T[i]? = some o) (hty : o.ty = .atom t) (hcli : cliOccs o argv ≠ [])
    (hdom : (denFiles o (mentions T i o files)).isSome) :
    den T files argv i = den T [] argv i := by
  obtain ⟨a, ha⟩ : ∃ a, (cliOccs o argv).getLast? = some a := by
    cases h : (cliOccs o argv).getLast? with
    | none => exact absurd (List.getLast?_eq_none_iff.mp h) hcli
    | some a => exact ⟨a, rfl⟩
  obtain ⟨v, hv⟩ := Option.isSome_iff_exists.mp hdom
  have h0 : denFiles o (mentions T i o []) = some o.dflt := by simp [mentions, flat, denFiles, hty]
  simp only [den, hi, bind, Option.bind, hv, h0]
  cases t <;> simp [denCli, hty, ha]

/-- the command line extends lists after the files -/
theorem cli_extends_list (T : Table) (files : List File) (argv : List Occ) (i : Nat) (o : Opt) (xs : List Str)
    (hi : T[i]? = some o) (hty : o.ty = .list) (hd : o.dflt = .list xs) :
    den T files argv i = some (.list (xs ++ ((mentions T i o files).map fun m => shlexSplit (mentionStr m)).flatten
      ++ ((cliOccs o argv).map (·.args)).flatten)) := by
  simp [den, hi, bind, Option.bind, denFiles, hty, hd, denCli]

example : den exT [exF1] [⟨[45, 45, 110], [[49]]⟩] 1 = some (.atom (.int 1)) := by decide

/-! ## booleans -/

/-- **Booleans in files**: `BooleanOption.setFromString` (after the D3 repair) accepts exactly the words
    yes/true/on/1 (True) and no/false/off/0 (False), in any letter case, and raises on everything else. -/
theorem bool_words (s : Str) : (boolFromString s).toOption = specBool s := bool_conv s

theorem bool_words_table : ∀ p ∈ boolWords, boolFromString p.1 = .ok p.2 := by decide

/-- `No`, ` OFF ` -/
example : boolFromString [78, 111] = .ok false ∧ boolFromString [32, 79, 70, 70, 32] = .ok false := by decide

/-- The pinned code (D3): `bool(string)` makes every non-empty word True — kernel-checked witness `no`. -/
theorem asIs_counterexample :
    setFromString true (.atom .bool) (.atom (.bool true)) sNo = .ok (.atom (.bool true)) ∧
    specAtom .bool sNo = some (.bool false) := by decide

/-- and on a whole layering: `[s] flag = no` leaves `flag` True in the as-is model, False in the repaired one -/
example : obs (run true exT [exF1] []) 4 = some [.atom (.str [100]), .atom (.int 5), .atom (.bool true), .list [[97], [98]]] ∧
          obs (run false exT [exF1] []) 4 = some [.atom (.str [100]), .atom (.int 5), .atom (.bool false), .list [[97], [98]]] := by
  decide

/-- **Paired flags**: the last occurrence of any flag of a boolean option decides; a `--x` flag gives True, its
    `!`-paired `--no-x` flag gives False (when the two names differ), whatever the files said. -/
theorem bool_flag_pair (o : Opt) (cur : Val) (argv : List Occ) (a : Occ) (hty : o.ty = .atom .bool)
    (hlast : (cliOccs o argv).getLast? = some a) :
    updateOpt o cur argv = .ok (.atom (.bool (o.flags.contains a.flag))) := by
  simp [updateOpt, hty, occsOf_eq, hlast, pure, Except.pure]

theorem bool_flag_absent (o : Opt) (cur : Val) (argv : List Occ) (hty : o.ty = .atom .bool) (hno : cliOccs o argv = []) :
    updateOpt o cur argv = .ok cur := by
  simp [updateOpt, hty, occsOf_eq, hno, pure, Except.pure]

/-- `--flag --no-flag` → False ; `--no-flag --flag` → True -/
example : updateOpt exT[2] (.atom (.bool true)) [⟨[45, 45, 102, 108, 97, 103], []⟩, ⟨[45, 45, 110, 111, 45, 102, 108, 97, 103], []⟩]
      = .ok (.atom (.bool false)) ∧
    updateOpt exT[2] (.atom (.bool false)) [⟨[45, 45, 110, 111, 45, 102, 108, 97, 103], []⟩, ⟨[45, 45, 102, 108, 97, 103], []⟩]
      = .ok (.atom (.bool true)) := by decide

/-! ## the argparse namespace is keyed by `dest` -/

/-- **Every option reads back its own occurrences**: `updateFromDict` of an option, as written (`data.get(self.name)`,
    where the slot `self.name` collects every occurrence of every option string registered with that `dest`), is the
    reading of the option's own occurrences, on every table whose dests and option strings are pairwise distinct. -/
theorem updateFromDict_reads_own_occurrences (T : Table) (hwc : WFcli T = true) (i : Nat) (o : Opt) (hi : T[i]? = some o)
    (argv : List Occ) (hp : parseArgs T argv = .ok ()) (cur : Val) (ht : typedVal o.ty cur = true) :
    updateOptD T o cur argv = updateOpt o cur argv := updateOptD_eq hwc hi argv hp cur ht

/-- why the hypothesis is needed: two string options `[a] u` (`--au`) and `[b] u` (`--bu`) registered with the same
    dest `u`.  `--au X` alone also changes `[b] u`, which the property (and `den`) leaves at its default. -/
def exS : Table := [
  ⟨[97], [117], [117], .atom .str, .atom (.str [100]), [[45, 45, 97, 117]], []⟩,
  ⟨[98], [117], [117], .atom .str, .atom (.str [101]), [[45, 45, 98, 117]], []⟩]
theorem shared_dest_counterexample :
    obs (run false exS [] [⟨[45, 45, 97, 117], [[88]]⟩]) 2 = some [.atom (.str [88]), .atom (.str [88])] ∧
    den exS [] [⟨[45, 45, 97, 117], [[88]]⟩] 1 = some (.atom (.str [101])) ∧ WFcli exS = false := by decide

/-! ## reading back -/

/-- **Interpolation**: for every format string of the grammar (literal text without `%`, `%%`, `%(name)s` in any
    order and number) `string % wrapper` is the concatenation of the literal text, a `%` for each `%%`, and the
    looked-up value for each reference; it fails exactly when a lookup fails. -/
theorem interp_substitutes (look : Str → Except Err Str) (segs : List Seg) (hwf : ∀ s ∈ segs, s.wf = true) :
    (interp look (render segs)).toOption = segsDen (fun n => (look n).toOption) segs :=
  interp_render look segs hwf

/-- `a%%b%(k)s` with `k ↦ "V"` reads `a%bV` -/
example : interp (fun n => if n = [107] then .ok [86] else .error .keyError)
    (render [.lit [97], .pct, .lit [98], .ref [107]]) = .ok [97, 37, 98, 86] := by decide

/-- `%%` reads back as a literal percent sign -/
theorem interp_percent (look : Str → Except Err Str) : interp look [37, 37] = .ok [37] := by
  simp [interp, scan, Functor.map, Except.map, pure, Except.pure]

/-- text without `%` reads back unchanged (for every option, with any fuel ≥ 1: no recursion is needed) -/
theorem interp_no_percent (T : Table) (st : St) (f i : Nat) (s : Str) (hs : s.contains 37 = false)
    (hv : st i = .atom (.str s)) : getItem T st (f + 1) i = .ok (.atom (.str s)) := by
  have := scan_lit (fun name => lookupWith (getItem T st f) (candidates T name)) s hs []
  simp only [List.append_nil, scan, pure, Except.pure, Functor.map, Except.map] at this
  simp [getItem, hv, interp, this, Functor.map, Except.map]

/-- what a reference denotes: the value of the first option (sections in order) whose key is `name` and whose own
    read-back does not raise `KeyError`, as `str()` prints it -/
theorem interp_ref_value (get : Nat → Except Err Val) (j : Nat) (js : List Nat) (v : Val) (h : get j = .ok v) :
    lookupWith get (j :: js) = .ok (valStr v) := by
  simp [lookupWith, h, pure, Except.pure]

/-- non-string, non-list values are returned as they are (dictionaries are not interpolated) -/
theorem readBack_other (T : Table) (st : St) (f i : Nat) (kvs : List (Str × Atom)) (hv : st i = .dict kvs) :
    getItem T st (f + 1) i = .ok (.dict kvs) := by
  simp [getItem, hv, pure, Except.pure]

/-- **Reading back a string option**: if the option holds a format string of the grammar, `config[section][key]` is its
    denotation where each name means: the first option with that key (sections in order) that reads back without
    `KeyError`, printed by `str()`. -/
theorem readBack_format (T : Table) (st : St) (f i : Nat) (segs : List Seg) (hwf : ∀ s ∈ segs, s.wf = true)
    (hv : st i = .atom (.str (render segs))) :
    (getItem T st (f + 1) i).toOption =
      (segsDen (fun n => (lookupWith (getItem T st f) (candidates T n)).toOption) segs).map fun r => .atom (.str r) := by
  rw [← interp_render _ segs hwf]
  simp only [getItem, hv, Functor.map, Except.map]
  cases interp (fun name => lookupWith (getItem T st f) (candidates T name)) (render segs) <;> rfl

/-- a table with a reference chain: `a = "x%(b)s"`, `b = "%(c)s%%"`, `c = 7` -/
def exR : Table := [
  ⟨[115], [97], [115] ++ [97], .atom .str, .atom (.str (render [.lit [120], .ref [98]])), [[45, 45, 97]], []⟩,
  ⟨[115], [98], [115] ++ [98], .atom .str, .atom (.str (render [.ref [99], .pct])), [[45, 45, 98]], []⟩,
  ⟨[115], [99], [115] ++ [99], .atom .int, .atom (.int 7), [[45, 45, 99]], []⟩]

/-- `a` reads back as `x7%` -/
example : readBack exR (init exR) 0 = .ok (.atom (.str [120, 55, 37])) := by decide
/-- a cycle `a = "%(a)s"` ends in `RecursionError` (as Python's recursion limit does) -/
example : readBack [⟨[115], [97], [115] ++ [97], .atom .str, .atom (.str [37, 40, 97, 41, 115]), [], []⟩]
    (init [⟨[115], [97], [115] ++ [97], .atom .str, .atom (.str [37, 40, 97, 41, 115]), [], []⟩]) 0 = .error .recursionError := by decide

/-- **Interpolation terminates on acyclic references**: if every string an option holds (also every item of a list
    option) is a format string of the grammar whose references only name options of strictly lower rank, reading back
    never ends in `RecursionError` — the fuel `|T| + 1` of the model is never exhausted. -/
theorem interp_terminates_acyclic (T : Table) (st : St) (rank : Nat → Nat) (hr : Ranked T st rank)
    (hb : ∀ i, rank i ≤ T.length) (i : Nat) : readBack T st i ≠ .error .recursionError :=
  getItem_no_recursion T st rank hr (fuelFor T) i (by have := hb i; simp only [fuelFor]; omega)

/-! ## the live option table (regenerated from `defaultConfig()` + `collect_renderer_config` on every run) -/

/-- the live table is well-formed: distinct section/key pairs, list/dict options start from a list/dict -/
theorem table_wf : WF PlasVerif.Generated.Config.table = true := by decide

/-- every default has the type of its option class -/
def strictTyped (o : Opt) : Bool :=
  match o.ty, o.dflt with
  | .atom .str, .atom (.str _) => true
  | .atom .int, .atom (.int _) => true
  | .atom .flt, .atom (.flt _ _) => true
  | .atom .bool, .atom (.bool _) => true
  | .list, .list _ => true
  | .dict _ _, .dict _ => true
  | _, _ => false

theorem table_defaults_typed : PlasVerif.Generated.Config.table.all strictTyped = true := by decide

/-- no option string is registered twice (argparse would refuse; makes `occurrences of a flag` unambiguous) -/
theorem table_flags_distinct : flagsDistinct PlasVerif.Generated.Config.table = true := by decide

/-- no two options of the live table share an argparse `dest` (`option.name`): every option reads back its own slot
    of the parsed command line.  (`images/base-url` and `document/base-url` share their *key*; their dests are
    `image-base-url` and `base-url`.) -/
theorem table_dests_distinct : destsDistinct PlasVerif.Generated.Config.table = true := by decide

theorem table_wfcli : WFcli PlasVerif.Generated.Config.table = true := by
  simp [WFcli, table_flags_distinct, table_dests_distinct]

/-! ## the code does not raise inside the domain -/

/-- **The code raises nothing inside the domain.**  On every table with distinct section/key pairs: if every
    command-line occurrence is a registered option string with arguments of the option's arity and type, every file
    value addressed to a scalar option converts (`inDomain`), and the denotation of every option is defined (dictionary
    entries convert, `--link` has 2 or 3 arguments), then `parse_args`, `read` (all files, all sections, all lines) and
    `updateFromDict` (all options) finish. -/
theorem run_defined_on_domain (T : Table) (hwf : WF T = true) (hwc : WFcli T = true) (files : List File) (argv : List Occ)
    (hdom : inDomain T files argv = true)
    (hden : ∀ i o, T[i]? = some o → (den T files argv i).isSome = true) :
    ∃ st, run false T files argv = .ok st :=
  PlasVerif.Proofs.ConfigTotal.run_total T hwf hwc files argv hdom hden

/-- **Layering, both directions**: inside the domain the code finishes *and* every option holds the prescribed value. -/
theorem layering_exact_on_domain (T : Table) (hwf : WF T = true) (hwc : WFcli T = true) (files : List File) (argv : List Occ)
    (hdom : inDomain T files argv = true)
    (hden : ∀ i o, T[i]? = some o → (den T files argv i).isSome = true) :
    ∃ st, run false T files argv = .ok st ∧ ∀ i o, T[i]? = some o → den T files argv i = some (st i) := by
  obtain ⟨st, h⟩ := run_defined_on_domain T hwf hwc files argv hdom hden
  exact ⟨st, h, fun i o hi => run_refines_den T hwf hwc files argv st h i o hi⟩

/-- the command-line part alone: `parse_args` accepts every in-domain command line -/
theorem parse_args_accepts_domain (T : Table) (argv : List Occ) (h : argv.all (occWf T) = true) :
    parseArgs T argv = .ok () := PlasVerif.Proofs.ConfigDomain.parseArgs_ok T argv h

/-- non-vacuity: the two example files and a command line touching a scalar, a boolean and the dictionary are in the
    domain and every denotation is defined -/
example : inDomain exT [exF1, exF2] [⟨[45, 45, 110], [[49]]⟩, ⟨[45, 45, 110, 111, 45, 102, 108, 97, 103], []⟩,
      ⟨[45, 45, 109, 97, 112], [[107], [49]]⟩] = true ∧
    (List.range 5).all (fun i => (den exT [exF1, exF2] [⟨[45, 45, 110], [[49]]⟩,
      ⟨[45, 45, 110, 111, 45, 102, 108, 97, 103], []⟩, ⟨[45, 45, 109, 97, 112], [[107], [49]]⟩] i).isSome) = true := by decide

/-! ## type-appropriate values: what is written is what is read -/

/-- an integer written the way `str()` prints it is read back as that integer (file and command line use the same conversion) -/
theorem int_written_is_read (n : Int) :
    atomFromString false .int (intStr n) = .ok (.int n) ∧ specAtom .int (intStr n) = some (.int n) := by
  simp [atomFromString, specAtom, PlasVerif.Proofs.ConfigBuiltins.parseInt_intStr, Functor.map, Except.map, Except.toOption]

/-- a float written the way `str()` prints it (decimal `m / 10^e` in normal form) is read back as that float -/
theorem float_written_is_read (m : Int) (e : Nat) (hn : e = 0 ∨ m.natAbs % 10 ≠ 0) :
    atomFromString false .flt (fltStr m e) = .ok (.flt m e) ∧ specAtom .flt (fltStr m e) = some (.flt m e) := by
  simp [atomFromString, specAtom, PlasVerif.Proofs.ConfigFloat.parseDec_fltStr m e hn, Functor.map, Except.map, Except.toOption]

/-- `-2.25` is `-225 / 10^2`, `3.0` is `3 / 10^0` -/
example : fltStr (-225) 2 = [45, 50, 46, 50, 53] ∧ fltStr 3 0 = [51, 46, 48] := by decide

/-- non-empty blank-free words written separated by one blank are read back as exactly those words -/
theorem words_written_are_read (ws : List Str) (h : ∀ w ∈ ws, w ≠ [] ∧ w.contains 32 = false) :
    shlexSplit (joinWith [32] ws) = ws := PlasVerif.Proofs.ConfigBuiltins.shlexSplit_join ws h

/-- a file that (last) says `key = <n>` for an integer option, and no flag of it on the command line: the value is `n` -/
theorem file_sets_int (T : Table) (files : List File) (argv : List Occ) (i : Nat) (o : Opt) (n : Int)
    (hi : T[i]? = some o) (hty : o.ty = .atom .int)
    (hlast : (mentions T i o files).getLast? = some (.direct (intStr n))) (hcli : cliOccs o argv = []) :
    den T files argv i = some (.atom (.int n)) := by
  rw [file_replaces_scalar T files argv i o .int hi hty _ hlast hcli]
  simp [mentionStr, (int_written_is_read n).2]

/-- … for a boolean option and any of the words yes/true/on/1/no/false/off/0: the value is the word's meaning -/
theorem file_sets_bool (T : Table) (files : List File) (argv : List Occ) (i : Nat) (o : Opt) (p : Str × Bool)
    (hp : p ∈ boolWords) (hi : T[i]? = some o) (hty : o.ty = .atom .bool)
    (hlast : (mentions T i o files).getLast? = some (.direct p.1)) (hcli : cliOccs o argv = []) :
    den T files argv i = some (.atom (.bool p.2)) := by
  rw [file_replaces_scalar T files argv i o .bool hi hty _ hlast hcli]
  have : specBool p.1 = some p.2 := by
    rw [← bool_words, bool_words_table p hp]; rfl
  simp [mentionStr, specAtom, this]

/-- a dictionary line `name = k=v` (blank-free, comma-free, no `=` in the key) denotes the single entry `k ↦ v`,
    and so does the unknown-key line `k = v` routed to the dictionary option: both put `k ↦ convert v` -/
theorem dict_entry_written_is_read (t : ATy) (cur : List (Str × Atom)) (k v : Str) (hk : k.contains 61 = false)
    (hk32 : k.contains 32 = false) (hk44 : k.contains 44 = false) (hv32 : v.contains 32 = false) (hv44 : v.contains 44 = false) :
    dictMention t cur (.direct (k ++ 61 :: v)) = putEntry t cur k v ∧ dictMention t cur (.entry k v) = putEntry t cur k v := by
  refine ⟨?_, rfl⟩
  simp only [dictMention, PlasVerif.Proofs.ConfigBuiltins.entriesOf_single k v hk hk32 hk44 hv32 hv44, bind, Option.bind,
    List.foldlM_cons, List.foldlM_nil]
  cases putEntry t cur k v <;> rfl

/-- `-120` and `a bc d` -/
example : intStr (-120) = [45, 49, 50, 48] ∧ shlexSplit (joinWith [32] [[97], [98, 99], [100]]) = [[97], [98, 99], [100]] := by decide

/-! ## sources are independent; the command line comes after the files -/

/-- **Each option independently**: the value of an option depends only on the file lines that mention *it* and on the
    occurrences of *its* option strings; whatever else the files and the command line contain is irrelevant. -/
theorem den_depends_only_on_own_sources (T : Table) (files files' : List File) (argv argv' : List Occ) (i : Nat) (o : Opt)
    (hi : T[i]? = some o) (hf : mentions T i o files = mentions T i o files') (hc : cliOccs o argv = cliOccs o argv') :
    den T files argv i = den T files' argv' i := by
  simp only [den, hi, hf, hc]

/-- with unambiguous option strings, a command-line occurrence belongs to at most one option -/
theorem occurrence_belongs_to_one_option (T : Table) (hfd : flagsDistinct T = true) (i j : Nat) (oi oj : Opt)
    (hi : T[i]? = some oi) (hj : T[j]? = some oj) (a : Occ)
    (h1 : (flagsOf oi).contains a.flag = true) (h2 : (flagsOf oj).contains a.flag = true) : i = j := by
  simp only [flagsDistinct, decide_eq_true_eq] at hfd
  exact PlasVerif.Proofs.ConfigRouting.flatMap_nodup_unique (fun o : Opt => o.flags ++ o.noflags) T hfd i j oi oj a.flag hi hj
    (PlasVerif.Proofs.ConfigRouting.flagsOf_sub oi a.flag h1) (PlasVerif.Proofs.ConfigRouting.flagsOf_sub oj a.flag h2)

/-- **Defaults → files → command line, for every option class**: the final value is the command-line stage applied to
    the value the files alone produce (for dictionaries: command-line entries are put, in order, into the dictionary the
    files produced, so they override per key). -/
theorem cli_applied_after_files (T : Table) (files : List File) (argv : List Occ) (i : Nat) (o : Opt) (hi : T[i]? = some o) :
    den T files argv i = (den T files [] i).bind fun v => denCli o v (cliOccs o argv) := by
  simp only [den, hi, bind, Option.bind, cliOccs, List.filter_nil]
  cases hf : denFiles o (mentions T i o files) with
  | none => rfl
  | some v =>
    have ht := denFiles_typed hf
    have : denCli o v [] = some v := by
      unfold denCli
      cases hty : o.ty with
      | atom t => cases t <;> simp
      | list =>
        cases v with
        | list xs => simp
        | atom a => simp [typedVal, hty] at ht
        | dict k => simp [typedVal, hty] at ht
      | dict t l =>
        cases v with
        | dict k => simp [pure]
        | atom a => simp [typedVal, hty] at ht
        | list xs => simp [typedVal, hty] at ht
    simp [this]

/-- command-line entries update a dictionary option per key after the files: `--map k 1` over `[s] k = 7` gives `k ↦ 1` -/
example : den exT [exF1] [⟨[45, 45, 109, 97, 112], [[107], [49]]⟩, ⟨[45, 45, 109, 97, 112], [[106], [50]]⟩] 4
    = some (.dict [([107], .int 1), ([106], .int 2)]) := by decide

/-! ## where one file line goes (the loop body of `ConfigManager.read`) -/

/-- a line whose key names an option of its section is converted by that option's class and touches no other option -/
theorem known_key_sets_its_option (T : Table) (hwf : WF T = true) (j : Nat) (o : Opt) (hj : T[j]? = some o) (st : St) (v : Str) :
    readItem false T o.sec st (o.key, v) = (setFromString false o.ty (st j) v).map (st.set j) := by
  simp only [WF, Bool.and_eq_true] at hwf
  exact PlasVerif.Proofs.ConfigRouting.known_key hwf.1 hj st v

/-- **Unknown-key routing**: a line whose key no option of the section has becomes one entry `key ↦ value` of the section's
    *first* dictionary option (converted by that option's entry type), and touches nothing else -/
theorem unknown_key_routed_to_first_dict (T : Table) (d : Nat) (o : Opt) (t : ATy) (l : Bool) (hd : T[d]? = some o)
    (hty : o.ty = .dict t l) (hfirst : firstDict T d o = true) (k : Str) (hk : keyKnown T o.sec k = false) (st : St) (v : Str) :
    readItem false T o.sec st (k, v) = (dictSetStr t (st d) k v).map (st.set d) :=
  PlasVerif.Proofs.ConfigRouting.unknown_key_first_dict hd hty hfirst hk st v

/-- … and is ignored when the section has no dictionary option -/
theorem unknown_key_ignored_without_dict (T : Table) (sec k : Str) (hk : keyKnown T sec k = false)
    (hn : ∀ o ∈ T, o.sec = sec → isDict o.ty = false) (st : St) (v : Str) :
    readItem false T sec st (k, v) = .ok st :=
  PlasVerif.Proofs.ConfigRouting.unknown_key_no_dict hk hn st v

/-- a file line concerns at most one option (the spec's `mentionOf` is a partial function from lines to options) -/
theorem line_concerns_one_option (T : Table) (hwf : WF T = true) (i j : Nat) (oi oj : Opt) (hi : T[i]? = some oi)
    (hj : T[j]? = some oj) (it : Item) (h1 : (mentionOf T i oi it).isSome = true) (h2 : (mentionOf T j oj it).isSome = true) :
    i = j := by
  simp only [WF, Bool.and_eq_true] at hwf
  exact PlasVerif.Proofs.ConfigRouting.mention_unique hwf.1 hi hj it h1 h2

/-- `[s] k = 7` over `exT`: `k` is no option of `[s]`, so it lands in `map` (index 4), converted to an integer -/
example : (readItem false exT [115] (init exT) ([107], [55])).toOption.map (fun st => (List.range 5).map st)
    = some [.atom (.str [100]), .atom (.int 2), .atom (.bool true), .list [], .dict [([107], .int 7)]] := by decide
example : keyKnown exT [115] [107] = false ∧ firstDict exT 4 exT[4] = true := by decide

/-! ## how a name is resolved (`InterpolationWrapper.__getitem__`) -/

/-- **Name resolution, including the KeyError quirk**: `%(name)s` resolves to the first option with that key (sections in
    order) whose own read-back does not raise `KeyError`; a `KeyError` raised *inside* a candidate's own interpolation
    is swallowed like an absent key; any other exception of a candidate reached first propagates; no candidate left:
    `KeyError`. -/
theorem lookup_resolution (get : Nat → Except Err Val) (cands : List Nat) :
    lookupWith get cands =
      match cands.find? (fun j => decide (get j ≠ .error .keyError)) with
      | none => .error .keyError
      | some j => (get j).map valStr :=
  PlasVerif.Proofs.ConfigRouting.lookupWith_char get cands

theorem lookup_keyerror_moves_on (get : Nat → Except Err Val) (j : Nat) (js : List Nat) (h : get j = .error .keyError) :
    lookupWith get (j :: js) = lookupWith get js := by simp [lookupWith, h]

theorem lookup_other_error_propagates (get : Nat → Except Err Val) (j : Nat) (js : List Nat) (e : Err)
    (h : get j = .error e) (he : e ≠ .keyError) : lookupWith get (j :: js) = .error e := by
  cases e <;> simp_all [lookupWith]

/-- `[sa] base-url = x%(nosuch)s`, `[sb] base-url = second`, `[sb] alpha = <%(base-url)s>`: `alpha` reads `<second>`
    because the first candidate raises `KeyError` inside its own interpolation -/
def exQ : Table := [
  ⟨[115, 97], [98], [115, 97] ++ [98], .atom .str, .atom (.str (render [.lit [120], .ref [110]])), [], []⟩,
  ⟨[115, 98], [98], [115, 98] ++ [98], .atom .str, .atom (.str [50]), [], []⟩,
  ⟨[115, 98], [97], [115, 98] ++ [97], .atom .str, .atom (.str (render [.lit [60], .ref [98], .lit [62]])), [], []⟩]
example : readBack exQ (init exQ) 2 = .ok (.atom (.str [60, 50, 62])) ∧ readBack exQ (init exQ) 0 = .error .keyError := by decide

/-! ## `section.get(key, default)` -/

/-- `get` is `__getitem__` whenever that returns: the same interpolated value -/
theorem get_is_getitem (T : Table) (st : St) (i : Nat) (v : Val) (h : readBack T st i = .ok v) :
    getDefault T st i = .ok (some v) := by simp [getDefault, h]

/-- `get` gives the default exactly on `KeyError` (an absent key, or a reference to a name no option has);
    every other exception of the interpolation propagates -/
theorem get_default_on_keyerror (T : Table) (st : St) (i : Nat) :
    (readBack T st i = .error .keyError → getDefault T st i = .ok none) ∧
    (∀ e, e ≠ .keyError → readBack T st i = .error e → getDefault T st i = .error e) := by
  refine ⟨fun h => by simp [getDefault, h], fun e he h => ?_⟩
  cases e <;> simp_all [getDefault]

/-! ## the executable oracle of the spec is met -/

/-- the spec's own format-string parser only accepts strings of the grammar: its result renders back to the input -/
theorem spec_parser_sound (f : Nat) (s : Str) (segs : List Seg) (h : parseSegs f s = some segs) :
    render segs = s ∧ ∀ g ∈ segs, g.wf = true :=
  PlasVerif.Proofs.ConfigReadBack.parseSegs_sound f s segs h

/-- **Reading back**: wherever the spec's read-back oracle is defined (every string a format string of the grammar,
    every reference naming an option whose own read-back is defined, to any depth), `config[section][key]` of the model
    returns exactly the oracle's value: references replaced by the read-back value of the first option with that
    key, `%%` by `%`, lists item by item, other values unchanged. -/
theorem readBack_meets_oracle (T : Table) (σ : Nat → Option Val) (st : St) (hσ : ∀ j x, σ j = some x → st j = x)
    (f i : Nat) (v : Val) (h : specReadBack T σ f i = some v) : getItem T st f i = .ok v :=
  PlasVerif.Proofs.ConfigReadBack.specReadBack_sound T σ st hσ f i v h

example : specReadBack exR (fun i => some (init exR i)) (fuelFor exR) 0 = some (.atom (.str [120, 55, 37])) := by decide

/-- **End to end** (this is the comparison the driver's `model` and `spec` columns make, for all inputs): inside the
    domain the layering finishes, and every option for which the spec's oracle (denotation, then read-back) is defined
    reads back as exactly that value. -/
theorem model_meets_spec_oracle (T : Table) (hwf : WF T = true) (hwc : WFcli T = true) (files : List File) (argv : List Occ)
    (hdom : inDomain T files argv = true)
    (hden : ∀ i o, T[i]? = some o → (den T files argv i).isSome = true) :
    ∃ st, run false T files argv = .ok st ∧
      ∀ i v, specReadBack T (den T files argv) (fuelFor T) i = some v →
        readBack T st i = .ok v ∧ getDefault T st i = .ok (some v) := by
  obtain ⟨st, hrun, hval⟩ := layering_exact_on_domain T hwf hwc files argv hdom hden
  refine ⟨st, hrun, fun i v h => ?_⟩
  have hrb : readBack T st i = .ok v := readBack_meets_oracle T (den T files argv) st ?_ (fuelFor T) i v h
  · exact ⟨hrb, by simp [getDefault, hrb]⟩
  intro j x hj
  cases hT : T[j]? with
  | none => simp [den, hT] at hj
  | some o =>
    have := hval j o hT
    rw [hj] at this
    exact (Option.some.inj this).symm

/-! ## histories: the configuration is a mutable object that is read back at any time -/

/-- **No stale read-back** ("… replaced by the *current* value of the named option").  Layers (`read` of one file,
    `updateFromDict` of one command line) and assignments `config[s][k] = v` are applied in any order and number, and
    everything is read back at arbitrary points in between.  Every state that is observed is, for every option, the
    denotation of exactly the steps that precede that read-back — whatever was read before. -/
theorem history_no_stale_readback (T : Table) (hwf : WF T = true) (hwc : WFcli T = true) (steps : List Step)
    (hok : ∀ s ∈ steps, assignOk T s) :
    ∀ s' ∈ (hist false T steps (init T)).1, ∃ pre post, steps = pre ++ Step.observe :: post ∧
      ∀ i o, T[i]? = some o → denHist T pre i = some (s' i) := by
  intro s' hs'
  have hty : ∀ i o, T[i]? = some o → typedVal o.ty (init T i) = true := by
    intro i o hi
    simp only [WF, Bool.and_eq_true, List.all_eq_true] at hwf
    have := typedDflt_val o (hwf.2 o (List.mem_of_getElem? hi))
    simpa [init, hi] using this
  obtain ⟨pre, post, hsplit, hden⟩ := hist_observed hwf hwc steps (init T) hty hok s' hs'
  refine ⟨pre, post, hsplit, fun i o hi => ?_⟩
  have := hden i o hi
  simpa [denHist, hi, init] using this

/-- … and what `config[section][key]` / `section.get(key)` return at that point is the spec's read-back of that
    denotation (references resolved against the values of *that* moment) -/
theorem history_readback_current (T : Table) (hwf : WF T = true) (hwc : WFcli T = true) (steps : List Step)
    (hok : ∀ s ∈ steps, assignOk T s) :
    ∀ s' ∈ (hist false T steps (init T)).1, ∃ pre post, steps = pre ++ Step.observe :: post ∧
      ∀ i v, specReadBack T (denHist T pre) (fuelFor T) i = some v →
        readBack T s' i = .ok v ∧ getDefault T s' i = .ok (some v) := by
  intro s' hs'
  obtain ⟨pre, post, hsplit, hden⟩ := history_no_stale_readback T hwf hwc steps hok s' hs'
  refine ⟨pre, post, hsplit, fun i v h => ?_⟩
  have hrb : readBack T s' i = .ok v := by
    refine readBack_meets_oracle T (denHist T pre) s' ?_ (fuelFor T) i v h
    intro j x hj
    cases hT : T[j]? with
    | none => simp [denHist, hT] at hj
    | some o =>
      have := hden j o hT
      rw [hj] at this
      exact (Option.some.inj this).symm
  exact ⟨hrb, by simp [getDefault, hrb]⟩

/-- a history that raises nothing is observed once per read-back step, in order of the steps -/
theorem history_observation_count (T : Table) (steps : List Step) (h : (hist false T steps (init T)).2 = none) :
    (hist false T steps (init T)).1.length = (steps.filter isObserve).length :=
  hist_count T steps (init T) h

/-- over `exR` (`a = x%(b)s`, `b = %(c)s%%`, `c = 7`): read, assign `c = 8`, read, `--c 9`, read: `a` is `x7%`, `x8%`, `x9%` -/
example : ((hist false exR [.observe, .assign [115] [99] (.atom (.int 8)), .observe,
      .cli [⟨[45, 45, 99], [[57]]⟩], .observe] (init exR)).1.map fun st => readBack exR st 0)
    = [.ok (.atom (.str [120, 55, 37])), .ok (.atom (.str [120, 56, 37])), .ok (.atom (.str [120, 57, 37]))] := by decide

/-- **A history inside the domain raises nothing.**  If every step is well-formed (file values addressed to scalar
    options convert, every command-line occurrence is a registered option string of the right arity and type, assignments
    name an existing option) and the denotation of every option after the whole history is defined (dictionary entries
    convert, `--link` has 2 or 3 arguments, assigned values have the shape of the option's class), then no `read`, no
    `parse_args`/`updateFromDict`, no assignment of the history raises. -/
theorem history_defined_on_domain (T : Table) (hwf : WF T = true) (hwc : WFcli T = true) (steps : List Step)
    (hdom : steps.all (stepWf T) = true)
    (hden : ∀ i o, T[i]? = some o → (denHist T steps i).isSome = true) :
    (hist false T steps (init T)).2 = none := by
  have hty : ∀ i o, T[i]? = some o → typedVal o.ty (init T i) = true := by
    intro i o hi
    simp only [WF, Bool.and_eq_true, List.all_eq_true] at hwf
    have := typedDflt_val o (hwf.2 o (List.mem_of_getElem? hi))
    simpa [init, hi] using this
  refine PlasVerif.Proofs.ConfigHistTotal.hist_total hwf hwc steps (init T) hty
    (fun s hs => List.all_eq_true.mp hdom s hs) ?_
  intro i o hi
  have := hden i o hi
  simpa [denHist, hi, init] using this

/-- **Histories, both directions**: inside the domain a history raises nothing, is observed exactly once per read-back
    step, and every observed state is the denotation of the steps before that read-back. -/
theorem history_exact_on_domain (T : Table) (hwf : WF T = true) (hwc : WFcli T = true) (steps : List Step)
    (hdom : steps.all (stepWf T) = true)
    (hden : ∀ i o, T[i]? = some o → (denHist T steps i).isSome = true) :
    (hist false T steps (init T)).2 = none ∧
    (hist false T steps (init T)).1.length = (steps.filter isObserve).length ∧
    ∀ s' ∈ (hist false T steps (init T)).1, ∃ pre post, steps = pre ++ Step.observe :: post ∧
      ∀ i o, T[i]? = some o → denHist T pre i = some (s' i) := by
  have h1 := history_defined_on_domain T hwf hwc steps hdom hden
  refine ⟨h1, history_observation_count T steps h1, ?_⟩
  refine history_no_stale_readback T hwf hwc steps ?_
  intro s hs
  -- assignments are well-shaped because the denotation is defined
  cases s with
  | assign sec key v =>
    intro o ho hsec hkey
    obtain ⟨i, hi⟩ := List.getElem?_of_mem ho
    -- split the history at this assignment: the prefix denotation is defined, hence so is this step's
    obtain ⟨pre, post, hsplit⟩ := List.append_of_mem hs
    have hd := hden i o hi
    simp only [denHist, hi, hsplit, List.foldlM_append, List.foldlM_cons, bind, Option.bind] at hd
    cases hp : pre.foldlM (denStep T i o) o.dflt with
    | none => simp [hp] at hd
    | some c =>
      simp only [hp, denStep, hsec, hkey, decide_true, Bool.and_self, if_true] at hd
      by_cases hsh : shaped o.ty v = true
      · exact hsh
      · simp [hsh] at hd
  | read f => trivial
  | cli a => trivial
  | observe => trivial

/-- non-vacuity: the history of the previous example is inside the domain, and indeed raises nothing -/
example : [Step.observe, .assign [115] [99] (.atom (.int 8)), .observe, .cli [⟨[45, 45, 99], [[57]]⟩], .observe].all (stepWf exR) = true ∧
    (List.range 3).all (fun i => (denHist exR [.observe, .assign [115] [99] (.atom (.int 8)), .observe,
      .cli [⟨[45, 45, 99], [[57]]⟩], .observe] i).isSome) = true ∧
    (hist false exR [.observe, .assign [115] [99] (.atom (.int 8)), .observe, .cli [⟨[45, 45, 99], [[57]]⟩], .observe] (init exR)).2 = none ∧
    WF exR = true ∧ WFcli exR = true := by decide

/-! ## the entry point `plasTeX.client.main(argv)` -/

/-- **`parse_args` recovers what was written.**  For every arrangement of `-c name` / `--config name` options, the
    document and option strings with their words (values plain words, each option string with the number of words its
    class takes, a "takes all following words" option not directly followed by the document), the word-level reading
    returns exactly the configuration-file names, the positionals and the option occurrences, each in written order. -/
theorem parse_args_recovers_pieces (T : Table) (ps : List Piece) (h : piecesOk T ps = true) :
    splitArgv T ((renderPieces ps).length + 1) (renderPieces ps) {} =
      .ok { configs := cfgNames ps, positionals := posWords ps, occs := occsOfPieces ps } := by
  have := PlasVerif.Proofs.ConfigMain.splitArgv_pieces T ps ((renderPieces ps).length + 1) {} (by omega) h
  simpa using this

/-- **`client.main` is the layering**: defaults, then the named configuration files that exist *in the order of their
    `-c`/`--config` options* (wherever these stand on the command line, a missing file is skipped, a file named twice is
    read twice), then the command-line values. -/
theorem main_is_layering (asIs : Bool) (T : Table) (fm : List (Str × File)) (ps : List Piece)
    (hok : piecesOk T ps = true) (doc : Str) (hpos : posWords ps = [doc]) :
    mainModel asIs T fm (renderPieces ps) =
      run asIs T ((cfgNames ps).filterMap fun n => (fm.find? (·.1 = n)).map (·.2)) (occsOfPieces ps) := by
  simp only [mainModel, parse_args_recovers_pieces T ps hok, bind, Except.bind, hpos]

/-- … hence every option ends with the value the property prescribes for that layering -/
theorem main_meets_den (T : Table) (hwf : WF T = true) (hwc : WFcli T = true) (fm : List (Str × File)) (ps : List Piece)
    (hok : piecesOk T ps = true) (doc : Str) (hpos : posWords ps = [doc]) (st : St)
    (h : mainModel false T fm (renderPieces ps) = .ok st) (i : Nat) (o : Opt) (hi : T[i]? = some o) :
    den T ((cfgNames ps).filterMap fun n => (fm.find? (·.1 = n)).map (·.2)) (occsOfPieces ps) i = some (st i) := by
  rw [main_is_layering false T fm ps hok doc hpos] at h
  exact run_refines_den T hwf hwc _ _ st h i o hi

/-- without exactly one document the entry point exits (argparse: "the following arguments are required: file" /
    "unrecognized arguments") -/
theorem main_needs_one_document (asIs : Bool) (T : Table) (fm : List (Str × File)) (ps : List Piece)
    (hok : piecesOk T ps = true) (hpos : (posWords ps).length ≠ 1) :
    mainModel asIs T fm (renderPieces ps) = .error .systemExit := by
  simp only [mainModel, parse_args_recovers_pieces T ps hok, bind, Except.bind]
  match hp : posWords ps, hpos with
  | [], _ => rfl
  | [_], h => simp [hp] at h
  | _ :: _ :: _, _ => rfl

/-- `--n 1 -c b doc --items x y --config a --flag` over `exT`: files are read in the order `b`, `a`; the list option takes
    both words; the document may stand in the middle -/
def exPieces : List Piece := [.occ ⟨[45, 45, 110], [[49]]⟩, .cfg false [98], .pos [100, 111, 99],
  .occ ⟨[45, 45, 105, 116, 101, 109, 115], [[120], [121]]⟩, .cfg true [97], .occ ⟨[45, 45, 102, 108, 97, 103], []⟩]
example : piecesOk exT exPieces = true ∧ posWords exPieces = [[100, 111, 99]] ∧ cfgNames exPieces = [[98], [97]] ∧
    obs (mainModel false exT [([97], exF1), ([98], exF2)] (renderPieces exPieces)) 4
      = some [.atom (.str [100]), .atom (.int 1), .atom (.bool true), .list [[99], [97], [98], [120], [121]]] := by decide
/-- the document directly after `--items x` is swallowed by `nargs='*'`: not an unambiguous arrangement, and the entry point exits -/
example : piecesOk exT [.occ ⟨[45, 45, 105, 116, 101, 109, 115], [[120]]⟩, .pos [100]] = false ∧
    (mainModel false exT [] [[45, 45, 105, 116, 101, 109, 115], [120], [100]]).toOption = none := by decide

/-- the option strings of the live table are option-like words and none of them is `-c` / `--config` -/
theorem table_flags_optlike :
    (PlasVerif.Generated.Config.table.flatMap fun o => o.flags ++ o.noflags).all
      (fun f => optLike f && !(f = sDashC || f = sConfig)) = true := by decide

/-- no option of the live table uses the dests `config` / `file` that `client.main` registers itself -/
theorem table_reserved_dests_free :
    PlasVerif.Generated.Config.table.all (fun o => !(o.dest = [99, 111, 110, 102, 105, 103] || o.dest = [102, 105, 108, 101])) = true := by
  decide

/-- hence the layering theorem applies to the live table -/
theorem live_table_layering (files : List File) (argv : List Occ) (st : St)
    (h : run false PlasVerif.Generated.Config.table files argv = .ok st) (i : Nat) (o : Opt)
    (hi : PlasVerif.Generated.Config.table[i]? = some o) :
    den PlasVerif.Generated.Config.table files argv i = some (st i) :=
  run_refines_den _ table_wf table_wfcli files argv st h i o hi

end PlasVerif.Properties.C16
