import PlasVerif.Proofs.Tokenizer
/-!
# C01 — Tokenization follows TeX's lexical rules for every input and catcode table

Property theorems only (helpers: `Proofs/Catcodes.lean`, `Proofs/Tokenizer.lean`).
`tokenize t s` is a total function defined by well-founded recursion on the remaining
input (Lean accepted the termination proof: `nextChar_lt`, `readWord_le`, `dropLine_le`),
and has no error branch: "terminates without raising for every input" is the typing of
`tokenize` plus the correspondence check (the real tokenizer never raises either).
-/
namespace PlasVerif.Properties.C01
open PlasVerif.Model.Catcodes PlasVerif.Model.Tokenizer PlasVerif.Generated.Catcodes
open PlasVerif.Proofs.Catcodes PlasVerif.Proofs.Tokenizer

/-! ## category tables: every table reachable by `\catcode` assignments is a partition -/

/-- No sequence of `\catcode` assignments (from the default or the verbatim table) can put a
    character into two classes. -/
theorem catcode_partition {t : CatTable} (h : Reachable t) :
    t.length = 16 ∧ ∀ i j c, c ∈ cls t i → c ∈ cls t j → i = j :=
  ⟨(partition_reachable h).1, fun _ _ _ hi hj => (partition_reachable h).unique hi hj⟩

example : Reachable (setCat (setCat defaultCats 64 11) 92 12) :=
  .set _ _ _ (.set _ _ _ .default (by omega)) (by omega)

/-- After `\catcode c = k` the character `c` has category `k` … -/
theorem whichCode_setCat_same {t : CatTable} (h : Reachable t) (c k : Nat) (hk : k < 16) :
    whichCode (setCat t c k) c = k := by
  have hp := partition_setCat (partition_reachable h) c k
  by_cases h12 : k = 12
  · subst h12
    apply whichCodeIn_none
    intro i _ hmem
    rw [mem_cls_setCat] at hmem
    rcases hmem with ⟨hne, _⟩ | ⟨_, _, hne, _⟩ <;> exact hne rfl
  · apply whichCodeIn_mem hp (i := k)
    · rw [mem_cls_setCat]; right
      exact ⟨rfl, rfl, h12, by rw [(partition_reachable h).1]; exact hk⟩
    · exact order_complete k hk h12

/-- … and no other character changes category. -/
theorem whichCode_setCat_other (t : CatTable) (c k d : Nat) (hd : d ≠ c) :
    whichCode (setCat t c k) d = whichCode t d := by
  apply whichCodeIn_congr
  intro i
  rw [mem_cls_setCat]
  constructor
  · rintro (⟨_, h⟩ | ⟨h, _⟩)
    · exact h
    · exact absurd h hd
  · intro h; exact Or.inl ⟨hd, h⟩

/-- On a reachable table the category is decided by class membership alone: the order in
    which `whichCode` tests the classes is irrelevant. -/
theorem whichCode_order_irrelevant {t : CatTable} (h : Reachable t) (c : Nat) (o : List Nat)
    (ho : ∀ i, i ∈ o ↔ i ∈ lookupOrder) : whichCodeIn t c o = whichCode t c := by
  have hp := partition_reachable h
  rcases whichCodeIn_cases t c lookupOrder with ⟨hm, hc⟩ | ⟨h12, hn⟩
  · exact whichCodeIn_mem hp hc o ((ho _).mpr hm)
  · rw [whichCode, h12]
    exact whichCodeIn_none o (fun i hi => hn i ((ho i).mp hi))

example : whichCode (setCat defaultCats 64 11) 64 = 11 ∧ whichCode (setCat defaultCats 64 11) 92 = 0 := by
  constructor <;> decide +kernel

/-! ## every produced token carries the category its class denotes -/

/-- Every character token in the output, for every input and every table, is an instance of
    the class registered for its category, and that category is the current category of its
    character (never ignored/invalid, never one of the categories that do not make character tokens). -/
theorem tok_cat_sound (t : CatTable) (s : List Nat) :
    ∀ cat c, Tok.ch cat c ∈ tokenize t s → cat = whichCode t c ∧ cat ∈ [1, 2, 3, 4, 6, 7, 8, 11, 12] := by
  intro cat c h
  exact tokFrom_sound t .N false s _ h

example : tokenize defaultCats [92, 97, 32, 123, 49] = [.cs [97], .ch 1 123, .ch 12 49] := by decide +kernel

/-! ## one token per significant character -/

/-- Letters, others, braces, math shift, alignment tab, parameter, superscript (not doubled)
    and subscript characters each give exactly one token of their current category. -/
theorem rule_char (t : CatTable) (st : St) (p : Bool) (c : Nat) (rest : List Nat)
    (hc : whichCode t c ∈ [1, 2, 3, 4, 6, 8, 11, 12]) :
    tokFrom t st p (c :: rest) = .ch (whichCode t c) c :: tokFrom t .M false rest := by
  simp only [List.mem_cons, List.not_mem_nil, or_false] at hc
  have hn := nextChar_plain t c rest (by omega) (by omega) (by omega)
  have hid : classCat (whichCode t c) = whichCode t c :=
    classCat_id _ (by simp only [charCats, List.mem_cons, List.not_mem_nil, or_false]; omega)
  by_cases h : whichCode t c = 11 ∨ whichCode t c = 12
  · rw [tok_letter_other _ _ _ _ _ _ _ hn h, hid]
  · rw [tok_other_class _ _ _ _ _ _ _ hn (by omega), hid]

/-- Active characters become the control sequence `active::c`. -/
theorem rule_active (t : CatTable) (st : St) (p : Bool) (c : Nat) (rest : List Nat) (hc : whichCode t c = 13) :
    tokFrom t st p (c :: rest) = .cs (activePrefix ++ [c]) :: tokFrom t .M false rest := by
  have hn := nextChar_plain t c rest (by omega) (by omega) (by omega)
  rw [hc] at hn
  exact tok_active _ _ _ _ _ _ hn

/-! ## control words versus control symbols; blanks skipped after control words -/

/-- Escape character followed by a maximal run of letters `l :: w` is the control word `l w`;
    blanks after it are skipped; lexing continues at the character that stopped the name. -/
theorem rule_control_word (t : CatTable) (st : St) (p : Bool) (e l : Nat) (w bs rest : List Nat)
    (he : whichCode t e = 0) (hl : whichCode t l = 11) (hw : ∀ c ∈ w, whichCode t c = 11)
    (hb : ∀ b ∈ bs, whichCode t b = 10) (hs : StopsWord t (bs ++ rest)) :
    tokFrom t st p (e :: l :: w ++ (bs ++ rest)) =
      .cs (l :: w) :: tokFrom t .S (l :: w == parName) rest := by
  have hn := nextChar_plain t e (l :: (w ++ (bs ++ rest))) (by omega) (by omega) (by omega)
  rw [he] at hn
  have hn2 := nextChar_plain t l (w ++ (bs ++ rest)) (by omega) (by omega) (by omega)
  rw [hl] at hn2
  rw [List.cons_append, List.cons_append, tok_escape_word _ _ _ _ _ _ _ _ hn hn2,
    readWord_letters t w (bs ++ rest) hw hs]
  simp only
  rw [blanks_skipped t .S (by simp) _ bs rest hb]

/-- Escape character followed by a single non-letter is a control symbol; blanks after it are kept. -/
theorem rule_control_symbol (t : CatTable) (st : St) (p : Bool) (e d : Nat) (rest : List Nat)
    (he : whichCode t e = 0) (hd : whichCode t d ∉ [11, 5, 7, 9, 15]) :
    tokFrom t st p (e :: d :: rest) = .cs [d] :: tokFrom t .M false rest := by
  simp only [List.mem_cons, List.not_mem_nil, or_false, not_or] at hd
  have hn := nextChar_plain t e (d :: rest) (by omega) (by omega) (by omega)
  rw [he] at hn
  have hn2 := nextChar_plain t d rest (by omega) (by omega) (by omega)
  exact tok_escape_symbol _ _ _ _ _ _ _ _ _ hn hn2 (by omega) (by omega)

/-- Escape character at the very end of the input: the empty control sequence. -/
theorem rule_escape_eof (t : CatTable) (st : St) (p : Bool) (e : Nat) (he : whichCode t e = 0) :
    tokFrom t st p [e] = [.cs []] := by
  have hn := nextChar_plain t e [] (by omega) (by omega) (by omega)
  rw [he] at hn
  exact tok_escape_eof _ _ _ _ _ _ hn (nextChar_nil t)

example : tokenize defaultCats [92, 102, 111, 111, 32, 32, 120] = [.cs [102, 111, 111], .ch 11 120] := by
  decide +kernel

/-! ## blanks: skipped at line starts and after spaces, runs collapse to one space token -/

theorem rule_skip_blanks (t : CatTable) (st : St) (hst : st ≠ .M) (p : Bool) (bs rest : List Nat)
    (hb : ∀ b ∈ bs, whichCode t b = 10) : tokFrom t st p (bs ++ rest) = tokFrom t st p rest :=
  blanks_skipped t st hst p bs rest hb

theorem rule_blank_run_collapses (t : CatTable) (p : Bool) (b : Nat) (bs rest : List Nat)
    (hb : ∀ x ∈ b :: bs, whichCode t x = 10) :
    tokFrom t .M p (b :: bs ++ rest) = .space :: tokFrom t .S false rest :=
  blank_run_collapses t p b bs rest hb

/-- End of line after text is a space; after a space or at a line start nothing. -/
theorem rule_eol (t : CatTable) (p : Bool) (c : Nat) (rest : List Nat) (hc : whichCode t c = 5) :
    tokFrom t .M p (c :: rest) = .space :: tokFrom t .N false rest ∧
    tokFrom t .S p (c :: rest) = tokFrom t .N p rest := by
  have hn := nextChar_plain t c rest (by omega) (by omega) (by omega)
  rw [hc] at hn
  exact ⟨tok_eol_M _ _ _ _ _ hn, tok_eol_S _ _ _ _ _ hn⟩

/-! ## a blank line yields one paragraph token -/

/-- At a line start, `n+1` consecutive line ends give exactly one `\par`. -/
theorem rule_blank_line_par (t : CatTable) (h5 : whichCode t 10 = 5) (n : Nat) (rest : List Nat) :
    tokFrom t .N false (List.replicate (n + 1) 10 ++ rest) = .cs parName :: tokFrom t .N true rest :=
  blank_line_par t h5 n rest

example : tokenize defaultCats [97, 10, 10, 10, 10, 98] = [.ch 11 97, .space, .cs parName, .ch 11 98] := by
  decide +kernel

/-! ## comments are removed through end of line -/

theorem rule_comment_to_eol (t : CatTable) (st : St) (p : Bool) (c : Nat) (rest : List Nat)
    (hc : whichCode t c = 14) : tokFrom t st p (c :: rest) = tokFrom t .N p (dropLine rest) := by
  have hn := nextChar_plain t c rest (by omega) (by omega) (by omega)
  rw [hc] at hn
  exact tok_comment _ _ _ _ _ _ hn

/-- what `dropLine` drops: everything up to and including the first line feed -/
theorem dropLine_spec (a b : List Nat) (ha : 10 ∉ a) : dropLine (a ++ 10 :: b) = b := by
  induction a with
  | nil => simp [dropLine]
  | cons x a ih =>
    have hx : x ≠ 10 := fun h => ha (by simp [h])
    simp only [List.cons_append, dropLine, hx, if_false]
    exact ih (fun h => ha (List.mem_cons_of_mem _ h))

/-! ## `^^X` notation decoded; ignored/invalid characters dropped -/

/-- `^^X` reads exactly like the character `X ± 64` written in its place. -/
theorem rule_hat_hat (t : CatTable) (st : St) (p : Bool) (c e : Nat) (rest : List Nat)
    (h7 : whichCode t c = 7) (hx : whichCode t (hatDecode e) ≠ 7) :
    tokFrom t st p (c :: c :: e :: rest) = tokFrom t st p (hatDecode e :: rest) :=
  tokFrom_congr t st p _ _ (nextChar_hat t c e rest h7 hx)

/-- Ignored and invalid characters contribute nothing. -/
theorem rule_ignored_dropped (t : CatTable) (st : St) (p : Bool) (c : Nat) (rest : List Nat)
    (h : whichCode t c = 9 ∨ whichCode t c = 15) : tokFrom t st p (c :: rest) = tokFrom t st p rest :=
  tokFrom_congr t st p _ _ (nextChar_ignored t c rest h)

example : tokenize defaultCats [94, 94, 77, 0, 97] = [.ch 11 97] := by decide +kernel

/-! ## lazy pulling and category changes between pulls -/

/-- Pulling tokens one at a time and tokenizing the whole input give the same stream as long as
    the table is not changed: a schedule of pulls without table operations is `tokFrom`. -/
theorem dynRun_without_changes (t : CatTable) (sched : List Nat) :
    ∀ (st : St) (p : Bool) (cs : List Nat),
      dynRun t st p cs (sched.map fun n => ([], n)) = tokFrom t st p cs := by
  induction sched with
  | nil => intro st p cs; rfl
  | cons n sched ih =>
    intro st p cs
    simp only [List.map_cons, dynRun, List.foldl_nil]
    rw [ih]
    exact pullN_tokFrom t n st p cs

/-- A `\catcode` change made by the consumer after `n` tokens affects exactly the input not yet
    consumed by those `n` pulls: the stream is the `n` tokens under the old table followed by the
    tokenization, under the new table, of the state the `n`-th pull left. -/
theorem catcode_change_takes_effect_at_next_pull (t : CatTable) (ops : List CatOp) (n : Nat)
    (st : St) (p : Bool) (cs : List Nat) :
    dynRun t st p cs [([], n), (ops, 0)] =
      (pullN t n st p cs).1 ++
        tokFrom (ops.foldl applyCatOp t) (pullN t n st p cs).2.1 (pullN t n st p cs).2.2.1 (pullN t n st p cs).2.2.2 := by
  simp [dynRun, pullN]

example : dynRun defaultCats .N false [33, 33, 33] [([], 1), ([.set 33 11], 0)]
    = [.ch 12 33, .ch 11 33, .ch 11 33] := by decide +kernel

/-! ## the verbatim table: one token per character (used by C11) -/

theorem verbatim_identity (s : List Nat) :
    tokenize verbatimCats s = s.map (fun c => Tok.ch (if c ∈ asciiLetters then 11 else 12) c) :=
  tokFrom_verbatim .N false s

end PlasVerif.Properties.C01
