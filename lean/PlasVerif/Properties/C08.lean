import PlasVerif.Proofs.Counters
import PlasVerif.Proofs.Roman
/-!
# C08 — Counters and automatic numbers follow LaTeX's numbering rules

Property theorems only; helper lemmas are in `Proofs/Counters.lean` and `Proofs/Roman.lean`.
-/
namespace PlasVerif.Properties.C08
open PlasVerif.Model.Counters PlasVerif.Model.Numbering PlasVerif.Spec.NumberingRules
open PlasVerif.Proofs.Counters PlasVerif.Proofs.Roman PlasVerif.Generated.Counters

/-! ## counters -/

/-- Stepping an existing counter `c`, for every store and every reset relation (any size, any shape): whenever the
    call returns, the reset relation is unchanged, every counter declared within `c` (transitively) is 0, `c` is one
    more, and every other counter keeps its value. -/
theorem step_resets_exactly (s s' : Store) (c : Name) (v : Int) (hc : val s c = some v)
    (h : stepc s c = .ok s') :
    skel s' = skel s ∧
    (∀ x, Within (skel s) x c → val s' x = (val s x).map (fun _ => 0)) ∧
    (∀ x, ¬ Within (skel s) x c → x ≠ c → val s' x = val s x) ∧
    (¬ Within (skel s) c c → val s' c = some (v + 1)) := by
  have he : ensure s c = s := by simp [ensure, hc]
  simp only [stepc, he] at h
  have key := resetFrom_exact _ _ _ _ h
  rw [skel_setVal] at key
  refine ⟨key.1, fun x hx => ?_, fun x hx hne => ?_, fun hcc => ?_⟩
  · rw [key.2 x, val_setVal]
    classical
    by_cases hxc : x = c
    · subst hxc; simp [hx, Option.map_map, Function.comp_def]
    · simp [hx, hxc]
  · rw [key.2 x, val_setVal]; classical simp [hx, hne]
  · rw [key.2 c, val_setVal]; classical simp [hcc, hc, valD]

/-- non-vacuity: in `section ⊃ subsection ⊃ subsubsection`, stepping `section` zeroes both lower counters -/
example : (stepc [⟨"section", none, 1⟩, ⟨"subsection", some "section", 4⟩, ⟨"subsubsection", some "subsection", 2⟩, ⟨"figure", none, 7⟩]
    "section").toOption = some [⟨"section", none, 2⟩, ⟨"subsection", some "section", 0⟩, ⟨"subsubsection", some "subsection", 0⟩, ⟨"figure", none, 7⟩] := by
  decide

/-- On an acyclic reset relation (a height function exists under which every counter is lower than the one it is
    reset by, bounded by the number of counters) the recursion of `resetcounters` always returns: the fuel of the
    model (= Python's recursion limit) is never exhausted.  A cycle is reported as `RecursionError`, not looped. -/
theorem reset_terminates (s : Store) (c : Name) (v : Int) (hc : val s c = some v) (h : Name → Nat)
    (hr : Ranked (skel s) h) (hb : h c ≤ s.length) : ∃ s', stepc s c = .ok s' := by
  have he : ensure s c = s := by simp [ensure, hc]
  simp only [stepc, he]
  exact resetFrom_ok (skel s) h hr _ _ _ (skel_setVal _ _ _) (by simp [fuelOf]; omega)

/-- a two-cycle is reported -/
example : (match stepc [⟨"a", some "b", 0⟩, ⟨"b", some "a", 0⟩] "a" with | .error .recursionError => true | _ => false) = true := by decide

/-- `\setcounter` changes exactly the named counter (no reset of the counters within it: LaTeX's rule). -/
theorem set_exact (s : Store) (c : Name) (v w : Int) (hc : val s c = some v) (x : Name) :
    val (setc s c w) x = if x = c then some w else val s x := by
  have he : ensure s c = s := by simp [ensure, hc]
  simp only [setc, he, val_setVal]
  by_cases hx : x = c <;> simp [hx, hc]

/-- `\addtocounter` changes exactly the named counter. -/
theorem add_exact (s : Store) (c : Name) (v d : Int) (hc : val s c = some v) (x : Name) :
    val (addc s c d) x = if x = c then some (v + d) else val s x := by
  have he : ensure s c = s := by simp [ensure, hc]
  simp only [addc, he, val_setVal, valD]
  by_cases hx : x = c <;> simp [hx, hc]

example : val (setc [⟨"section", none, 1⟩, ⟨"subsection", some "section", 4⟩] "section" 5) "subsection" = some 4 := by decide

/-- The pinned code before the repair (`setcounter` called `resetcounters()`): `\setcounter{section}{5}` wipes the
    subsection counter, which LaTeX keeps.  Kernel-checked witness. -/
theorem asIs_set_counterexample :
    ((setcAsIs [⟨"section", none, 1⟩, ⟨"subsection", some "section", 4⟩] "section" 5).toOption.map (val · "subsection")) = some (some 0) := by
  decide

/-! ## representations -/

/-- `\Roman`: the translated `numToRoman` gives the standard numeral - for every natural number, in particular 1..4999. -/
theorem roman_standard (n : Nat) : represent (n : Int) "Roman" = .ok (roman n) := by
  simp [represent, numToRoman, roman, romanChars_nat]

example : PlasVerif.Model.Counters.romanChars 1994 = ['M', 'C', 'M', 'X', 'C', 'I', 'V'] := by decide

/-- the characters of `\Roman` for every `n`, independent of `String` -/
theorem roman_chars_standard (n : Nat) :
    PlasVerif.Model.Counters.romanChars (n : Int) = thousands (n / 1000) ++ romanLow (n % 1000) := romanChars_nat n

/-- `\Alph` / `\alph`: the n-th letter for 1..26 (finite table). -/
theorem alph_table : ∀ k : Nat, k < 26 →
    (letterAt ((k + 1 : Nat) : Int)).toOption.map Char.toUpper = some (Char.ofNat (64 + (k + 1))) ∧
    (letterAt ((k + 1 : Nat) : Int)).toOption.map (fun c => c.toUpper.toLower) = some (Char.ofNat (96 + (k + 1))) := by
  decide +kernel

/-- `\Alph` and `\alph` of every value 1..26 -/
theorem alph_standard (n : Nat) (h1 : 1 ≤ n) (h26 : n ≤ 26) :
    (letterAt (n : Int)).toOption.map Char.toUpper = some (Char.ofNat (64 + n)) ∧
    (letterAt (n : Int)).toOption.map (fun c => c.toUpper.toLower) = some (Char.ofNat (96 + n)) := by
  have := alph_table (n - 1) (by omega)
  rwa [show n - 1 + 1 = n by omega] at this

/-! ## which object prints a number -/

/-- A starred form prints nothing and leaves every counter alone. -/
theorem starred_prints_nothing (st : St) (tag : String) (c : Name) (level : Int) :
    step st (.construct tag c true level) = .ok { st with outs := ⟨tag, none⟩ :: st.outs } := by
  simp [step, numbered, stepOwn, capture]

/-- `\item[label]` prints nothing and does not count. -/
theorem labelled_item_does_not_count (st : St) (tag : String) :
    step st (.item tag true) = .ok { st with outs := ⟨tag, none⟩ :: st.outs } := by
  simp [step, numbered, stepOwn, capture]

/-- A sectioning object deeper than the numbering depth prints nothing. -/
theorem too_deep_prints_nothing (st st' : St) (tag : String) (c : Name) (level : Int)
    (hdeep : st.secnumdepth < level) (hsec : level ≤ endSectionsLevel)
    (h : step st (.construct tag c false level) = .ok st') :
    st'.outs = ⟨tag, none⟩ :: st.outs := by
  have h1 : decide (st.secnumdepth ≥ level) = false := by simp; omega
  have h2 : decide (level > endSectionsLevel) = false := by simp; omega
  by_cases hc : c = ""
  · subst hc
    simp [step, numbered, stepOwn, capture] at h
    rw [← h]
  · obtain ⟨s, _, hcap⟩ := construct_ok st st' tag c level hc h
    simp [capture, h1, h2] at hcap
    rw [← hcap]

/-- An unstarred object within the numbering depth steps its counter and prints `\the<counter>` evaluated in the
    stepped store. -/
theorem numbered_object_prints_the (st st' : St) (tag : String) (c : Name) (level : Int) (hc : c ≠ "")
    (hlevel : st.secnumdepth ≥ level ∨ level > endSectionsLevel)
    (h : step st (.construct tag c false level) = .ok st') :
    ∃ s r, stepc st.store c = .ok s ∧ st'.store = s ∧
      evalThe (theFuel st.thes) st.thes s ("the" ++ c) = .ok r ∧ st'.outs = ⟨tag, some r⟩ :: st.outs := by
  have hcb : (c == "") = false := by simpa using hc
  simp only [step, numbered, stepOwn, Bool.false_eq_true, if_false, hcb] at h
  cases hs : stepc st.store c with
  | error e => rw [hs] at h; cases h
  | ok s =>
    rw [hs] at h
    have hl : (decide (st.secnumdepth ≥ level) || decide (level > endSectionsLevel)) = true := by
      rcases hlevel with h1 | h1 <;> simp [h1]
    have hcn : (c != "") = true := by simpa using hc
    simp only [capture, hcn, hl, Bool.and_self, if_true] at h
    cases hr : evalThe (theFuel st.thes) st.thes s ("the" ++ c) with
    | error e => rw [hr] at h; cases h
    | ok r =>
      rw [hr] at h
      simp only [Except.ok.injEq] at h
      exact ⟨s, r, rfl, by rw [← h], hr, by rw [← h]⟩

/-- Consecutive numbering: two unstarred objects of one counter `c`, separated by any history that leaves the value
    of `c` where it was (no reset, no `\setcounter`), carry the values `v+1` and `v+2`. -/
theorem consecutive_numbers (st st1 st2 st3 : St) (tag tag' : String) (c : Name) (l l' : Int) (v : Int) (evs : List Ev)
    (hc : c ≠ "") (hv : val st.store c = some v) (hacyc : ¬ Within (skel st.store) c c)
    (h1 : step st (.construct tag c false l) = .ok st1)
    (_hmid : run st1 evs = .ok st2) (hkeep : val st2.store c = val st1.store c)
    (hacyc2 : ¬ Within (skel st2.store) c c)
    (h2 : step st2 (.construct tag' c false l') = .ok st3) :
    val st1.store c = some (v + 1) ∧ val st3.store c = some (v + 2) := by
  have e1 : stepc st.store c = .ok st1.store := by
    obtain ⟨s, hs, hcap⟩ := construct_ok st st1 tag c l hc h1
    rw [capture_store _ _ _ _ _ hcap]; exact hs
  have e2 : stepc st2.store c = .ok st3.store := by
    obtain ⟨s, hs, hcap⟩ := construct_ok st2 st3 tag' c l' hc h2
    rw [capture_store _ _ _ _ _ hcap]; exact hs
  have a1 := (step_resets_exactly _ _ c v hv e1).2.2.2 hacyc
  have hv2 : val st2.store c = some (v + 1) := by rw [hkeep, a1]
  have a2 := (step_resets_exactly _ _ c (v + 1) hv2 e2).2.2.2 hacyc2
  exact ⟨a1, by rw [a2]; congr 1; omega⟩

/-- Numbered within: after any object of the unit `c`, every counter declared within it (a theorem counter
    `\newtheorem{thm}{..}[c]`, a `\newcounter{x}[c]`, the class's own sub-units) restarts: its value is 0. -/
theorem numbered_within_resets (st st1 : St) (tag : String) (c x : Name) (l : Int) (v w : Int)
    (hc : c ≠ "") (hv : val st.store c = some v) (hx : val st.store x = some w)
    (hwithin : Within (skel st.store) x c)
    (h1 : step st (.construct tag c false l) = .ok st1) : val st1.store x = some 0 := by
  have e1 : stepc st.store c = .ok st1.store := by
    obtain ⟨s, hs, hcap⟩ := construct_ok st st1 tag c l hc h1
    rw [capture_store _ _ _ _ _ hcap]; exact hs
  have := (step_resets_exactly _ _ c v hv e1).2.1 x hwithin
  rw [this, hx]; rfl

/-- Shared counter: theorem-like environments declared on the same counter are numbered by one sequence - the effect
    of `\begin{env}` depends on the environment only through its counter. -/
theorem shared_counter_interleaves (st : St) (e1 e2 : Name) (c : Name)
    (h1 : st.envs.lookup e1 = some c) (h2 : st.envs.lookup e2 = some c) :
    step st (.thm e1) = step st (.thm e2) := by
  simp [step, h1, h2]


/-! ## formats -/

/-- `trimLeft` strips exactly the leading `0.` groups: any number of them, and nothing else. -/
theorem trimLeft_strips_exactly (k : Nat) (t : List Char) (ht : ∀ r, t ≠ '0' :: '.' :: r) :
    trim ((List.replicate k ['0', '.']).flatten ++ t) = t := by
  induction k with
  | zero =>
    simp only [List.replicate_zero, List.flatten_nil, List.nil_append]
    unfold trim
    split
    · rename_i r; exact absurd rfl (ht r)
    · rfl
  | succ k ih =>
    simp only [List.replicate_succ, List.flatten_cons, List.cons_append, List.nil_append]
    rw [trim]; exact ih

example : trim "0.0.3".toList = ['3'] := by decide

/-! ## lists -/

/-- In a list at nesting depth 1..4 an unlabelled `\item` is a numbered object of `enumi` … `enumiv`. -/
theorem item_uses_depth_counter (st : St) (tag : String) :
    (st.depth = 1 → step st (.item tag false) = step st (.construct tag "enumi" false commandLevel)) ∧
    (st.depth = 2 → step st (.item tag false) = step st (.construct tag "enumii" false commandLevel)) ∧
    (st.depth = 3 → step st (.item tag false) = step st (.construct tag "enumiii" false commandLevel)) ∧
    (st.depth = 4 → step st (.item tag false) = step st (.construct tag "enumiv" false commandLevel)) := by
  refine ⟨fun h => ?_, fun h => ?_, fun h => ?_, fun h => ?_⟩ <;>
    simp [step, h, pyIndex, listCounters]

/-- Full statement for enumerate (kept as a statement; see the comment below): from any state with an acyclic class
    table, every `\begin{list}` at depth < 4 followed by `k` unlabelled items prints 1 … k. -/
def enumerate_counts_from_one_statement : Prop :=
  ∀ (st : St) (k : Nat), 0 ≤ st.depth → st.depth < 4 →
    (∀ i : Nat, st.depth ≤ i → i < 4 → ∀ n, listCounters[i]? = some n → val st.store n = some 0) →
    ∃ st', run st (.beginList :: List.replicate k (.item "item" false)) = .ok st' ∧
      (st'.outs.take k).reverse.map (·.ref) = (List.range k).map fun i => some (toString (i + 1))
/- Proved parts: `item_uses_depth_counter` (which counter an item steps), `consecutive_numbers` (successive objects of
   one counter carry v+1, v+2), `numbered_within_resets` (an item of the outer list restarts the inner counter, since
   `enumii` is declared within `enumi` …), `labelled_item_does_not_count`.  Missing for the full statement: the
   invariant that `List.invoke` leaves every `enum` counter at index ≥ depth at 0 (begin resets the deeper counters,
   end resets from the list's own index), the format hypothesis `\theenum… = arabic`, and the induction over `k`.
   The document stream `doc8` checks the statement itself on every generated list against the LaTeX oracle. -/

end PlasVerif.Properties.C08
