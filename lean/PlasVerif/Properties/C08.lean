import PlasVerif.Proofs.Counters
import PlasVerif.Proofs.Roman
import PlasVerif.Proofs.EnumLists
import PlasVerif.Proofs.Format
import PlasVerif.Proofs.Untouched
import PlasVerif.Proofs.TrimLeft
import PlasVerif.Proofs.Lexer
/-!
# C08 — Counters and automatic numbers follow LaTeX's numbering rules

Property theorems only; helper lemmas are in `Proofs/Counters.lean` and `Proofs/Roman.lean`.
-/
namespace PlasVerif.Properties.C08
open PlasVerif.Model.Counters PlasVerif.Model.Numbering PlasVerif.Spec.NumberingRules
open PlasVerif.Proofs.Counters PlasVerif.Proofs.Roman PlasVerif.Generated.Counters

/-! ## counters -/

/-- Stepping an existing counter `c`, for every store and every reset relation (any size, any shape): whenever the
    call returns, the reset relation is unchanged, every counter declared within `c` (transitively) is 0, `c` is one
    more, and every other counter keeps its value. -/
theorem step_resets_exactly (s s' : Store) (c : Name) (v : Int) (hc : val s c = some v)
    (h : stepc s c = .ok s') :
    skel s' = skel s ∧
    (∀ x, Within (skel s) x c → val s' x = (val s x).map (fun _ => 0)) ∧
    (∀ x, ¬ Within (skel s) x c → x ≠ c → val s' x = val s x) ∧
    (¬ Within (skel s) c c → val s' c = some (v + 1)) := by
  have he : ensure s c = s := by simp [ensure, hc]
  simp only [stepc, he] at h
  have key := resetFrom_exact _ _ _ _ h
  rw [skel_setVal] at key
  refine ⟨key.1, fun x hx => ?_, fun x hx hne => ?_, fun hcc => ?_⟩
  · rw [key.2 x, val_setVal]
    classical
    by_cases hxc : x = c
    · subst hxc; simp [hx, Option.map_map, Function.comp_def]
    · simp [hx, hxc]
  · rw [key.2 x, val_setVal]; classical simp [hx, hne]
  · rw [key.2 c, val_setVal]; classical simp [hcc, hc, valD]

/-- non-vacuity: in `section ⊃ subsection ⊃ subsubsection`, stepping `section` zeroes both lower counters -/
example : (stepc [⟨"section", none, 1⟩, ⟨"subsection", some "section", 4⟩, ⟨"subsubsection", some "subsection", 2⟩, ⟨"figure", none, 7⟩]
    "section").toOption = some [⟨"section", none, 2⟩, ⟨"subsection", some "section", 0⟩, ⟨"subsubsection", some "subsection", 0⟩, ⟨"figure", none, 7⟩] := by
  decide

/-- On an acyclic reset relation (a height function exists under which every counter is lower than the one it is
    reset by, bounded by the number of counters) the recursion of `resetcounters` always returns: the fuel of the
    model (= Python's recursion limit) is never exhausted.  A cycle is reported as `RecursionError`, not looped. -/
theorem reset_terminates (s : Store) (c : Name) (v : Int) (hc : val s c = some v) (h : Name → Nat)
    (hr : Ranked (skel s) h) (hb : h c ≤ s.length) : ∃ s', stepc s c = .ok s' := by
  have he : ensure s c = s := by simp [ensure, hc]
  simp only [stepc, he]
  exact resetFrom_ok (skel s) h hr _ _ _ (skel_setVal _ _ _) (by simp [fuelOf]; omega)

/-- a two-cycle is reported -/
example : (match stepc [⟨"a", some "b", 0⟩, ⟨"b", some "a", 0⟩] "a" with | .error .recursionError => true | _ => false) = true := by decide

/-- `\setcounter` changes exactly the named counter (no reset of the counters within it: LaTeX's rule). -/
theorem set_exact (s : Store) (c : Name) (v w : Int) (hc : val s c = some v) (x : Name) :
    val (setc s c w) x = if x = c then some w else val s x := by
  have he : ensure s c = s := by simp [ensure, hc]
  simp only [setc, he, val_setVal]
  by_cases hx : x = c <;> simp [hx, hc]

/-- `\addtocounter` changes exactly the named counter. -/
theorem add_exact (s : Store) (c : Name) (v d : Int) (hc : val s c = some v) (x : Name) :
    val (addc s c d) x = if x = c then some (v + d) else val s x := by
  have he : ensure s c = s := by simp [ensure, hc]
  simp only [addc, he, val_setVal, valD]
  by_cases hx : x = c <;> simp [hx, hc]

example : val (setc [⟨"section", none, 1⟩, ⟨"subsection", some "section", 4⟩] "section" 5) "subsection" = some 4 := by decide

/-- The pinned code before the repair (`setcounter` called `resetcounters()`): `\setcounter{section}{5}` wipes the
    subsection counter, which LaTeX keeps.  Kernel-checked witness. -/
theorem asIs_set_counterexample :
    ((setcAsIs [⟨"section", none, 1⟩, ⟨"subsection", some "section", 4⟩] "section" 5).toOption.map (val · "subsection")) = some (some 0) := by
  decide

/-! ## representations -/

/-- `\Roman`: the translated `numToRoman` gives the standard numeral - for every natural number, in particular 1..4999. -/
theorem roman_standard (n : Nat) : represent (n : Int) "Roman" = .ok (roman n) := by
  simp [represent, numToRoman, roman, romanChars_nat]

example : PlasVerif.Model.Counters.romanChars 1994 = ['M', 'C', 'M', 'X', 'C', 'I', 'V'] := by decide

/-- The structural version (digit decomposition, no table evaluation): whenever the regenerated body of `numToRoman`
    is the three scaled copies of the four-statement digit program `if ≥9u / while ≥5u / if ≥4u / while ≥u`
    (`u` = 100, 10, 1) - a decidable condition on the table, true for the pinned source (see the example) - it
    produces the standard numeral for every `n`: thousands by induction, each decimal digit by the scaling lemma
    `runStmt_scale` and ten closed digit cases. -/
theorem roman_standard_structural (h : romanStmts = stages) (n : Nat) :
    PlasVerif.Model.Counters.romanChars (n : Int) = PlasVerif.Spec.NumberingRules.romanChars n :=
  romanChars_nat_of n (low_table_structural romanStmts h)

/-- non-vacuity: the statement list of the pinned `numToRoman` (literal copy) has that shape -/
example : [(false, 900, ['C', 'M']), (true, 500, ['D']), (false, 400, ['C', 'D']), (true, 100, ['C']),
      (false, 90, ['X', 'C']), (true, 50, ['L']), (false, 40, ['X', 'L']), (true, 10, ['X']),
      (false, 9, ['I', 'X']), (true, 5, ['V']), (false, 4, ['I', 'V']), (true, 1, ['I'])] = stages := by decide

/-- the characters of `\Roman` for every `n`, independent of `String` -/
theorem roman_chars_standard (n : Nat) :
    PlasVerif.Model.Counters.romanChars (n : Int) = thousands (n / 1000) ++ romanLow (n % 1000) := romanChars_nat n

/-- `\Alph` / `\alph`: the n-th letter for 1..26 (finite table). -/
theorem alph_table : ∀ k : Nat, k < 26 →
    (letterAt ((k + 1 : Nat) : Int)).toOption.map Char.toUpper = some (Char.ofNat (64 + (k + 1))) ∧
    (letterAt ((k + 1 : Nat) : Int)).toOption.map (fun c => c.toUpper.toLower) = some (Char.ofNat (96 + (k + 1))) := by
  decide +kernel

/-- `\Alph` and `\alph` of every value 1..26 -/
theorem alph_standard (n : Nat) (h1 : 1 ≤ n) (h26 : n ≤ 26) :
    (letterAt (n : Int)).toOption.map Char.toUpper = some (Char.ofNat (64 + n)) ∧
    (letterAt (n : Int)).toOption.map (fun c => c.toUpper.toLower) = some (Char.ofNat (96 + n)) := by
  have := alph_table (n - 1) (by omega)
  rwa [show n - 1 + 1 = n by omega] at this

/-! ## which object prints a number -/

/-- A starred form prints nothing and leaves every counter alone. -/
theorem starred_prints_nothing (st : St) (tag : String) (c : Name) (level : Int) :
    step st (.construct tag c true level) = .ok { st with outs := ⟨tag, none⟩ :: st.outs } := by
  simp [step, numbered, stepOwn, capture]

/-- Any number of starred / unnumbered objects (the rows of an `eqnarray*`, `\section*` …) is invisible to the
    numbering: after such a history every counter, every `\the…` macro and the list state are what they were, and the
    history printed one empty entry per object.  So the objects that follow are numbered as if it had not been there. -/
theorem starred_history_is_invisible : ∀ (evs : List Ev) (st st' : St),
    (∀ e ∈ evs, ∃ tag c level, e = .construct tag c true level) → run st evs = .ok st' →
    st'.store = st.store ∧ st'.thes = st.thes ∧ st'.depth = st.depth ∧ st'.envs = st.envs ∧
    ∃ news, st'.outs = news ++ st.outs ∧ news.length = evs.length ∧ ∀ o ∈ news, o.ref = none := by
  intro evs
  induction evs with
  | nil =>
    intro st st' _ h
    simp only [run, Except.ok.injEq] at h; subst h
    exact ⟨rfl, rfl, rfl, rfl, [], rfl, rfl, fun _ h => by cases h⟩
  | cons e es ih =>
    intro st st' hall h
    obtain ⟨tag, c, level, rfl⟩ := hall e List.mem_cons_self
    simp only [run, starred_prints_nothing] at h
    obtain ⟨h1, h2, h3, h4, news, h5, h6, h7⟩ := ih _ st' (fun e he => hall e (List.mem_cons_of_mem _ he)) h
    refine ⟨h1, h2, h3, h4, news ++ [⟨tag, none⟩], by rw [h5]; simp, by simp [h6], ?_⟩
    intro o ho
    rcases List.mem_append.mp ho with ho | ho
    · exact h7 o ho
    · simp only [List.mem_singleton] at ho; subst ho; rfl

example : ((run (initSt articleCounters articleThes 2) [.construct "srow" "equation" true 1001,
      .construct "srow" "equation" true 1001, .eqnBegin, .eqRow]).toOption.map (·.outs.reverse.map (·.ref))) =
    some [none, none, some "1", some "2"] := by decide +kernel

/-- `\item[label]` prints nothing and does not count. -/
theorem labelled_item_does_not_count (st : St) (tag : String) :
    step st (.item tag true) = .ok { st with outs := ⟨tag, none⟩ :: st.outs } := by
  simp [step, numbered, stepOwn, capture]

/-- A sectioning object deeper than the numbering depth prints nothing. -/
theorem too_deep_prints_nothing (st st' : St) (tag : String) (c : Name) (level : Int)
    (hdeep : st.secnumdepth < level) (hsec : level ≤ endSectionsLevel)
    (h : step st (.construct tag c false level) = .ok st') :
    st'.outs = ⟨tag, none⟩ :: st.outs := by
  have h1 : decide (st.secnumdepth ≥ level) = false := by simp; omega
  have h2 : decide (level > endSectionsLevel) = false := by simp; omega
  by_cases hc : c = ""
  · subst hc
    simp [step, numbered, stepOwn, capture] at h
    rw [← h]
  · obtain ⟨s, _, hcap⟩ := construct_ok st st' tag c level hc h
    simp [capture, h1, h2] at hcap
    rw [← hcap]

/-- An unstarred object within the numbering depth steps its counter and prints `\the<counter>` evaluated in the
    stepped store. -/
theorem numbered_object_prints_the (st st' : St) (tag : String) (c : Name) (level : Int) (hc : c ≠ "")
    (hlevel : st.secnumdepth ≥ level ∨ level > endSectionsLevel)
    (h : step st (.construct tag c false level) = .ok st') :
    ∃ s r, stepc st.store c = .ok s ∧ st'.store = s ∧
      evalThe (theFuel st.thes) st.thes s ("the" ++ c) = .ok r ∧ st'.outs = ⟨tag, some r⟩ :: st.outs := by
  have hcb : (c == "") = false := by simpa using hc
  simp only [step, numbered, stepOwn, Bool.false_eq_true, if_false, hcb] at h
  cases hs : stepc st.store c with
  | error e => rw [hs] at h; cases h
  | ok s =>
    rw [hs] at h
    have hl : (decide (st.secnumdepth ≥ level) || decide (level > endSectionsLevel)) = true := by
      rcases hlevel with h1 | h1 <;> simp [h1]
    have hcn : (c != "") = true := by simpa using hc
    simp only [capture, hcn, hl, Bool.and_self, if_true] at h
    cases hr : evalThe (theFuel st.thes) st.thes s ("the" ++ c) with
    | error e => rw [hr] at h; cases h
    | ok r =>
      rw [hr] at h
      simp only [Except.ok.injEq] at h
      exact ⟨s, r, rfl, by rw [← h], hr, by rw [← h]⟩

/-- Consecutive numbering: two unstarred objects of one counter `c`, separated by any history that leaves the value
    of `c` where it was (no reset, no `\setcounter`), carry the values `v+1` and `v+2`. -/
theorem consecutive_numbers (st st1 st2 st3 : St) (tag tag' : String) (c : Name) (l l' : Int) (v : Int) (evs : List Ev)
    (hc : c ≠ "") (hv : val st.store c = some v) (hacyc : ¬ Within (skel st.store) c c)
    (h1 : step st (.construct tag c false l) = .ok st1)
    (_hmid : run st1 evs = .ok st2) (hkeep : val st2.store c = val st1.store c)
    (hacyc2 : ¬ Within (skel st2.store) c c)
    (h2 : step st2 (.construct tag' c false l') = .ok st3) :
    val st1.store c = some (v + 1) ∧ val st3.store c = some (v + 2) := by
  have e1 : stepc st.store c = .ok st1.store := by
    obtain ⟨s, hs, hcap⟩ := construct_ok st st1 tag c l hc h1
    rw [capture_store _ _ _ _ _ hcap]; exact hs
  have e2 : stepc st2.store c = .ok st3.store := by
    obtain ⟨s, hs, hcap⟩ := construct_ok st2 st3 tag' c l' hc h2
    rw [capture_store _ _ _ _ _ hcap]; exact hs
  have a1 := (step_resets_exactly _ _ c v hv e1).2.2.2 hacyc
  have hv2 : val st2.store c = some (v + 1) := by rw [hkeep, a1]
  have a2 := (step_resets_exactly _ _ c (v + 1) hv2 e2).2.2.2 hacyc2
  exact ⟨a1, by rw [a2]; congr 1; omega⟩

/-- "No intervening reset or set", syntactically.  Let `A` be a family of counters closed under "is reset by"
    (decidable `closedB`; e.g. a counter together with everything above it in the reset forest).  A history in which
    no event names a counter of `A` - no object, theorem environment, `\setcounter`/`\addtocounter`/`\stepcounter`,
    `\newcounter`/`\newtheorem`, `\appendix` on one of them; list events count as naming `enumi…enumiv`
    (decidable, executable `historyAvoids`) - leaves every counter of `A` at its value, keeps `A` closed, and adds no
    declaration for a counter of `A`.  Any length, any mixture of the other constructs. -/
theorem counters_untouched_by_history (A : List String) (evs : List Ev) (st st' : St)
    (hcl : closedB (skel st.store) A = true) (hav : historyAvoids A st evs = true) (h : run st evs = .ok st') :
    (∀ x ∈ A, val st'.store x = val st.store x) ∧ closedB (skel st'.store) A = true ∧
    (∀ x ∈ A, ∀ p, (x, p) ∈ skel st'.store → (x, p) ∈ skel st.store) :=
  PlasVerif.Proofs.Untouched.history_frame A evs st st' hcl hav h

/-- Consecutive numbering over arbitrary histories, with the side condition as a decidable predicate on the history:
    two unstarred objects of the counter `c`, separated by any history that names neither `c` nor a counter above it
    (`A` closed, `c ∈ A`), carry the values `v+1` and `v+2`. -/
theorem consecutive_numbers_history (A : List String) (st st1 st2 st3 : St) (tag tag' : String) (c : Name)
    (l l' : Int) (v : Int) (evs : List Ev) (hc : c ≠ "") (hcA : c ∈ A)
    (hv : val st.store c = some v) (hacyc : ¬ Within (skel st.store) c c)
    (hcl : closedB (skel st.store) A = true)
    (h1 : step st (.construct tag c false l) = .ok st1)
    (hav : historyAvoids A st1 evs = true) (hmid : run st1 evs = .ok st2)
    (h2 : step st2 (.construct tag' c false l') = .ok st3) :
    val st1.store c = some (v + 1) ∧ val st3.store c = some (v + 2) := by
  -- the first object does not change the reset table
  obtain ⟨s, hs, hcap⟩ := construct_ok st st1 tag c l hc h1
  have hst1 : st1.store = s := capture_store _ _ _ _ _ hcap
  have hsk1 : skel st1.store = skel st.store := by
    rw [hst1]; exact PlasVerif.Proofs.EnumLists.step_enum_skel st.store s c v hv hs
  have hcl1 : closedB (skel st1.store) A = true := by rw [hsk1]; exact hcl
  have fr := PlasVerif.Proofs.Untouched.history_frame A evs st1 st2 hcl1 hav hmid
  have hacyc2 : ¬ Within (skel st2.store) c c := fun hw =>
    hacyc (by
      have := PlasVerif.Proofs.Untouched.within_old A (skel st1.store) (skel st2.store) hcl1 fr.2.2 hw hcA
      rwa [hsk1] at this)
  exact consecutive_numbers st st1 st2 st3 tag tag' c l l' v evs hc hv hacyc h1 hmid (fr.1 c hcA) hacyc2 h2

/-- non-vacuity: in book, between two subsections one may have equations, figures, theorems, lists, `\setcounter` on
    other counters …; the family above `subsection` is closed, and such a history avoids it -/
example : closedB (skel (initSt bookCounters bookThes 2).store) ["subsection", "section", "chapter", "volume"] = true := by
  decide +kernel
example : historyAvoids ["subsection", "section", "chapter", "volume"] (initSt bookCounters bookThes 2)
    [.construct "equation" "equation" false 201, .beginList, .item "item" false, .item "item" false, .endList,
     .construct "caption" "figure" false 1001, .setc "equation" 7, .newcounter "mine" (some "subsection"),
     .construct "subsubsection" "subsubsection" false 3] = true := by
  decide +kernel

/-- Numbered within: after any object of the unit `c`, every counter declared within it (a theorem counter
    `\newtheorem{thm}{..}[c]`, a `\newcounter{x}[c]`, the class's own sub-units) restarts: its value is 0. -/
theorem numbered_within_resets (st st1 : St) (tag : String) (c x : Name) (l : Int) (v w : Int)
    (hc : c ≠ "") (hv : val st.store c = some v) (hx : val st.store x = some w)
    (hwithin : Within (skel st.store) x c)
    (h1 : step st (.construct tag c false l) = .ok st1) : val st1.store x = some 0 := by
  have e1 : stepc st.store c = .ok st1.store := by
    obtain ⟨s, hs, hcap⟩ := construct_ok st st1 tag c l hc h1
    rw [capture_store _ _ _ _ _ hcap]; exact hs
  have := (step_resets_exactly _ _ c v hv e1).2.1 x hwithin
  rw [this, hx]; rfl

/-- Shared counter: theorem-like environments declared on the same counter are numbered by one sequence - the effect
    of `\begin{env}` depends on the environment only through its counter. -/
theorem shared_counter_interleaves (st : St) (e1 e2 : Name) (c : Name)
    (h1 : st.envs.lookup e1 = some c) (h2 : st.envs.lookup e2 = some c) :
    step st (.thm e1) = step st (.thm e2) := by
  simp [step, h1, h2]


/-! ## formats -/

/-- `trimLeft` strips exactly the leading `0.` groups: any number of them, and nothing else. -/
theorem trimLeft_strips_exactly (k : Nat) (t : List Char) (ht : ∀ r, t ≠ '0' :: '.' :: r) :
    trim ((List.replicate k ['0', '.']).flatten ++ t) = t := by
  induction k with
  | zero =>
    simp only [List.replicate_zero, List.flatten_nil, List.nil_append]
    unfold trim
    split
    · rename_i r; exact absurd rfl (ht r)
    · rfl
  | succ k ih =>
    simp only [List.replicate_succ, List.flatten_cons, List.cons_append, List.nil_append]
    rw [trim]; exact ih

example : trim "0.0.3".toList = ['3'] := by decide

/-- **Format evaluation is nested substitution.**  For every table of `\the…` macros, every store and every macro:
    the interpreter (the model of `TheCounter.invoke`, with its recursion budget) returns `r` for some budget exactly
    when `r` is the declarative nested substitution of the format - literal text as is, `${c.fmt}` the representation
    of the counter, `${the…}` the referenced macro's own substituted format with its own `trimLeft`. -/
theorem fmt_eval (env : TheEnv) (s : Store) (m : Name) (r : String) :
    (∃ f, evalThe f env s m = .ok r) ↔ Denotes env s m r :=
  ⟨fun ⟨f, h⟩ => PlasVerif.Proofs.Format.evalThe_sound env s f m r h,
   fun h => by
    obtain ⟨f0, h0⟩ := PlasVerif.Proofs.Format.evalThe_complete env s m r h
    exact ⟨f0, h0 f0 (Nat.le_refl _)⟩⟩

/-- The substitution is a function: a macro denotes at most one string (evaluation order and budget are irrelevant). -/
theorem fmt_eval_deterministic (env : TheEnv) (s : Store) (m : Name) (r r' : String)
    (h : Denotes env s m r) (h' : Denotes env s m r') : r = r' :=
  PlasVerif.Proofs.Format.denotes_unique env s m r r' h h'

/-- On an acyclic table (decidable rank certificate `macroRankedB`, rank bounded by the table size) the budget the
    model actually uses - one level per macro in the table, i.e. Python's recursion limit is never the issue - computes
    exactly the nested substitution. -/
theorem fmt_eval_model_fuel (env : TheEnv) (s : Store) (rank : Name → Nat) (hr : macroRankedB env rank = true)
    (m : Name) (hb : rank m ≤ env.length) (r : String) :
    evalThe (theFuel env) env s m = .ok r ↔ Denotes env s m r := by
  constructor
  · exact PlasVerif.Proofs.Format.evalThe_sound env s _ m r
  · intro h
    obtain ⟨f0, h0⟩ := PlasVerif.Proofs.Format.evalThe_complete env s m r h
    have := h0 (max f0 (theFuel env)) (by omega)
    rwa [PlasVerif.Proofs.Format.fuel_irrelevant env s rank hr (max f0 (theFuel env)) (theFuel env) m
      (by simp [theFuel]; omega) (by simp [theFuel]; omega)] at this

/-- The regenerated `\the…` tables of book and article are acyclic under the standard rank (kernel-checked on the
    tables of the current source), also after `\appendix` redefined the top unit. -/
theorem class_tables_ranked (d : Int) :
    macroRankedB (initSt bookCounters bookThes d).thes stdRank = true ∧
    macroRankedB (initSt articleCounters articleThes d).thes stdRank = true ∧
    (∀ m, stdRank m ≤ (initSt bookCounters bookThes d).thes.length) ∧
    (∀ m, stdRank m ≤ (initSt articleCounters articleThes d).thes.length) := by
  have h1 : macroRankedB (initSt bookCounters bookThes 0).thes stdRank = true := by decide +kernel
  have h2 : macroRankedB (initSt articleCounters articleThes 0).thes stdRank = true := by decide +kernel
  have h3 : (7 : Nat) ≤ (initSt bookCounters bookThes 0).thes.length := by decide
  have h4 : (7 : Nat) ≤ (initSt articleCounters articleThes 0).thes.length := by decide
  have hle : ∀ m, stdRank m ≤ 7 := fun m => by unfold stdRank; exact List.idxOf_le_length
  exact ⟨h1, h2, fun m => Nat.le_trans (hle m) h3, fun m => Nat.le_trans (hle m) h4⟩

/-- non-vacuity: in book, chapter 3 / section 2 / subsection 5 prints `3.2.5`; a figure before the first chapter
    prints `4` (`0.` trimmed), after `\appendix` the chapter prints `C` -/
example : (evalThe 23 (initSt bookCounters bookThes 2).thes
      [⟨"chapter", none, 3⟩, ⟨"section", none, 2⟩, ⟨"subsection", none, 5⟩] "thesubsection").toOption = some "3.2.5" := by
  decide +kernel
example : (evalThe 23 (initSt bookCounters bookThes 2).thes [⟨"chapter", none, 0⟩, ⟨"figure", none, 4⟩] "thefigure").toOption
    = some "4" := by decide +kernel
example : ((run (initSt bookCounters bookThes 2) [.construct "chapter" "chapter" false 0, .appendix "chapter",
      .construct "chapter" "chapter" false 0, .construct "chapter" "chapter" false 0,
      .construct "chapter" "chapter" false 0, .construct "section" "section" false 1]).toOption.map
        (·.outs.reverse.map (·.ref))) = some [some "1", some "A", some "B", some "C", some "C.1"] := by
  decide +kernel

/-- `trimLeft` removes a *prefix* only: for every string, the code's loop equals "drop the leading `0.` groups"
    (the independent definition `stripZeroGroups` of the spec).  A `0.` further to the right - `10.1`, `100.20` -
    is never touched. -/
theorem trimLeft_is_prefix_strip (t : String) : trimLeftStr t = stripZeroGroups t :=
  PlasVerif.Proofs.TrimLeft.trimLeftStr_eq t

/-- The arabic numeral of a positive number starts with a non-zero digit (so it never starts with `0.`). -/
theorem decimal_has_no_leading_zero (n : Nat) (h : 1 ≤ n) : ∃ c r, c ≠ '0' ∧ (toString n).toList = c :: r :=
  PlasVerif.Proofs.TrimLeft.repr_head n h

/-- **Figure and table numbers of the standard classes, for every chapter number and every float number** (any
    number of digits, zeros anywhere): with the class formats `\thechapter.\arabic{figure}` + `trimLeft` (decidable
    `floatFormatsB`, true for the regenerated tables) the caption prints `<chapter>.<n>` whenever the chapter number is
    positive - 10.1, 20.3, 100.20 included - and just `<n>` before the first chapter. -/
theorem float_numbers_standard (thes : TheEnv) (s : Store) (ctr : Name) (k cn fn : Nat)
    (hctr : ctr = "figure" ∨ ctr = "table") (hf : floatFormatsB thes = true)
    (hcv : valD s "chapter" = (cn : Int)) (hfv : valD s ctr = (fn : Int)) :
    evalThe (k + 2) thes s ("the" ++ ctr) =
      .ok (if cn = 0 then toString fn else toString cn ++ "." ++ toString fn) := by
  simp only [floatFormatsB, Bool.and_eq_true, beq_iff_eq] at hf
  obtain ⟨⟨h1, h2⟩, h3⟩ := hf
  refine PlasVerif.Proofs.TrimLeft.float_number thes s ctr k cn fn (by rcases hctr with h | h <;> simp [h]) ?_ h3 hcv hfv
  rcases hctr with rfl | rfl
  · exact h1
  · exact h2

/-- The same for equations of the book class (`\theequation = \thechapter.\arabic{equation}` with `trimLeft`, after the
    repair recorded in known_findings.txt): `<chapter>.<n>` in a chapter, plain `<n>` before the first one. -/
theorem book_equation_number (thes : TheEnv) (s : Store) (k cn fn : Nat)
    (hl : thes.lookup "theequation" = some { pieces := [.ref "thechapter" none, .lit ".", .ref "equation" none], trimLeft := true })
    (hc : thes.lookup "thechapter" = some { pieces := [.ref "chapter" none], trimLeft := false })
    (hcv : valD s "chapter" = (cn : Int)) (hfv : valD s "equation" = (fn : Int)) :
    evalThe (k + 2) thes s "theequation" =
      .ok (if cn = 0 then toString fn else toString cn ++ "." ++ toString fn) :=
  PlasVerif.Proofs.TrimLeft.float_number thes s "equation" k cn fn (by simp) hl hc hcv hfv

/-- the regenerated book table has that equation format -/
example : (initSt bookCounters bookThes 2).thes.lookup "theequation" =
    some { pieces := [.ref "thechapter" none, .lit ".", .ref "equation" none], trimLeft := true } := by decide +kernel
example : (evalThe 23 (initSt bookCounters bookThes 2).thes [⟨"chapter", none, 0⟩, ⟨"equation", none, 3⟩] "theequation").toOption
    = some "3" := by decide +kernel

/-- the regenerated book and article tables have these float formats (kernel-checked on the current source), and the
    model's budget is at least 2 -/
theorem class_tables_float_formats (d : Int) :
    floatFormatsB (initSt bookCounters bookThes d).thes = true ∧
    floatFormatsB (initSt articleCounters articleThes d).thes = true := by
  have h1 : floatFormatsB (initSt bookCounters bookThes 0).thes = true := by decide +kernel
  have h2 : floatFormatsB (initSt articleCounters articleThes 0).thes = true := by decide +kernel
  exact ⟨h1, h2⟩

/-- non-vacuity: chapter 10, second figure; chapter 100, table 20; no chapter yet -/
example : (evalThe 23 (initSt bookCounters bookThes 2).thes [⟨"chapter", none, 10⟩, ⟨"figure", none, 2⟩] "thefigure").toOption
    = some "10.2" := by decide +kernel
example : (evalThe 23 (initSt bookCounters bookThes 2).thes [⟨"chapter", none, 100⟩, ⟨"table", none, 20⟩] "thetable").toOption
    = some "100.20" := by decide +kernel
example : (evalThe 23 (initSt articleCounters articleThes 2).thes [⟨"chapter", none, 0⟩, ⟨"figure", none, 10⟩] "thefigure").toOption
    = some "10" := by decide +kernel

/-- The lexer of the model (the two regex passes of `TheCounter.invoke`, `Model.splitFormat`) applied to the raw
    `format` strings of the class files gives exactly the `\the…` table the theorems above are about (which the harness
    obtained with Python's `re`): kernel-checked on the regenerated tables of book and article. -/
theorem class_formats_split (d : Int) :
    (initSt bookCounters bookThes d).thes =
      bookFormats.map (fun e => ("the" ++ e.1, { pieces := splitFormat e.2.1, trimLeft := e.2.2 })) ∧
    (initSt articleCounters articleThes d).thes =
      articleFormats.map (fun e => ("the" ++ e.1, { pieces := splitFormat e.2.1, trimLeft := e.2.2 })) := by
  have h1 : (initSt bookCounters bookThes 0).thes =
      bookFormats.map (fun e => ("the" ++ e.1, { pieces := splitFormat e.2.1, trimLeft := e.2.2 })) := by decide +kernel
  have h2 : (initSt articleCounters articleThes 0).thes =
      articleFormats.map (fun e => ("the" ++ e.1, { pieces := splitFormat e.2.1, trimLeft := e.2.2 })) := by decide +kernel
  exact ⟨h1, h2⟩

example : splitFormat "${thechapter}.${section}" = [.ref "thechapter" none, .lit ".", .ref "section" none] := by decide +kernel
example : splitFormat "$part-${ a.Roman }${x.}" = [.ref "part" none, .lit "-", .ref "a" (some "Roman"), .lit "${x.}"] := by
  decide +kernel

/-- **The format lexer reads back what was spelled.**  For every well-formed list of items (any length; names and
    representations non-empty words, names non-empty `\csname`-style names such as `main-thm`, literal text non-empty,
    `$`-free and not split in two) the two regex passes of
    `TheCounter.invoke`, as modelled by `splitFormat`, turn the spelled format `${name}` / `${name.repr}` / text
    into exactly those items: no reference is missed, none invented, no character of the literal text lost. -/
theorem format_lexer_roundtrip (items : List FItem) (h : wfItems items = true) :
    splitFormat (String.ofList (renderFormat items)) = items.map FItem.toPiece :=
  PlasVerif.Proofs.Lexer.split_render items h

example : wfItems [.ref "thesection".toList none, .text ".".toList, .ref "main-thm".toList (some "Roman".toList)] = true ∧
    String.ofList (renderFormat [.ref "thesection".toList none, .text ".".toList, .ref "main-thm".toList (some "Roman".toList)])
      = "${thesection}.${main-thm.Roman}" := by decide +kernel

/-! ## entry points a user calls directly -/

/-- `\arabic{c}`, `\roman{c}`, `\Roman{c}`, `\alph{c}`, `\Alph{c}` in running text print the representation of the
    current value and change no value (a counter that did not exist is created with value 0, which is what was read). -/
theorem show_prints_representation (st st' : St) (fmt : String) (c : Name)
    (h : step st (.show fmt c) = .ok st') :
    ∃ r, represent (valD st.store c) fmt = .ok r ∧ st'.outs = ⟨"show", some r⟩ :: st.outs ∧
      (∀ x, valD st'.store x = valD st.store x) ∧ st'.thes = st.thes := by
  simp only [step, showRep] at h
  cases hr : represent (valD st.store c) fmt with
  | error e => rw [hr] at h; cases h
  | ok r =>
    rw [hr] at h
    simp only [Except.ok.injEq] at h; subst h
    refine ⟨r, rfl, rfl, fun x => ?_, rfl⟩
    simp only [valD, PlasVerif.Proofs.EnumLists.val_ensure]
    cases hx : val st.store x with
    | some v => rfl
    | none => by_cases hxc : x = c <;> simp [hxc]

/-- … in particular `\Roman{c}` prints the standard numeral of every value. -/
theorem show_roman_standard (st st' : St) (c : Name) (n : Nat) (hv : valD st.store c = (n : Int))
    (h : step st (.show "Roman" c) = .ok st') : st'.outs = ⟨"show", some (roman n)⟩ :: st.outs := by
  obtain ⟨r, hr, ho, _⟩ := show_prints_representation st st' "Roman" c h
  rw [hv, roman_standard] at hr
  rw [ho, ← Except.ok.inj hr]

example : ((step (initSt articleCounters articleThes 2) (.show "Roman" "section")).toOption.map (·.outs)) =
    some [⟨"show", some ""⟩] := by decide +kernel

/-- After `\renewcommand{\thec}{body}` a numbered object of `c` prints the nested substitution of the *user's* body
    (literal text, `\arabic{..}`-style calls, other `\the…` macros), evaluated in the stepped store - whatever the
    class had defined for `\thec`, and without any `trimLeft`. -/
theorem renewed_the_is_used (st st1 st2 : St) (c : Name) (body : List Piece) (tag : String) (level : Int)
    (hc : c ≠ "") (hlevel : st.secnumdepth ≥ level ∨ level > endSectionsLevel)
    (h1 : step st (.renewThe c body) = .ok st1)
    (h2 : step st1 (.construct tag c false level) = .ok st2) :
    ∃ parts, Subst st1.thes st2.store ("the" ++ c) body parts ∧
      st2.outs = ⟨tag, some (String.join parts)⟩ :: st.outs := by
  simp only [step, Except.ok.injEq] at h1
  have hsnd : st1.secnumdepth = st.secnumdepth := by rw [← h1]
  have hthes : st1.thes = ("the" ++ c, { pieces := body, trimLeft := false }) :: st.thes := by rw [← h1]
  have houts : st1.outs = st.outs := by rw [← h1]
  obtain ⟨s, r, _, hs, hr, ho⟩ := numbered_object_prints_the st1 st2 tag c level hc (by rw [hsnd]; exact hlevel) h2
  obtain ⟨d, parts, hl, hsub, rfl⟩ := PlasVerif.Proofs.Format.evalThe_sound _ _ _ _ _ hr
  rw [hthes] at hl
  simp only [List.lookup_cons, beq_self_eq_true, Option.some.injEq] at hl
  subst hl
  exact ⟨parts, by rw [hs]; exact hsub, by rw [ho, houts]; simp [finish]⟩

example : ((run (initSt articleCounters articleThes 2)
      [.construct "section" "section" false 1, .renewThe "subsection" [.macro "thesection", .lit "-", .call "Roman" "subsection"],
       .construct "subsection" "subsection" false 2, .construct "subsection" "subsection" false 2]).toOption.map
        (·.outs.reverse.map (·.ref))) = some [some "1", some "1-I", some "1-II"] := by decide +kernel

/-- `\appendix` wins over an earlier `\renewcommand` of the unit's `\the…` (LaTeX: `\gdef`). -/
theorem appendix_overrides_renewed (st st1 st2 : St) (c : Name) (body : List Piece)
    (h1 : step st (.renewThe c body) = .ok st1) (h2 : step st1 (.appendix c) = .ok st2) :
    st2.thes.lookup ("the" ++ c) = some { pieces := [.ref c (some "Alph")], trimLeft := false } := by
  simp only [step, Except.ok.injEq] at h1 h2
  subst h1; subst h2
  simp

/-- `\setcounter{n}{\value{m}}` copies the current value of `m` into `n` and changes nothing else. -/
theorem value_is_copied (st st' : St) (n m : Name) (h : step st (.setcv n m) = .ok st') :
    val st'.store n = some (valD st.store m) ∧ ∀ x, x ≠ n → valD st'.store x = valD st.store x := by
  simp only [step, Except.ok.injEq] at h; subst h
  refine ⟨by simp [PlasVerif.Proofs.EnumLists.val_setc], fun x hx => ?_⟩
  simp only [valD, PlasVerif.Proofs.EnumLists.val_setc, hx, if_false, PlasVerif.Proofs.EnumLists.val_ensure]
  cases hv : val st.store x with
  | some v => rfl
  | none => by_cases hxm : x = m <;> simp [hxm]

/-- The `--counter n v` option ("initial value"): the first object of an existing counter `n` is numbered `v`. -/
theorem initial_counter_option (st st1 st2 : St) (n : Name) (v w : Int) (tag : String) (level : Int)
    (hn : n ≠ "") (hex : val st.store n = some w) (hacyc : ¬ Within (skel st.store) n n)
    (h1 : step st (.initc n v) = .ok st1) (h2 : step st1 (.construct tag n false level) = .ok st2) :
    val st2.store n = some v := by
  simp only [step, Except.ok.injEq] at h1; subst h1
  obtain ⟨s, hs, hcap⟩ := construct_ok _ st2 tag n level hn h2
  have hst : st2.store = s := capture_store _ _ _ _ _ hcap
  have he : ensure st.store n = st.store := by simp [ensure, hex]
  have hv : val (setc st.store n (v - 1)) n = some (v - 1) := by simp [PlasVerif.Proofs.EnumLists.val_setc]
  have hsk : skel (setc st.store n (v - 1)) = skel st.store := by
    rw [PlasVerif.Proofs.EnumLists.skel_setc, he]
  have := (step_resets_exactly _ s n (v - 1) hv hs).2.2.2 (by rw [hsk]; exact hacyc)
  rw [hst, this]; congr 1; omega

example : ((run (initSt bookCounters bookThes 2) [.initc "chapter" 5, .construct "chapter" "chapter" false 0,
      .construct "section" "section" false 1]).toOption.map (·.outs.reverse.map (·.ref))) =
    some [some "5", some "5.1"] := by decide +kernel

/-- Known finding `roman-chapter-zero-float` (kernel-checked on the witness): with `\thechapter` redefined as
    `\Roman{chapter}` and no chapter yet, the model - like the code - prints `.1` for the first figure, where LaTeX's
    rule (the oracle `lrun`) prints `1`. -/
theorem known_roman_chapter_zero_float :
    ((run (initSt bookCounters bookThes 2) [.renewThe "chapter" [.call "Roman" "chapter"],
        .construct "caption" "figure" false 1001]).toOption.map (·.outs.map (·.ref))) = some [some ".1"] ∧
    ((lrun (linit .book 2) [.renewThe "chapter" [.call "Roman" "chapter"],
        .construct "caption" "figure" false 1001]).map (·.outs.map (·.ref))) = some [some "1"] := by
  decide +kernel

/-! ## lists -/

/-- In a list at nesting depth 1..4 an unlabelled `\item` is a numbered object of `enumi` … `enumiv`. -/
theorem item_uses_depth_counter (st : St) (tag : String) :
    (st.depth = 1 → step st (.item tag false) = step st (.construct tag "enumi" false commandLevel)) ∧
    (st.depth = 2 → step st (.item tag false) = step st (.construct tag "enumii" false commandLevel)) ∧
    (st.depth = 3 → step st (.item tag false) = step st (.construct tag "enumiii" false commandLevel)) ∧
    (st.depth = 4 → step st (.item tag false) = step st (.construct tag "enumiv" false commandLevel)) := by
  refine ⟨fun h => ?_, fun h => ?_, fun h => ?_, fun h => ?_⟩ <;>
    simp [step, h, pyIndex, listCounters]

/-- The regenerated class tables satisfy the list well-formedness predicate (decidable, checked by the kernel on the
    tables of the current source): in the state right after `\documentclass{book}` / `{article}` the four list
    counters exist and are 0, a list counter is reset only by list counters of outer levels (`enumChainB`),
    `\theenum…` is `\arabic{enum…}`, and no list is open. -/
theorem class_tables_list_wellformed (d : Int) :
    ListInv (initSt bookCounters bookThes d) [] ∧ ListInv (initSt articleCounters articleThes d) [] := by
  have hb : ListInv (initSt bookCounters bookThes 0) [] := by decide +kernel
  have ha : ListInv (initSt articleCounters articleThes 0) [] := by decide +kernel
  -- `ListInv` does not look at `secnumdepth`
  exact ⟨hb, ha⟩

/-- The invariant of `List.invoke` - every list counter at index ≥ depth is 0, the counter of every open list holds
    its item count - is preserved by every event of a well-nested history that does not manipulate `enumi…enumiv`
    explicitly (`listSafe`): sectioning, equations, captions, theorem-like environments, `\setcounter` & co. on other
    counters, `\newcounter`, `\newtheorem`, `\appendix`, and the list events themselves at any nesting ≤ 4. -/
theorem list_invariant_preserved (st st' : St) (stk stk' : List Nat) (e : Ev) (hinv : ListInv st stk)
    (hsafe : listSafe e = true) (hstk : stackStep stk e = some stk') (h : step st e = .ok st') :
    ListInv st' stk' :=
  PlasVerif.Proofs.EnumLists.listInv_step st st' stk stk' e hinv hsafe hstk h

/-- … and therefore by whole histories. -/
theorem list_invariant_history (evs : List Ev) (st st' : St) (stk stk' : List Nat) (hinv : ListInv st stk)
    (hsafe : ∀ e ∈ evs, listSafe e = true) (hstk : stackAfter stk evs = some stk') (h : run st evs = .ok st') :
    ListInv st' stk' :=
  PlasVerif.Proofs.EnumLists.listInv_run evs st st' stk stk' hinv hsafe hstk h

/-- **Enumerate items count 1, 2, 3 … within their list, restarting in every nested list; `\item[label]` does not
    count.**  After *any* history `pre` (any length, any mixture of the numbered constructs, counter manipulation,
    declarations and nested lists up to four deep) that does not touch `enumi…enumiv` explicitly, started in a state
    consistent with the stack `stk` of open lists (e.g. right after `\documentclass`, `class_tables_list_wellformed`),
    an unlabelled `\item` prints `k + 1`, where `k` is the number of unlabelled items the innermost open list has had so
    far - `stackAfter` is LaTeX's stack discipline: `\begin{list}` pushes 0 (so every list, nested or not, restarts at
    1), `\end{list}` pops (so the outer list continues where it was), an unlabelled item adds one, a labelled item and
    every other event leave the counts alone. -/
theorem enumerate_counts_from_one (st st1 st2 : St) (stk r : List Nat) (k : Nat) (pre : List Ev) (tag : String)
    (hinv : ListInv st stk) (hsafe : ∀ e ∈ pre, listSafe e = true)
    (hpre : run st pre = .ok st1) (hstk : stackAfter stk pre = some (k :: r))
    (hitem : step st1 (.item tag false) = .ok st2) :
    st2.outs = ⟨tag, some (toString (k + 1))⟩ :: st1.outs ∧ ListInv st2 ((k + 1) :: r) := by
  have hinv1 := PlasVerif.Proofs.EnumLists.listInv_run pre st st1 stk (k :: r) hinv hsafe hstk hpre
  exact ⟨PlasVerif.Proofs.EnumLists.item_prints st1 st2 k r tag hinv1 hitem,
    PlasVerif.Proofs.EnumLists.listInv_step st1 st2 (k :: r) ((k + 1) :: r) (.item tag false) hinv1 rfl
      (by simp [stackStep]) hitem⟩

/-- … and on an acyclic store (height function as in `reset_terminates`) the item never raises. -/
theorem enumerate_item_returns (st : St) (k : Nat) (r : List Nat) (tag : String) (hinv : ListInv st (k :: r))
    (h : Name → Nat) (hr : Ranked (skel st.store) h) (hb : ∀ x, h x ≤ st.store.length) :
    ∃ st', step st (.item tag false) = .ok st' :=
  PlasVerif.Proofs.EnumLists.item_returns st k r tag hinv h hr hb

/-- The same for a whole list program: a history of `\begin{list}` / `\end{list}` / `\item` / `\item[label]` events
    (any length, nesting ≤ 4) prints exactly LaTeX's item trace - 1, 2, 3 … in every list, nothing for labelled items. -/
theorem enumerate_program_prints (evs : List Ev) (st st' : St) (stk : List Nat) (outs : List Out)
    (hinv : ListInv st stk) (htrace : itemTrace stk evs = some outs) (h : run st evs = .ok st') :
    st'.outs = outs.reverse ++ st.outs :=
  PlasVerif.Proofs.EnumLists.itemTrace_run evs st st' stk outs hinv htrace h

/-- non-vacuity: `enumerate{ item item enumerate{ item item[x] item } item enumerate{ item } }` from the book class
    prints 1 2 (1 - 2) 3 (1) -/
example : itemTrace [] [.beginList, .item "i" false, .item "i" false, .beginList, .item "i" false, .item "i" true,
      .item "i" false, .endList, .item "i" false, .beginList, .item "i" false, .endList, .endList]
    = some [⟨"i", some "1"⟩, ⟨"i", some "2"⟩, ⟨"i", some "1"⟩, ⟨"i", none⟩, ⟨"i", some "2"⟩, ⟨"i", some "3"⟩,
            ⟨"i", some "1"⟩] := by decide +kernel

example : ((run (initSt bookCounters bookThes 2) [.beginList, .item "i" false, .item "i" false, .beginList,
      .item "i" false, .item "i" true, .item "i" false, .endList, .item "i" false, .beginList, .item "i" false,
      .endList, .endList]).toOption.map (·.outs.reverse.map (·.ref)))
    = some [some "1", some "2", some "1", none, some "2", some "3", some "1"] := by decide +kernel

end PlasVerif.Properties.C08
