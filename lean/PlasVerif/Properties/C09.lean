import PlasVerif.Proofs.LabelsInv
import PlasVerif.Proofs.ParseEvents
/-!
# C09 — Every reference resolves to the object its label names, wherever the label is

Property theorems only; helper lemmas are in `Proofs/Labels.lean` (frame lemmas, `attach`,
identifiers, numbers) and `Proofs/LabelsInv.lean` (the pending-queue invariant).

All theorems are about `run h`, the state of the model of `Context.label`/`Context.ref` after
an arbitrary history `h` (any length, any interleaving of numbering, labels and references).
`LabelsDistinct` is NF-doc "labels pairwise distinct"; `RefKeysDistinct` says each reference fills
its own slot of its own object (a `\ref` node parses its argument once).
-/
namespace PlasVerif.Properties.C09
open PlasVerif.Model.Labels PlasVerif.Spec.Crossref PlasVerif.Proofs.Labels

/-- a history used by the non-vacuity examples: a forward reference, a backward reference, a
    reference from inside the object, a second slot, a dangling reference, a blank label -/
def demo : List Op :=
  [.ref 1 0 5, .numbered 10, .ref 2 0 5, .label 5 none, .number 10 3, .ref 3 0 5, .ref 3 1 7,
   .numbered 11, .label 0 none, .label 6 none, .ref 4 0 6, .ref 5 0 9, .number 11 4]

/-- **Core theorem.**  After any history with pairwise distinct labels, every reference
    `(r, s, l)` holds exactly the object that `l` names (`attach h l`: the object current at the
    `\label{l}` event) if `l` is labelled anywhere in `h` — before or after the reference — and a
    placeholder that is no object otherwise. -/
theorem resolve_order_independent (h : List Op) (hl : LabelsDistinct h) (hr : RefKeysDistinct h)
    (r : RefId) (s : Slot) (l : Label) (h0 : l ≠ 0) (hm : Op.ref r s l ∈ h) :
    (run h).idref r s = some (match attach h l with
                              | some n => .node n
                              | none => .placeholder l) := by
  have hi := inv_run h hl hr
  have h1 := (hi.refsOk r s l h0 hm).1
  have h2 : (run h).labels l = attach h l := run_labels h hl l
  rw [h1]; unfold target; rw [h2]
  cases attach h l <;> rfl

example : LabelsDistinct demo ∧ RefKeysDistinct demo := by decide
example : (run demo).idref 1 0 = some (.node 10) ∧ (run demo).idref 3 0 = some (.node 10) ∧
    (run demo).idref 5 0 = some (.placeholder 9) := by decide

/-- The same in the property's vocabulary: the meaning of what the reference holds is
    `resolveSpec h l`, which never looks at reference events. -/
theorem resolves_to_spec (h : List Op) (hl : LabelsDistinct h) (hr : RefKeysDistinct h)
    (r : RefId) (s : Slot) (l : Label) (h0 : l ≠ 0) (hm : Op.ref r s l ∈ h) :
    ((run h).idref r s).map Target.meaning = some (resolveSpec h l) := by
  rw [resolve_order_independent h hl hr r s l h0 hm, resolveSpec]
  cases attach h l <;> rfl

example : ((run demo).idref 2 0).map Target.meaning = some (.object 10) := by decide

/-- The outcome does not depend on where the references stand: two histories with the same
    `numbered`/`label` skeleton (references moved anywhere, across their labels, reordered,
    added or removed) give every common reference the same value. -/
theorem permutation_invariant (h h' : List Op) (hs : skeleton h = skeleton h')
    (hl : LabelsDistinct h) (hr : RefKeysDistinct h) (hl' : LabelsDistinct h') (hr' : RefKeysDistinct h')
    (r : RefId) (s : Slot) (l : Label) (h0 : l ≠ 0) (hm : Op.ref r s l ∈ h) (hm' : Op.ref r s l ∈ h') :
    (run h).idref r s = (run h').idref r s := by
  rw [resolve_order_independent h hl hr r s l h0 hm, resolve_order_independent h' hl' hr' r s l h0 hm']
  have : attach h l = attach h' l := by
    unfold attach
    rw [← attachFrom_skeleton h, ← attachFrom_skeleton h', hs]
  rw [this]

example : skeleton demo = skeleton ([.numbered 10, .label 5 none, .number 10 3, .numbered 11, .label 0 none,
    .label 6 none, .number 11 4, .ref 1 0 5]) := by decide

/-- References to labels that do not exist resolve to no object at all (and stay queued). -/
theorem dangling_resolve_to_no_object (h : List Op) (hl : LabelsDistinct h) (hr : RefKeysDistinct h)
    (r : RefId) (s : Slot) (l : Label) (h0 : l ≠ 0) (hm : Op.ref r s l ∈ h) (hd : l ∉ labelNames h) :
    (run h).idref r s = some (.placeholder l) ∧
    ((run h).idref r s).map Target.meaning = some .noObject ∧
    ∃ objs, (run h).refs l = some objs ∧ r ∈ objs := by
  have ha : attach h l = none := attachFrom_not_named h none l hd
  have h1 := resolve_order_independent h hl hr r s l h0 hm
  rw [ha] at h1
  refine ⟨h1, by rw [h1]; rfl, ?_⟩
  have hi := inv_run h hl hr
  apply (hi.refsOk r s l h0 hm).2
  rw [run_labels h hl l, ha]

example : Op.ref 5 0 9 ∈ demo ∧ 9 ∉ labelNames demo := by decide

/-- A `\label` written in a numbered object — after the object was numbered and before any other
    object is numbered, in particular directly after a sectioning command — attaches to that
    object: the table maps the label to it, whatever stands before, between and after. -/
theorem label_after_section_attaches_to_it (pre mid post : List Op) (n : NodeId) (l : Label) (h0 : l ≠ 0)
    (hl : LabelsDistinct (pre ++ .numbered n :: mid ++ .label l none :: post))
    (hmid : ∀ op ∈ mid, isNumbered op = false) :
    (run (pre ++ .numbered n :: mid ++ .label l none :: post)).labels l = some n ∧
    attach (pre ++ .numbered n :: mid ++ .label l none :: post) l = some n := by
  have key : attach (pre ++ .numbered n :: mid ++ .label l none :: post) l = some n := by
    have hnames : (labelNames pre ++ (labelNames mid ++ l :: labelNames post)).Nodup := by
      have := hl
      simpa [LabelsDistinct, labelNames_append, labelNames, h0] using this
    have hpre : l ∉ labelNames pre := by
      intro hm
      exact (List.nodup_append.1 hnames).2.2 l hm l (by simp) rfl
    have hmidn : l ∉ labelNames mid := by
      intro hm
      have := (List.nodup_append.1 (List.nodup_append.1 hnames).2.1).2.2 l hm l (by simp) rfl
      exact this
    -- walk over `pre`, then over `mid`
    have walk_pre : ∀ (pre : List Op) (cur : Option NodeId) (rest : List Op), l ∉ labelNames pre →
        attachFrom cur (pre ++ .numbered n :: rest) l = attachFrom (some n) rest l := by
      intro pre
      induction pre with
      | nil => intro cur rest _; simp [attachFrom]
      | cons op pre ih =>
        intro cur rest hp
        cases op with
        | numbered m => simpa [attachFrom] using ih (some m) rest (by simpa [labelNames] using hp)
        | number m v => simpa [attachFrom] using ih cur rest (by simpa [labelNames] using hp)
        | ref r s l' => simpa [attachFrom] using ih cur rest (by simpa [labelNames] using hp)
        | label l' nd =>
          by_cases h0' : l' = 0
          · simpa [attachFrom, h0'] using ih cur rest (by simpa [labelNames, h0'] using hp)
          · have hp2 : l ≠ l' ∧ l ∉ labelNames pre := by simpa [labelNames, h0'] using hp
            simpa [attachFrom, Ne.symm hp2.1] using ih cur rest hp2.2
    have walk_mid : ∀ (mid : List Op) (rest : List Op), l ∉ labelNames mid →
        (∀ op ∈ mid, isNumbered op = false) →
        attachFrom (some n) (mid ++ .label l none :: rest) l = some n := by
      intro mid
      induction mid with
      | nil => intro rest _ _; simp [attachFrom, h0, named]
      | cons op mid ih =>
        intro rest hp hnum
        have hnum' : ∀ op ∈ mid, isNumbered op = false := fun o ho => hnum o (List.mem_cons_of_mem _ ho)
        cases op with
        | numbered m => have := hnum (.numbered m) (by simp); simp [isNumbered] at this
        | number m v => simpa [attachFrom] using ih rest (by simpa [labelNames] using hp) hnum'
        | ref r s l' => simpa [attachFrom] using ih rest (by simpa [labelNames] using hp) hnum'
        | label l' nd =>
          by_cases h0' : l' = 0
          · simpa [attachFrom, h0'] using ih rest (by simpa [labelNames, h0'] using hp) hnum'
          · have hp2 : l ≠ l' ∧ l ∉ labelNames mid := by simpa [labelNames, h0'] using hp
            simpa [attachFrom, Ne.symm hp2.1] using ih rest hp2.2 hnum'
    unfold attach
    have e : pre ++ Op.numbered n :: mid ++ Op.label l none :: post
        = pre ++ Op.numbered n :: (mid ++ Op.label l none :: post) := by simp
    rw [e, walk_pre pre none _ hpre, walk_mid mid post hmidn hmid]
  refine ⟨?_, key⟩
  rw [run_labels _ hl l, key]

example : (run ([.ref 1 0 5, .numbered 10] ++ [.ref 2 0 5, .number 10 3] ++ .label 5 none :: [.numbered 11])).labels 5
    = some 10 := by decide

/-- The label becomes the identifier of its object: with pairwise distinct objects per label,
    the `@id` of the object that `l` names is `l` at the end of every history. -/
theorem label_becomes_identifier (h : List Op) (ho : ObjectsLabelledOnce h)
    (l : Label) (n : NodeId) (ha : attach h l = some n) :
    (run h).ids n = some l := by
  have h1 := ids_eq_identFrom h init n
  have h2 := identFrom_attach h none none l n ho ha
  simpa [run, init, h2] using h1

/-- In general (an object may carry several labels) the identifier is the label attached last. -/
theorem identifier_is_last_label (h : List Op) (n : NodeId) : (run h).ids n = identOf h n := by
  simpa [run, init, identOf] using ids_eq_identFrom h init n

example : ObjectsLabelledOnce demo ∧ attach demo 5 = some 10 ∧ (run demo).ids 10 = some 5 := by decide

/-- Distinct labels give distinct identifiers (and name distinct objects). -/
theorem distinct_labels_distinct_ids (h : List Op) (ho : ObjectsLabelledOnce h)
    (l l' : Label) (n n' : NodeId) (ha : attach h l = some n) (ha' : attach h l' = some n') (hne : l ≠ l') :
    (run h).ids n ≠ (run h).ids n' ∧ n ≠ n' := by
  have h1 := label_becomes_identifier h ho l n ha
  have h2 := label_becomes_identifier h ho l' n' ha'
  constructor
  · rw [h1, h2]; intro e; exact hne (Option.some.inj e)
  · intro e; rw [e, h2] at h1; exact hne (Option.some.inj h1).symm

example : attach demo 5 = some 10 ∧ attach demo 6 = some 11 := by decide

/-- The printed number of a reference is the number of the object its label names. -/
theorem ref_number_is_target_number (h : List Op) (hl : LabelsDistinct h) (hr : RefKeysDistinct h)
    (r : RefId) (s : Slot) (l : Label) (h0 : l ≠ 0) (hm : Op.ref r s l ∈ h) :
    printed (run h) r s = match attach h l with
                          | some n => numberOf h n
                          | none => none := by
  unfold printed
  rw [resolve_order_independent h hl hr r s l h0 hm]
  cases attach h l with
  | none => rfl
  | some n => simpa [run, init, numberOf] using nums_eq_numberFrom h init n

example : printed (run demo) 1 0 = some 3 ∧ printed (run demo) 4 0 = some 4 ∧ printed (run demo) 5 0 = none := by
  decide

/-- A label that exists somewhere gives an object, never the placeholder. -/
theorem existing_label_resolves_to_its_object (h : List Op) (hl : LabelsDistinct h) (hr : RefKeysDistinct h)
    (r : RefId) (s : Slot) (l : Label) (h0 : l ≠ 0) (hm : Op.ref r s l ∈ h) (n : NodeId)
    (ha : attach h l = some n) : ((run h).idref r s).map Target.meaning = some (.object n) := by
  rw [resolve_order_independent h hl hr r s l h0 hm, ha]; rfl

/-! ### labels pre-loaded from other jobs (`Context.restore`, `Compile.parse`) -/

/-- **Pre-loaded labels do not disturb the document's own references.**  Start from any state that
    `Context.restore` can leave (`Inv R [] st0`, `R` = the restored labels).  If no label written in the
    document is among the restored ones, every reference to a label of the document resolves exactly
    as in `resolve_order_independent` (before or after its label), and every other reference holds
    what the restored table says (the foreign object, or a placeholder). -/
theorem resolve_with_restored {R : Label → Prop} (st0 : State) (hst : Inv R [] st0) (h : List Op)
    (hl : LabelsDistinct h) (hr : RefKeysDistinct h) (hR : ∀ l ∈ labelNames h, ¬ R l)
    (r : RefId) (s : Slot) (l : Label) (h0 : l ≠ 0) (hm : Op.ref r s l ∈ h) :
    (runFrom st0 h).idref r s = some (
      if l ∈ labelNames h then
        (match attachFrom st0.current h l with
         | some n => .node n
         | none => .placeholder l)
      else
        (match st0.labels l with
         | some n => .node n
         | none => .placeholder l)) := by
  have hi := inv_runFrom st0 hst h hl hr hR
  have h1 := (hi.refsOk r s l h0 hm).1
  rw [h1]; unfold target
  by_cases hmem : l ∈ labelNames h
  · have hnone : st0.labels l = none := by
      cases hc : st0.labels l with
      | none => rfl
      | some n =>
        rcases hst.labelled l n hc with h' | h'
        · simp [labelNames] at h'
        · exact absurd h' (hR l hmem)
    have := labels_eq_attachFrom h st0 l hl hnone
    simp only [runFrom, this, hmem, if_true]
    cases attachFrom st0.current h l <;> rfl
  · have := labels_unchanged h st0 l hmem
    simp only [runFrom, this, hmem, if_false]
    cases st0.labels l <;> rfl

/-- `Compile.parse` never looks at the job's own `.paux`: whatever a previous run of the same job
    left behind has no influence on the parse. -/
theorem own_paux_is_ignored (job : Nat) (files : List PauxFile) (stale : List Entry) (h : List Op) :
    compileParse job (⟨job, stale⟩ :: files) h = compileParse job files h := by
  simp [compileParse, List.filter_cons]

/-- The command-line pipeline: with the other jobs' labels pairwise distinct and distinct from the
    document's own labels, every reference to a label of the document resolves to the object current
    at its `\label` (or to a placeholder if that names nothing), whatever `.paux` files are around —
    in particular a stale one of the same job. -/
theorem compile_resolves_current_document (job : Nat) (files : List PauxFile) (h : List Op)
    (hl : LabelsDistinct h) (hr : RefKeysDistinct h)
    (hlabs : (((files.filter (fun f => f.job ≠ job)).flatMap PauxFile.entries).map Entry.lab).Nodup)
    (hnodes : (((files.filter (fun f => f.job ≠ job)).flatMap PauxFile.entries).map Entry.node).Nodup)
    (hdis : ∀ l ∈ labelNames h, l ∉ ((files.filter (fun f => f.job ≠ job)).flatMap PauxFile.entries).map Entry.lab)
    (r : RefId) (s : Slot) (l : Label) (h0 : l ≠ 0) (hm : Op.ref r s l ∈ h) (hown : l ∈ labelNames h) :
    (compileParse job files h).idref r s = some (match attach h l with
                                                 | some n => .node n
                                                 | none => .placeholder l) := by
  unfold compileParse
  rw [foldl_restoreAll]
  have hst := inv_restoreAll _ hlabs hnodes
  have := resolve_with_restored _ hst h hl hr hdis r s l h0 hm
  rw [this]
  simp only [hown, if_true, restoreAll_current, attach]
  rfl

/-- a second run of job 1 after an edit: the stale `.paux` of job 1 still lists label 5 (on the old
    object 99, number 2) and the removed label 6; job 2 contributes label 7 -/
def demoFiles : List PauxFile := [⟨1, [⟨5, 99, 2⟩, ⟨6, 98, 1⟩]⟩, ⟨2, [⟨7, 97, 4⟩]⟩]
def demoDoc : List Op :=
  [.ref 1 0 5, .ref 2 0 6, .ref 3 0 7, .numbered 10, .number 10 1, .numbered 11, .number 11 3, .label 5 none, .ref 4 0 5]

example : (compileParse 1 demoFiles demoDoc).idref 1 0 = some (.node 11) ∧
    (compileParse 1 demoFiles demoDoc).idref 4 0 = some (.node 11) ∧
    (compileParse 1 demoFiles demoDoc).idref 2 0 = some (.placeholder 6) ∧
    (compileParse 1 demoFiles demoDoc).idref 3 0 = some (.node 97) ∧
    printed (compileParse 1 demoFiles demoDoc) 1 0 = some 3 := by decide

/-- Why the own file must be skipped (and why `hR` is needed): a loader that also restores the stale
    entries of the same job makes the forward references hold the old detached object with the old
    number, the backward one the real object, and a reference to a removed label an object. -/
theorem stale_own_labels_counterexample :
    let st := runFrom (restoreAll init (demoFiles.flatMap PauxFile.entries)) demoDoc
    st.idref 1 0 = some (.node 99) ∧ st.idref 4 0 = some (.node 11) ∧ st.idref 2 0 = some (.node 98) ∧
    printed st 1 0 = some 2 := by decide

/-! ### which object is current: the event protocol of `Macro.parse` -/
section ParseProtocol
open PlasVerif.Model.ParseEvents PlasVerif.Proofs.ParseEvents

/-- a `\section*`-like call with a counter: `\T*{title \label{5} \ref{6}}[opt]{\N7 \label{6}}` -/
def demoCall : MacroCall :=
  { node := 1, counter := .named, num := 4, numberedLevel := true,
    args := [⟨true, false, []⟩, ⟨false, true, [.label 5 none, .ref 1 0 6]⟩, ⟨false, false, []⟩,
             ⟨false, true, [.numbered 7, .number 7 1, .label 6 none]⟩] }

/-- **A `\label` written in any argument of a numbered macro names that macro** — the title of a
    sectioning command, a caption, the optional title of a theorem — wherever in the argument list
    it stands, as long as no nested numbered object precedes it inside the call; and this holds in
    any document around the call.  (The macro becomes `currentlabel` before the first argument
    with content is read; `Macro.parse` with any signature, starred or not.) -/
theorem label_in_argument_names_the_macro (m : MacroCall) (hc : m.counter ≠ .none)
    (hmod : ∀ a ∈ m.args, a.isModifier = true → a.content = [])
    (before after c1 c2 : List Op) (l : Label) (h0 : l ≠ 0)
    (hsplit : contents m.args = c1 ++ .label l none :: c2)
    (hnum : ∀ op ∈ c1, isNumbered op = false)
    (hl : LabelsDistinct (before ++ parse m ++ after)) :
    attach (before ++ parse m ++ after) l = some m.node ∧
    (run (before ++ parse m ++ after)).labels l = some m.node := by
  have e : before ++ parse m ++ after =
      before ++ .numbered m.node :: c1 ++ .label l none ::
        (c2 ++ postParse m.node (finalCtr m) m.num m.numberedLevel ++ after) := by
    rw [parse_countered m hc hmod, hsplit]; simp
  rw [e] at hl ⊢
  have := label_after_section_attaches_to_it before c1
    (c2 ++ postParse m.node (finalCtr m) m.num m.numberedLevel ++ after) m.node l h0 hl hnum
  exact ⟨this.2, this.1⟩

example : (run ([.numbered 90, .ref 2 0 5] ++ parse demoCall ++ [.ref 3 0 5])).labels 5 = some 1 ∧
    (run ([.numbered 90, .ref 2 0 5] ++ parse demoCall ++ [.ref 3 0 5])).idref 2 0 = some (.node 1) ∧
    (run (parse demoCall)).labels 6 = some 7 := by decide

/-- A label directly after a numbered macro call (any signature) names it too: nothing after the
    first argument makes another object current except nested numbered objects in the arguments. -/
theorem label_after_call_names_the_macro (m : MacroCall) (hc : m.counter ≠ .none)
    (hmod : ∀ a ∈ m.args, a.isModifier = true → a.content = [])
    (hnum : ∀ op ∈ contents m.args, isNumbered op = false)
    (before after : List Op) (l : Label) (h0 : l ≠ 0)
    (hl : LabelsDistinct (before ++ parse m ++ .label l none :: after)) :
    attach (before ++ parse m ++ .label l none :: after) l = some m.node := by
  have e : before ++ parse m ++ .label l none :: after =
      before ++ .numbered m.node :: (contents m.args ++ postParse m.node (finalCtr m) m.num m.numberedLevel)
        ++ .label l none :: after := by
    rw [parse_countered m hc hmod]
  rw [e] at hl ⊢
  refine (label_after_section_attaches_to_it before _ after m.node l h0 hl ?_).2
  intro op hop
  rcases List.mem_append.1 hop with h | h
  · exact hnum op h
  · unfold postParse at h; split at h
    · have : op = .number m.node m.num := by simpa using h
      rw [this]; rfl
    · cases h

example : attach (parse { demoCall with args := [⟨false, true, [.ref 1 0 6]⟩] } ++ [.label 9 none]) 9 = some 1 := by decide

/-- The starred form (`\section*{…}`) is the current object but gets no number: a `\label` after it
    resolves to an object that prints nothing. -/
theorem starred_macro_is_current_and_unnumbered (m : MacroCall) (as : List Arg)
    (hargs : m.args = ⟨true, true, []⟩ :: as) :
    parse m = .numbered m.node :: contents as :=
  parse_starred m as hargs

example : parse { demoCall with args := [⟨true, true, []⟩, ⟨false, true, [.label 5 none]⟩] }
    = [.numbered 1, .label 5 none] := by decide

/-- A macro without counter never becomes the current object: labels in and after it keep naming
    the enclosing numbered object. -/
theorem uncountered_macro_is_transparent (m : MacroCall) (hc : m.counter = .none)
    (hstar : ∀ a as, m.args = a :: as → ¬ (a.isModifier = true ∧ a.given = true)) :
    parse m = contents m.args :=
  parse_uncountered m hc hstar

example : parse { demoCall with counter := .none } = [.label 5 none, .ref 1 0 6, .numbered 7, .number 7 1, .label 6 none] := by
  decide

end ParseProtocol

end PlasVerif.Properties.C09
