import PlasVerif.Proofs.DigestSec
import PlasVerif.Proofs.Charsubs
/-!
# C07 — Parsing loses, duplicates or reorders no text and yields a well-formed tree

Property theorems only (helpers in `Proofs/Digest.lean`).  `leaves` is the depth-first reading
of the property (arguments first, then children); a stream is a list of trees because the code
pushes already-digested items back.
-/
namespace PlasVerif.Properties.C07
open PlasVerif.Model.Digest PlasVerif.Spec.DocTree PlasVerif.Proofs.Digest PlasVerif.Generated.Digest

/-! ## text conservation -/

/-- **No duplication, no reordering — for every stream, balanced or not, every fuel.**  Whatever
    `t.digest(tokens)` returns, the reading of the node followed by the unread stream is a
    subsequence of the reading before the call: nothing is read twice, nothing changes order. -/
theorem digest_no_dup_no_reorder (f : Nat) (t : Tree) (s : List Tree) (t' : Tree) (s' : List Tree)
    (h : digest f t s = some (t', s')) :
    (leaves t' ++ leavesL s').Sublist (leaves t ++ leavesL s) :=
  (digest_loop_sub f).1 t s t' s' h

/-- the same for the whole parse (`TeX.parse`): the reading of the result is a subsequence of the stream -/
theorem parse_no_dup_no_reorder (s out : List Tree) (h : parse s = some out) :
    (leavesL out).Sublist (leavesL s) := by
  have := top_sub _ _ _ _ h
  simpa [leavesL] using this

/-- and for an argument fragment (`expandTokens` + `normalize`) -/
theorem fragment_no_dup_no_reorder (cs : Bool) (s out : List Tree) (h : parseFragment cs s = some out) :
    (leavesL out).Sublist (leavesL s) := by
  unfold parseFragment at h
  cases hp : parse s with
  | none => simp [hp] at h
  | some ts =>
    simp only [hp, Option.map_some, Option.some.injEq] at h
    subst h
    have h1 := normKids_sub cs .out ts []
    simp only [srcs, List.flatMap_nil, List.nil_append] at h1
    exact h1.trans (parse_no_dup_no_reorder s ts hp)

def secItem (n : Nat) (lvl : Int) : Item :=
  { ref := .item n, elem := true, level := lvl, depth := 2, block := true, dk := .sec, ty := 3, modeEnd := false,
    egroup := false, isItem := false, ws := false, dynws := false, setctr := false, forcePars := false, nosub := false,
    chars := [], src := [], argLeaves := [n] }
def txt (n : Nat) (c : List Nat) : Tree :=
  .node { ref := .item n, elem := false, level := characterLevel, depth := 2, block := false, dk := .none, ty := 0,
          modeEnd := false, egroup := false, isItem := false, ws := false, dynws := false, setctr := false,
          forcePars := false, nosub := false, chars := c, src := [n], argLeaves := [] } .unset []

/-- non-vacuity: `\section{..}ab\subsection{..}c\section{..}d` is parsed and every word is kept, in order -/
example : (parse [.node (secItem 1 1) .unset [], txt 2 [97], txt 3 [98], .node (secItem 4 2) .unset [], txt 5 [99],
                  .node (secItem 6 1) .unset [], txt 7 [100]]).map leavesL = some [1, 2, 3, 4, 5, 6, 7] := by decide

/-- **Conservation (no loss, no duplication, no reordering)** — for every stream satisfying the
    decidable hypothesis `clean` (blank text and swallowed closers carry no word, paragraph tokens and
    swallowed tokens have an inert digest, text nodes have no children; the driver evaluates it on every
    recorded stream): whatever `t.digest(tokens)` absorbs, the reading of the node followed by the unread
    stream is *exactly* the reading before the call.  No balance assumption, every fuel. -/
theorem digest_conserves_step (f : Nat) (t : Tree) (s : List Tree) (t' : Tree) (s' : List Tree)
    (ht : clean t = true) (hs : cleanL s = true) (h : digest f t s = some (t', s')) :
    leaves t' ++ leavesL s' = leaves t ++ leavesL s :=
  (digest_loop_eq f).1 t s t' s' ht hs h

/-- … and the result is again clean (the invariant the equality rests on) -/
theorem digest_preserves_clean (f : Nat) (t : Tree) (s : List Tree) (t' : Tree) (s' : List Tree)
    (ht : clean t = true) (hs : cleanL s = true) (h : digest f t s = some (t', s')) :
    clean t' = true ∧ cleanL s' = true := by
  obtain ⟨a, b⟩ := (digest_loop_P closed_clean f).1 t s t' s' ht (allP_clean.2 hs) h
  exact ⟨a, allP_clean.1 b⟩

/-- **`digest_conserves`**: the depth-first reading (arguments first, then children) of the parsed
    tree is exactly the reading of the stream — every word once, in source order. -/
theorem digest_conserves (s out : List Tree) (hs : cleanL s = true) (h : parse s = some out) :
    leavesL out = leavesL s := by
  have := top_eq _ [] s out (by simp [cleanL]) hs h
  simpa [leavesL] using this

/-- the same for an argument fragment (`expandTokens` + `normalize`) -/
theorem fragment_conserves (cs : Bool) (s out : List Tree) (hs : cleanL s = true)
    (h : parseFragment cs s = some out) : leavesL out = leavesL s := by
  unfold parseFragment at h
  cases hp : parse s with
  | none => simp [hp] at h
  | some ts =>
    simp only [hp, Option.map_some, Option.some.injEq] at h
    subst h
    have hc : cleanL ts = true := allP_clean.1
      (top_P closed_clean _ [] s ts (fun _ h => by cases h) (allP_clean.2 hs) hp)
    rw [(normKids_ce cs .out ts [] hc (by simp)).2, digest_conserves s ts hs hp]
    simp [srcs]

/-- non-vacuity of the hypothesis: the section example above is a clean stream -/
example : cleanL [.node (secItem 1 1) .unset [], txt 2 [97], txt 3 [98], .node (secItem 4 2) .unset [], txt 5 [99],
                  .node (secItem 6 1) .unset [], txt 7 [100]] = true := by decide

/-- **Fuel adequacy**: `parse` never runs out of fuel — the `2·|stream| + 3` it supplies suffices for
    every stream, so the fuel parameter is not a hidden assumption of the theorems above. -/
theorem parse_total (s : List Tree) : ∃ out, parse s = some out :=
  top_tot _ [] s (Nat.le_refl _)

/-- every `digest` call terminates with fuel `2·|stream| + 2` and never lengthens the stream -/
theorem digest_total (f : Nat) (t : Tree) (s : List Tree) (hf : 2 * s.length + 2 ≤ f) :
    ∃ t' s', digest f t s = some (t', s') ∧ s'.length ≤ s.length :=
  (digest_loop_tot f).1 t s hf

/-- **`paragraphs_partition`**: grouping into paragraphs neither drops nor reorders (clean element) -/
theorem paragraphs_partition (force : Bool) (t : Tree) (hc : clean t = true) (he : t.it.elem = true) :
    leaves (paragraphs force t) = leaves t := (paragraphs_ce force t hc he).2

/-- without the hypothesis: never duplicates or reorders -/
theorem paragraphs_no_dup (force : Bool) (t : Tree) :
    (leaves (paragraphs force t)).Sublist (leaves t) := paragraphs_sub force t

/-- the regrouping itself (before the filter of blank paragraphs) is exact: the new paragraph list
    followed by what stays behind reads exactly like the children did -/
theorem paragraphs_regroup_exact (proto : Item) (o : Ref) (kids : List Tree) :
    leavesL (parLoop proto o [] (mkPar proto o o 0 false []) kids).1 ++
      leavesL (parLoop proto o [] (mkPar proto o o 0 false []) kids).2 = leavesL kids := by
  have := parLoop_leaves proto o kids [] (mkPar proto o o 0 false [])
  simpa [leavesL, leaves_mkPar] using this

/-- digestion never changes which item a node is (class, level, flags) -/
theorem digest_keeps_item : ∀ (f : Nat) (t : Tree) (s : List Tree) (t' : Tree) (s' : List Tree),
    digest f t s = some (t', s') → t'.it = t.it := by
  intro f t s t' s' h
  cases f with
  | zero => simp [digest] at h
  | succ f =>
    unfold digest at h
    split at h
    · cases h; rfl
    · split at h
      · cases h; rfl
      · split at h
        · cases h
        · rename_i heq; cases h
          have := loop_it _ _ _ _ _ _ _ _ heq
          split <;> simp [paragraphs_it, this]
    · split at h
      · cases h; rfl
      · split at h
        · cases h
        · rename_i heq; cases h
          have := loop_it _ _ _ _ _ _ _ _ heq
          split <;> simp [paragraphs_it, this]
    · split at h
      · cases h
      · rename_i heq; cases h
        simp [paragraphs_it, loop_it _ _ _ _ _ _ _ _ heq]
    · split at h
      · cases h
      · rename_i heq; cases h
        simp [paragraphs_it, loop_it _ _ _ _ _ _ _ _ heq]
    · split at h
      · cases h
      · rename_i heq; cases h
        have := loop_it _ _ _ _ _ _ _ _ heq
        split <;> simp [paragraphs_it, this]


/-! ## sectioning, paragraphs, parent links -/

theorem kids_append (t x : Tree) : (t.append x).kids = t.kids ++ [x.setParent t.it.ref] := by
  cases t; rfl

/-- **Sections absorb only strictly deeper material** (loop of `SectionUtils.digest`, every stream,
    every fuel): every child the loop adds to a unit of level `l` has level `> l` — an item of level
    `≤ l` is pushed back, whatever follows what.  (Before `paragraphs` regroups the non-sectioning
    children into paragraphs.) -/
theorem sections_absorb_deeper : ∀ (f : Nat) (t : Tree) (dp : Bool) (s : List Tree) (t' : Tree) (dp' : Bool) (s' : List Tree),
    loop f .sec t dp s = some (t', dp', s') → (∀ k ∈ t.kids, t.it.level < k.it.level) →
    ∀ k ∈ t'.kids, t.it.level < k.it.level
  | 0, _, _, _, _, _, _, h, _ => by simp [loop] at h
  | f + 1, t, dp, [], t', dp', s', h, h0 => by unfold loop at h; cases h; exact h0
  | f + 1, t, dp, x :: r, t', dp', s', h, h0 => by
    unfold loop at h
    have hpre : pre .sec t x = (if x.it.level ≤ t.it.level then Pre.push else Pre.go) := rfl
    by_cases hl : x.it.level ≤ t.it.level
    · simp only [hpre, hl, if_true] at h; cases h; exact h0
    · simp only [hpre, hl, if_false] at h
      split at h
      · cases h
      · rename_i x' r' heq
        have hx' : x'.it = x.it := by
          by_cases he : x.it.elem
          · simp only [he, if_true] at heq
            simpa using digest_keeps_item _ _ _ _ _ heq
          · simp only [he] at heq; cases heq; rfl
        simp only [post, Bool.false_eq_true, if_false] at h
        have := sections_absorb_deeper f (t.append x') dp r' t' dp' s' h (by
          intro k hk
          rw [kids_append] at hk
          simp only [it_append, List.mem_append, List.mem_singleton] at hk ⊢
          rcases hk with hk | hk
          · exact h0 k hk
          · subst hk; simp only [it_setParent, hx']; omega)
        simpa using this

/-- **`sections_nest`**: on a sectioning-skeleton stream (`secSkel`: below paragraph level only fresh
    sectioning commands and document-level closers, everything else inert — text, paragraph tokens,
    commands), a sectioning unit of level `l` ends up holding **only paragraphs and sectioning units of
    level strictly between `l` and ENDSECTIONS** — whatever follows what, for every fuel.  Every unit of
    the parsed tree is the result of such a call, so the units are nested by level. -/
theorem sections_nest (f : Nat) (t : Tree) (s : List Tree) (t' : Tree) (s' : List Tree)
    (hdk : t.it.dk = .sec) (hlo : documentLevel < t.it.level) (hk : t.kids = [])
    (hs : ∀ x ∈ s, secSkel x = true) (h : digest f t s = some (t', s')) :
    ∀ k ∈ t'.kids, secKidOK t.it.level k = true := by
  cases f with
  | zero => simp [digest] at h
  | succ f =>
    obtain ⟨t1, dp1, hl, rfl⟩ := digest_sec hdk h
    have hit : t1.it = t.it := loop_it _ _ _ _ _ _ _ _ hl
    obtain ⟨A, B, h1, h2, h3, _⟩ := sec_loop_shape f t false s t1 dp1 s' hlo hs
      ⟨[], [], by simp [hk], by simp, by simp, by simp⟩ hl
    cases t1 with
    | node it p kids =>
      simp only [Tree.kids] at h1
      subst h1
      rw [paragraphs_true_eq]
      exact parResult_sec it p A B _ t.it.level (proto_level _) h2 h3

/-- … and it stops exactly in front of the next item that is not deeper (or at the end of the stream) -/
theorem sections_stop_at_not_deeper (f : Nat) (t : Tree) (s : List Tree) (t' : Tree) (s' : List Tree)
    (hdk : t.it.dk = .sec) (h : digest f t s = some (t', s')) :
    ∀ z, s'.head? = some z → z.it.level ≤ t.it.level := by
  cases f with
  | zero => simp [digest] at h
  | succ f =>
    obtain ⟨t1, dp1, hl, _⟩ := digest_sec hdk h
    exact loop_sec_head f _ _ _ _ _ _ hl

/-- non-vacuity: the section example is a skeleton stream; its first unit holds a paragraph and a subsection -/
example : ∀ x ∈ [txt 2 [97], txt 3 [98], .node (secItem 4 2) .unset [], txt 5 [99],
                 .node (secItem 6 1) .unset [], txt 7 [100]], secSkel x = true := by decide
example : ((digest 20 (.node (secItem 1 1) .unset []) [txt 2 [97], txt 3 [98], .node (secItem 4 2) .unset [], txt 5 [99],
              .node (secItem 6 1) .unset [], txt 7 [100]]).map fun r => r.1.kids.map (·.it.level)) = some [101, 2] := by
  decide

/-- **Paragraphs never contain paragraphs nor sectioning units**, at any depth of the parsed tree, for
    every clean stream whose (possibly pre-digested) items satisfy it: every child of a paragraph-level
    node has a level strictly above paragraph level (`Macro.paragraphs` stops regrouping at the first item
    below paragraph level — `\paragraph` and `\subparagraph` included — and starts a new paragraph at a
    paragraph token). -/
theorem par_no_par (s out : List Tree) (hs : cleanL s = true) (hp : parNoParL s = true)
    (h : parse s = some out) : parNoParL out = true := by
  have := top_P closed_pnp _ [] s out (fun _ h => by cases h)
    (fun t ht => ⟨(cleanL_iff _).1 hs t ht, (parNoParL_iff _).1 hp t ht⟩) h
  exact (parNoParL_iff _).2 fun t ht => (this t ht).2

/-- every `digest` call keeps the invariant -/
theorem par_no_par_step (f : Nat) (t : Tree) (s : List Tree) (t' : Tree) (s' : List Tree)
    (ht : clean t = true ∧ parNoPar t = true) (hs : ∀ x ∈ s, clean x = true ∧ parNoPar x = true)
    (h : digest f t s = some (t', s')) : parNoPar t' = true :=
  ((digest_loop_P closed_pnp f).1 t s t' s' ht hs h).1.2

example : parNoParL [.node (secItem 1 1) .unset [], txt 2 [97], txt 3 [98]] = true := by decide

/-- `\subsubsection{..}a\paragraph{..}b\subparagraph{..}c`: the units of level 4 and 5 are children of the
    unit above them, never of a paragraph (levels of the children of the level-3 unit, and of the level-4 unit) -/
example : ((digest 20 (.node (secItem 1 3) .unset []) [txt 2 [97], .node (secItem 3 4) .unset [], txt 4 [98],
              .node (secItem 5 5) .unset [], txt 6 [99]]).map fun r =>
            (r.1.kids.map (·.it.level), r.1.kids.map fun k => k.kids.map (·.it.level))) =
    some ([101, 4], [[1001], [101, 5]]) := by decide

/-- the top-level loop labels everything it appends with the output container -/
theorem parent_labels_top : ∀ (f : Nat) (acc s out : List Tree), top f acc s = some out →
    (∀ t ∈ acc, t.parent = .out) → ∀ t ∈ out, t.parent = .out
  | 0, _, _, _, h, _ => by simp [top] at h
  | f + 1, acc, [], out, h, h0 => by simp only [top] at h; cases h; exact h0
  | f + 1, acc, x :: r, out, h, h0 => by
    unfold top at h
    split at h
    · cases h
    · rename_i x' r' heq
      refine parent_labels_top f _ _ _ h ?_
      intro t ht
      simp only [List.mem_append, List.mem_singleton] at ht
      rcases ht with ht | ht
      · exact h0 t ht
      · subst ht; cases x'; rfl

/-- **Parent links**: in the parsed tree every node's parent label is the node that lists it, at
    every depth, and the top nodes point to the output container — so following labels from any node
    walks up through its actual containers to the document.  For every stream (no `clean` needed) whose
    pre-digested items are consistently labelled. -/
theorem parent_labels_consistent (s out : List Tree) (hl : ∀ t ∈ s, labelsOK t = true)
    (h : parse s = some out) : labelsL .out out = true := by
  have h1 := top_P closed_labels _ [] s out (fun _ h => by cases h) hl h
  have h2 := parent_labels_top _ [] s out h (fun _ h => by cases h)
  exact (labelsL_iff _ _).2 fun t ht => ⟨h2 t ht, h1 t ht⟩

/-- `normalize` re-establishes the labels of a whole subtree whatever they were before -/
theorem normalize_relabels (cs : Bool) (t : Tree) : labelsOK (norm cs t) = true := norm_labels cs t

example : labelsL .out [.node (secItem 1 1) .out [(txt 2 [97]).setParent (.item 1)]] = true := by decide

/-! ## the push-back iterator -/

/-- `bufferediter`: what was pushed is what comes next, and the rest is unchanged -/
theorem buffered_push_next (x : Tree) (b : Buffered) : (b.push x).next = some (x, b) := by
  cases b; simp [Buffered.push, Buffered.next]

/-- the iterator is the list `buffer ++ source`: `next` is `uncons`, `push` is `cons` -/
theorem buffered_flat (b : Buffered) :
    (b.next = none ↔ b.flat = []) ∧ (∀ x b', b.next = some (x, b') → b.flat = x :: b'.flat) ∧
    (∀ x, (b.push x).flat = x :: b.flat) := by
  obtain ⟨buf, src⟩ := b
  refine ⟨?_, ?_, ?_⟩
  · cases buf <;> cases src <;> simp [Buffered.next, Buffered.flat]
  · intro x b' h
    cases buf with
    | cons y r => simp [Buffered.next] at h; obtain ⟨rfl, rfl⟩ := h; simp [Buffered.flat]
    | nil =>
      cases src with
      | nil => simp [Buffered.next] at h
      | cons y r => simp [Buffered.next] at h; obtain ⟨rfl, rfl⟩ := h; simp [Buffered.flat]
  · intro x; simp [Buffered.push, Buffered.flat]

/-! ## typographic substitution -/

theorem replaceGo_plain (p d : List Nat) : ∀ s : List Nat, (∀ c ∈ s, c ∉ p) → replaceGo p d 0 s = s
  | [], _ => by simp [replaceGo]
  | c :: cs, h => by
    have hc : c ∉ p := h c (by simp)
    have hp : (p.isPrefixOf (c :: cs) && !p.isEmpty) = false := by
      cases p with
      | nil => simp
      | cons a as =>
        have : a ≠ c := fun e => hc (by simp [e])
        simp [List.isPrefixOf, this]
    simp only [replaceGo, hp, Bool.false_eq_true, if_false]
    rw [replaceGo_plain p d cs (fun x hx => h x (by simp [hx]))]

/-- every source pattern of the (regenerated) substitution list consists of quote/dash characters only -/
theorem charsubs_sources_are_triggers : ∀ sd ∈ charsubs, ∀ c ∈ sd.1, trigger c = true := by decide

/-- **Substitution only touches quotes and dashes**: a text without those characters is unchanged -/
theorem charsubs_plain (s : List Nat) (h : ∀ c ∈ s, trigger c = false) : applySubs charsubs s = s := by
  unfold applySubs
  have key : ∀ subs : List (List Nat × List Nat), (∀ sd ∈ subs, ∀ c ∈ sd.1, trigger c = true) →
      subs.foldl (fun v sd => replaceAll sd.1 sd.2 v) s = s := by
    intro subs
    induction subs with
    | nil => intro _; rfl
    | cons sd rest ih =>
      intro hs
      simp only [List.foldl]
      have : replaceAll sd.1 sd.2 s = s := by
        apply replaceGo_plain
        intro c hc hm
        have := hs sd (by simp) c hm
        rw [h c hc] at this
        exact Bool.false_ne_true this
      rw [this]
      exact ih (fun sd' h' => hs sd' (by simp [h']))
  exact key charsubs charsubs_sources_are_triggers

example : applySubs charsubs [96, 96, 87, 39, 39, 45, 45, 45, 97, 45, 45, 98, 39, 115] =
    [8220, 87, 8221, 8212, 97, 8211, 98, 8217, 115] := by decide

/-- **Scope, part 1**: a node whose class suppresses substitution (verbatim, `\verb`, mathematics)
    normalises exactly as with `charsubs=None`, whatever list is passed down to it -/
theorem charsubs_scope_nosub (cs : Bool) (it : Item) (p : Ref) (kids : List Tree) (h : it.nosub = true) :
    norm cs (.node it p kids) = norm false (.node it p kids) := by
  simp [norm, h]

theorem flush_false_chars (o : Ref) (txt : List Tree) :
    allCharsL (flushText false o txt) = txt.flatMap (·.it.chars) := by
  unfold flushText
  by_cases h : txt.isEmpty
  · have : txt = [] := by simpa using h
    simp [this, allCharsL]
  · simp [h, allCharsL, allChars, textItem]

mutual
/-- **Scope, part 2**: with `charsubs=None` normalisation changes no character at any depth -/
theorem norm_false_chars : ∀ t : Tree, allChars (norm false t) = allChars t
  | .node it p kids => by
    simp only [norm, allChars, Bool.false_and]
    split
    · simpa using normKids_false_chars it.ref kids []
    · rfl
theorem normKids_false_chars (o : Ref) : ∀ (ks txt : List Tree),
    allCharsL (normKids false o ks txt) = txt.flatMap (·.it.chars) ++ allCharsL ks
  | [], txt => by
    simp only [normKids, allCharsL, List.append_nil]
    exact flush_false_chars o txt
  | k :: ks, txt => by
    unfold normKids
    by_cases h : k.it.elem
    · simp only [h, if_true]
      have h1 := norm_false_chars k
      have h2 := normKids_false_chars o ks []
      have h0 := flush_false_chars o txt
      have hsp : ∀ r (t : Tree), allChars (t.setParent r) = allChars t := by
        intro r t; cases t; simp [Tree.setParent, allChars]
      have happ : ∀ a b : List Tree, allCharsL (a ++ b) = allCharsL a ++ allCharsL b := by
        intro a b; induction a with
        | nil => simp [allCharsL]
        | cons x xs ih => simp [allCharsL, ih, List.append_assoc]
      rw [happ, h0]
      simp only [allCharsL, hsp, h1]
      simp at h2
      rw [h2]
    · have h' : k.it.elem = false := by simpa using h
      simp only [h', Bool.false_eq_true, if_false]
      rw [normKids_false_chars o ks (txt ++ [k])]
      have : allChars k = k.it.chars := by
        cases k with
        | node i p ks => simp [Tree.it] at h'; simp [allChars, h', Tree.it]
      simp [allCharsL, this, List.append_assoc]
end

/-- **Never inside verbatim or mathematics**: normalising a no-substitution node, with any list,
    leaves every character below it — at any depth — as it was -/
theorem charsubs_never_in_nosub (cs : Bool) (it : Item) (p : Ref) (kids : List Tree) (h : it.nosub = true) :
    allChars (norm cs (.node it p kids)) = allChars (.node it p kids) := by
  rw [charsubs_scope_nosub cs it p kids h]; exact norm_false_chars _

/-- **Applied to running text**: a run of text nodes (no element in between) inside a node that is
    in scope becomes ONE text node holding the substituted concatenation -/
theorem charsubs_applied_to_text_run (cs : Bool) (o : Ref) : ∀ (ks txt : List Tree),
    (∀ k ∈ ks, k.it.elem = false) → normKids cs o ks txt = flushText cs o (txt ++ ks)
  | [], txt, _ => by simp [normKids]
  | k :: ks, txt, h => by
    have hk : k.it.elem = false := h k (by simp)
    unfold normKids
    simp only [hk, Bool.false_eq_true, if_false]
    rw [charsubs_applied_to_text_run cs o ks (txt ++ [k]) (fun x hx => h x (by simp [hx]))]
    simp [List.append_assoc]

/-- non-vacuity: `a--b` in a paragraph becomes one node `a–b`; inside a no-substitution node it stays -/
example : allCharsL (normKids true .out [txt 1 [97], txt 2 [45], txt 3 [45], txt 4 [98]] []) = [97, 8211, 98] := by decide

/-- **`charsubs_idempotent`**: substituting twice is substituting once (so the repeated `normalize`
    calls the code makes on the same nodes — argument read, paragraph grouping, enclosing paragraph — are harmless) -/
theorem charsubs_idempotent (s : List Nat) : applySubs charsubs (applySubs charsubs s) = applySubs charsubs s :=
  PlasVerif.Proofs.Charsubs.applySubs_idempotent s

/-- **Substitution is complete**: after one pass no backtick, no apostrophe and no two adjacent hyphens
    are left in the text, whatever the input -/
theorem charsubs_complete (s : List Nat) :
    96 ∉ applySubs charsubs s ∧ 39 ∉ applySubs charsubs s ∧ PlasVerif.Proofs.Charsubs.NoAdj 45 (applySubs charsubs s) :=
  PlasVerif.Proofs.Charsubs.applySubs_done s

example : applySubs charsubs (applySubs charsubs [96, 96, 97, 39, 39, 45, 45, 45, 45, 39]) =
    applySubs charsubs [96, 96, 97, 39, 39, 45, 45, 45, 45, 39] := by decide

/-! ## reading arguments: math mode is decided by the innermost declaring frame; scratch fragments -/

/-- **Argument nesting never changes the mode**: frames without an object (`{`) and objects that leave
    `mathMode = None` (`ArgumentContext` around every argument expansion, ordinary commands such as
    `\hat`, `\frac`, `\sqrt`) are looked through, however many of them are stacked. -/
theorem mathmode_transparent : ∀ (pre s : List MFrame), (∀ f ∈ pre, f = none ∨ f = some none) →
    isMathMode (pre ++ s) = isMathMode s
  | [], _, _ => rfl
  | f :: pre, s, h => by
    have ih := mathmode_transparent pre s (fun g hg => h g (by simp [hg]))
    rcases h f (by simp) with rfl | rfl <;> simpa [isMathMode] using ih

/-- **Never inside mathematics, at any argument depth**: an argument read anywhere below a frame that
    declares math mode, through any number of transparent frames, is normalised without substitutions;
    below a text box (`\mbox`: `mathMode = False`) inside the formula, with them. -/
theorem args_in_math_unsubstituted (pre s : List MFrame) (h : ∀ f ∈ pre, f = none ∨ f = some none) :
    subsAtRead (pre ++ some (some true) :: s) = false ∧ subsAtRead (pre ++ some (some false) :: s) = true := by
  simp [subsAtRead, mathmode_transparent pre _ h, isMathMode]

/-- `$\mathbf{\hat{x'}}$`: math, mathbf, ArgumentContext, hat, ArgumentContext (innermost first) -/
example : subsAtRead [some none, some none, some none, some none, some (some true), none] = false := by decide

/-- **`extend(..., setParent=False)` never re-parents** (the scratch fragments of `fullTitle` /
    `fullTocEntry`): the receiving node gains exactly the given nodes, labels untouched, fragments
    flattened with the caller's flag. -/
theorem extend_noparent_untouched (c : Cont) (args : List Arg) :
    extend c false args = args.flatMap Arg.kids := by
  unfold extend
  congr 1
  funext a
  cases a <;> simp [appendArg, Arg.kids]

/-- with `setParent=True` every gained node points to the receiver (or, for a fragment receiver, to its parent) -/
theorem extend_setparent_labels (c : Cont) (args : List Arg) : ∀ t ∈ extend c true args, t.parent = c.target := by
  intro t ht
  simp only [extend, List.mem_flatMap] at ht
  obtain ⟨a, _, hta⟩ := ht
  cases a with
  | node x => simp [appendArg] at hta; subst hta; cases x; rfl
  | frag p ks =>
    simp only [appendArg, if_true, List.mem_map] at hta
    obtain ⟨k, _, rfl⟩ := hta; cases k; rfl

/-- `fullTocEntry`: scratch fragment without parent, `[ref, ' ', title]`, title = argument fragment owned by the section -/
example : (extend { ref := .item 1, isFrag := true, parent := .unset } false
            [.node (txt 5 [49]), .node (txt 6 [32]), .frag (.item 9) [(txt 7 [97]).setParent (.syn (.item 9) 0)]]).map (·.parent)
          = [.unset, .unset, .syn (.item 9) 0] := by decide

/-! ## substitution depends on where the text stands, not on what was processed before -/

/-- **History free**: the value created by an `appendText` call is determined by its own text and its own
    table, whatever calls were made before on the same document (the same run of characters may stand in
    running text and in verbatim/math material of one document). -/
theorem appendText_history_free (h : List (Bool × List Nat)) (c : Bool × List Nat) :
    appendTexts (h ++ [c]) = appendTexts h ++ [appendTextValue c.1 c.2] := by
  simp [appendTexts]

/-- without a table the text is kept character for character; with it, it is the substituted text -/
theorem appendText_values (s : List Nat) :
    appendTextValue false s = s ∧ appendTextValue true s = applySubs charsubs s := by
  simp [appendTextValue]

/-- the text node `normalize` creates for a run carries exactly that value -/
theorem flushText_value (cs : Bool) (o : Ref) (txt : List Tree) (h : txt ≠ []) :
    allCharsL (flushText cs o txt) = appendTextValue cs (txt.flatMap (·.it.chars)) := by
  have : txt.isEmpty = false := by cases txt <;> simp_all
  cases cs <;> simp [flushText, this, appendTextValue, allCharsL, allChars, textItem]

/-- `\verb|it's|` then `\emph{it's}` then `\verb|it's|` again -/
example : appendTexts [(false, [105, 116, 39, 115]), (true, [105, 116, 39, 115]), (false, [105, 116, 39, 115])] =
    [[105, 116, 39, 115], [105, 116, 8217, 115], [105, 116, 39, 115]] := by decide

/-! ## the substitution table is per document -/

theorem createDocs_class (cls : SubTable) : ∀ hist, (createDocs cls hist).1 = cls
  | [] => rfl
  | d :: ds => by simp [createDocs, createDoc, createDocs_class cls ds]

/-- **No history dependence**: whatever documents were created before, with whatever `disable-charsub`
    options, the class table is intact, and a document created next gets exactly the defaults minus its
    own option — in particular a default-configuration document gets every substitution. -/
theorem charsubs_table_per_document (cls : SubTable) (hist : List (List (List Nat))) (d : List (List Nat)) :
    (createDocs cls (hist ++ [d])).1 = cls ∧
    (createDocs cls (hist ++ [d])).2 = (createDocs cls hist).2 ++ [docCharsubs cls d] ∧
    docCharsubs cls [] = cls := by
  refine ⟨createDocs_class cls _, ?_, by simp [docCharsubs]⟩
  induction hist with
  | nil => simp [createDocs, createDoc]
  | cons h hs ih => simpa [createDocs, createDoc] using ih

/-- the option removes exactly the named sources and nothing else, order kept -/
theorem docCharsubs_mem (cls : SubTable) (d : List (List Nat)) (sd : List Nat × List Nat) :
    sd ∈ docCharsubs cls d ↔ sd ∈ cls ∧ sd.1 ∉ d := by
  simp [docCharsubs, List.mem_filter]

/-- `--disable-charsub "'"` then a default document: the second one has all eight entries -/
example : (createDocs charsubs [[[39]], []]).2.map List.length = [7, 8] ∧ (createDocs charsubs [[[39]], []]).1 = charsubs := by
  decide

/-! ## an element that lives in one kind of container ends every other environment -/

/-- **`\item` ends a declaration / any non-list environment**: in the loop of `Environment.digest`, an
    element whose class names a container class the running environment is not an instance of is pushed
    back (never absorbed, never dropped) — unless one of the earlier exits (paragraph token, lower level,
    the environment's own end) applies first. -/
theorem container_ends_other_env (t x : Tree) (he : x.it.elem = true) (hc : x.it.cont ≠ 0)
    (hn : t.it.isa.contains x.it.cont = false) (hp : x.it.level ≠ parLevel) :
    pre .env t x = .push ∨ pre .env t x = .drop := by
  have h1 : (x.it.level == parLevel) = false := by simpa using hp
  simp only [pre, h1, Bool.false_eq_true, if_false]
  split
  · exact .inl rfl
  · split
    · exact .inr rfl
    · have hn' : x.it.cont ∉ t.it.isa := by simpa using hn
      simp [he, hc, hn']

/-- … and inside its own container kind it is digested as before -/
theorem container_inside_own_env (t x : Tree) (hin : t.it.isa.contains x.it.cont = true)
    (hp : x.it.level ≠ parLevel) (hl : ¬ x.it.level < t.it.level) (hend : (x.it.elem && x.it.modeEnd && x.it.ty == t.it.ty) = false) :
    pre .env t x = .go := by
  have h1 : (x.it.level == parLevel) = false := by simpa using hp
  have hin' : x.it.cont ∈ t.it.isa := by simpa using hin
  simp [pre, h1, hl, hend, hin']

def exItem (n : Nat) : Tree :=
  .node { secItem n 1001 with dk := .listItem, isItem := true, cont := 1, block := false, forcePars := true, depth := 2, argLeaves := [] } .unset []
def exDecl : Tree :=
  .node { secItem 3 201 with dk := .env, ty := 7, block := false, depth := 2, argLeaves := [] } .unset []
def exList (n : Nat) (isEnd : Bool) : Tree :=
  .node { secItem n 201 with dk := .listEnv, ty := 5, isa := [1], modeEnd := isEnd, depth := 1, argLeaves := [] } .unset []

/-- `\begin{itemize}\item \bfseries a \item b\end{itemize}`: the open declaration (an environment that is not a list)
    is ended by the second item, which becomes a child of the list: the list's children are the two items, the
    first item holds (in its paragraph) the declaration with `a`; nothing is lost -/
example : ((digest 40 (exList 1 false) [exItem 2, exDecl, txt 4 [97], exItem 5, txt 6 [98], exList 9 true]).map fun r =>
            (r.1.kids.map (·.it.ref), leaves r.1, r.2.length)) = some ([.item 2, .item 5], [4, 6], 0) := by
  decide

/-! ## the clauses together -/

/-- **C07 over the model**: every clean, consistently labelled stream without nested paragraphs is parsed
    (no fuel assumption) into a forest whose depth-first reading (arguments, then children) is exactly the
    reading of the stream, whose parent labels all name the actual container, and in which no paragraph
    contains a paragraph.  (Sectioning: `sections_nest`; substitution: `charsubs_*`.) -/
theorem parse_well_formed (s : List Tree) (hc : cleanL s = true) (hp : parNoParL s = true)
    (hl : ∀ t ∈ s, labelsOK t = true) :
    ∃ out, parse s = some out ∧ leavesL out = leavesL s ∧ labelsL .out out = true ∧ parNoParL out = true := by
  obtain ⟨out, h⟩ := parse_total s
  exact ⟨out, h, digest_conserves s out hc h, parent_labels_consistent s out hl h, par_no_par s out hc hp h⟩

example : (∀ t ∈ [Tree.node (secItem 1 1) .unset [], txt 2 [97], txt 3 [98]], labelsOK t = true) := by decide

/-! ## known finding `body-without-par` (as-is behaviour, kernel-checked) -/

def docEnv : Item :=
  { ref := .item 1, elem := true, level := documentLevel, depth := 2, block := false, dk := .env, ty := 2, modeEnd := false,
    egroup := false, isItem := false, ws := false, dynws := false, setctr := false, forcePars := false, nosub := false,
    chars := [], src := [], argLeaves := [] }

/-- `\begin{document}a--b\end{document}`: no paragraph token, `forcePars` unset ⇒ `Environment.digest`
    never calls `paragraphs`, nothing normalises the body: the dashes stay -/
theorem asIs_body_without_par_not_substituted :
    (parse [.node docEnv .unset [], txt 2 [97], txt 3 [45], txt 4 [45], txt 5 [98],
            .node { docEnv with ref := .item 6, modeEnd := true } .unset []]).map allCharsL = some [97, 45, 45, 98] := by
  decide

end PlasVerif.Properties.C07
