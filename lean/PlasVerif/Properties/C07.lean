import PlasVerif.Proofs.Digest
/-!
# C07 — Parsing loses, duplicates or reorders no text and yields a well-formed tree

Property theorems only (helpers in `Proofs/Digest.lean`).  `leaves` is the depth-first reading
of the property (arguments first, then children); a stream is a list of trees because the code
pushes already-digested items back.
-/
namespace PlasVerif.Properties.C07
open PlasVerif.Model.Digest PlasVerif.Spec.DocTree PlasVerif.Proofs.Digest PlasVerif.Generated.Digest

/-! ## text conservation -/

/-- **No duplication, no reordering — for every stream, balanced or not, every fuel.**  Whatever
    `t.digest(tokens)` returns, the reading of the node followed by the unread stream is a
    subsequence of the reading before the call: nothing is read twice, nothing changes order. -/
theorem digest_no_dup_no_reorder (f : Nat) (t : Tree) (s : List Tree) (t' : Tree) (s' : List Tree)
    (h : digest f t s = some (t', s')) :
    (leaves t' ++ leavesL s').Sublist (leaves t ++ leavesL s) :=
  (digest_loop_sub f).1 t s t' s' h

/-- the same for the whole parse (`TeX.parse`): the reading of the result is a subsequence of the stream -/
theorem parse_no_dup_no_reorder (s out : List Tree) (h : parse s = some out) :
    (leavesL out).Sublist (leavesL s) := by
  have := top_sub _ _ _ _ h
  simpa [leavesL] using this

/-- and for an argument fragment (`expandTokens` + `normalize`) -/
theorem fragment_no_dup_no_reorder (cs : Bool) (s out : List Tree) (h : parseFragment cs s = some out) :
    (leavesL out).Sublist (leavesL s) := by
  unfold parseFragment at h
  cases hp : parse s with
  | none => simp [hp] at h
  | some ts =>
    simp only [hp, Option.map_some, Option.some.injEq] at h
    subst h
    have h1 := normKids_sub cs .out ts []
    simp only [srcs, List.flatMap_nil, List.nil_append] at h1
    exact h1.trans (parse_no_dup_no_reorder s ts hp)

def secItem (n : Nat) (lvl : Int) : Item :=
  { ref := .item n, elem := true, level := lvl, depth := 2, block := true, dk := .sec, ty := 3, modeEnd := false,
    egroup := false, isItem := false, ws := false, dynws := false, setctr := false, forcePars := false, nosub := false,
    chars := [], src := [], argLeaves := [n] }
def txt (n : Nat) (c : List Nat) : Tree :=
  .node { ref := .item n, elem := false, level := characterLevel, depth := 2, block := false, dk := .none, ty := 0,
          modeEnd := false, egroup := false, isItem := false, ws := false, dynws := false, setctr := false,
          forcePars := false, nosub := false, chars := c, src := [n], argLeaves := [] } .unset []

/-- non-vacuity: `\section{..}ab\subsection{..}c\section{..}d` is parsed and every word is kept, in order -/
example : (parse [.node (secItem 1 1) .unset [], txt 2 [97], txt 3 [98], .node (secItem 4 2) .unset [], txt 5 [99],
                  .node (secItem 6 1) .unset [], txt 7 [100]]).map leavesL = some [1, 2, 3, 4, 5, 6, 7] := by decide

/-- **Full conservation (no loss)** — stated, not proved here: on streams satisfying `clean`
    (blank text and closing tokens carry no words, paragraph tokens and swallowed tokens have an
    inert `digest`), the reading of the result *equals* the reading of the stream.
    Missing: the invariant that `clean` is preserved by `paragraphs`/`norm`/`digest` (the filter of
    blank paragraphs and the blanks skipped at list heads are the only places where the
    subsequence of `parse_no_dup_no_reorder` can be strict).  Carried by the `digest` stream
    (plain-character oracle on every recorded call) and by `doc7`. -/
def digest_conserves_statement : Prop :=
  ∀ (s out : List Tree), cleanL s = true → parse s = some out → leavesL out = leavesL s

/-- `paragraphs` alone: grouping into paragraphs never duplicates or reorders (partial form of
    `paragraphs_partition`; equality needs `clean` for the blank-paragraph filter). -/
theorem paragraphs_partition_partial (force : Bool) (t : Tree) :
    (leaves (paragraphs force t)).Sublist (leaves t) := paragraphs_sub force t

def paragraphs_partition_statement : Prop :=
  ∀ (force : Bool) (t : Tree), clean t = true → leaves (paragraphs force t) = leaves t

/-- the regrouping itself (before the filter of blank paragraphs) is exact: the new paragraph list
    followed by what stays behind reads exactly like the children did -/
theorem paragraphs_regroup_exact (proto : Item) (o : Ref) (kids : List Tree) :
    leavesL (parLoop proto o [] (mkPar proto o o 0 false []) kids).1 ++
      leavesL (parLoop proto o [] (mkPar proto o o 0 false []) kids).2 = leavesL kids := by
  have := parLoop_leaves proto o kids [] (mkPar proto o o 0 false [])
  simpa [leavesL, leaves_mkPar] using this

/-- digestion never changes which item a node is (class, level, flags) -/
theorem digest_keeps_item : ∀ (f : Nat) (t : Tree) (s : List Tree) (t' : Tree) (s' : List Tree),
    digest f t s = some (t', s') → t'.it = t.it := by
  intro f t s t' s' h
  cases f with
  | zero => simp [digest] at h
  | succ f =>
    unfold digest at h
    split at h
    · cases h; rfl
    · split at h
      · cases h; rfl
      · split at h
        · cases h
        · rename_i heq; cases h
          have := loop_it _ _ _ _ _ _ _ _ heq
          split <;> simp [paragraphs_it, this]
    · split at h
      · cases h; rfl
      · split at h
        · cases h
        · rename_i heq; cases h
          have := loop_it _ _ _ _ _ _ _ _ heq
          split <;> simp [paragraphs_it, this]
    · split at h
      · cases h
      · rename_i heq; cases h
        simp [paragraphs_it, loop_it _ _ _ _ _ _ _ _ heq]
    · split at h
      · cases h
      · rename_i heq; cases h
        simp [paragraphs_it, loop_it _ _ _ _ _ _ _ _ heq]
    · split at h
      · cases h
      · rename_i heq; cases h
        have := loop_it _ _ _ _ _ _ _ _ heq
        split <;> simp [paragraphs_it, this]


/-! ## sectioning, paragraphs, parent links -/

theorem kids_append (t x : Tree) : (t.append x).kids = t.kids ++ [x.setParent t.it.ref] := by
  cases t; rfl

/-- **Sections absorb only strictly deeper material** (loop of `SectionUtils.digest`, every stream,
    every fuel): every child the loop adds to a unit of level `l` has level `> l` — an item of level
    `≤ l` is pushed back, whatever follows what.  (Before `paragraphs` regroups the non-sectioning
    children into paragraphs.) -/
theorem sections_absorb_deeper : ∀ (f : Nat) (t : Tree) (dp : Bool) (s : List Tree) (t' : Tree) (dp' : Bool) (s' : List Tree),
    loop f .sec t dp s = some (t', dp', s') → (∀ k ∈ t.kids, t.it.level < k.it.level) →
    ∀ k ∈ t'.kids, t.it.level < k.it.level
  | 0, _, _, _, _, _, _, h, _ => by simp [loop] at h
  | f + 1, t, dp, [], t', dp', s', h, h0 => by unfold loop at h; cases h; exact h0
  | f + 1, t, dp, x :: r, t', dp', s', h, h0 => by
    unfold loop at h
    have hpre : pre .sec t x = (if x.it.level ≤ t.it.level then Pre.push else Pre.go) := rfl
    by_cases hl : x.it.level ≤ t.it.level
    · simp only [hpre, hl, if_true] at h; cases h; exact h0
    · simp only [hpre, hl, if_false] at h
      split at h
      · cases h
      · rename_i x' r' heq
        have hx' : x'.it = x.it := by
          by_cases he : x.it.elem
          · simp only [he, if_true] at heq
            simpa using digest_keeps_item _ _ _ _ _ heq
          · simp only [he] at heq; cases heq; rfl
        simp only [post, Bool.false_eq_true, if_false] at h
        have := sections_absorb_deeper f (t.append x') dp r' t' dp' s' h (by
          intro k hk
          rw [kids_append] at hk
          simp only [it_append, List.mem_append, List.mem_singleton] at hk ⊢
          rcases hk with hk | hk
          · exact h0 k hk
          · subst hk; simp only [it_setParent, hx']; omega)
        simpa using this

/-- full clause of the property for sectioning units — stated, carried by `doc7` and the `digest` stream:
    after `digest` a unit of level `l < ENDSECTIONS` holds only paragraphs and units of level in `(l, ENDSECTIONS)`.
    Proved above: everything absorbed is strictly deeper (`sections_absorb_deeper`); missing: that
    `paragraphs(force)` wraps every absorbed non-sectioning child (needs: what follows the first
    sectioning child is again a sectioning unit, a property of what the *sub-unit's* loop left in the stream). -/
def sections_nest_statement : Prop :=
  ∀ (f : Nat) (t : Tree) (s : List Tree) (t' : Tree) (s' : List Tree), t.it.dk = .sec → t.it.level < endSectionsLevel → t.kids = [] →
    (∀ x ∈ s, t.it.level < x.it.level → x.it.level < parLevel → x.it.dk = .sec ∧ x.kids = []) →
    digest f t s = some (t', s') → ∀ k ∈ t'.kids, secKidOK t.it.level k = true

/-- paragraphs never contain paragraphs — stated; the regrouping loop appends to the current paragraph
    only items of level `> PAR` (see `parLoop`: `==PAR` starts a new one, `<PAR` stops); carried by `doc7`
    and by the tree diff of the `digest` stream (levels are part of the dump). -/
def par_no_par_statement : Prop :=
  ∀ (s out : List Tree), cleanL s = true → (∀ t ∈ s, parNoPar t = true) → parse s = some out → parNoParL out = true

/-- parent links — stated; the model writes the label at every place the code assigns `parentNode`
    and the driver prints for every node whether its label is its container (`+`/`-`), diffed against
    `node.parentNode is container` on the real tree for every recorded parse call. -/
def parent_labels_consistent_statement : Prop :=
  ∀ (s out : List Tree), (∀ t ∈ s, labelsOK t = true) → parse s = some out → labelsL .out out = true

/-- partial: the top-level loop labels everything it appends with the output container -/
theorem parent_labels_top_partial : ∀ (f : Nat) (acc s out : List Tree), top f acc s = some out →
    (∀ t ∈ acc, t.parent = .out) → ∀ t ∈ out, t.parent = .out
  | 0, _, _, _, h, _ => by simp [top] at h
  | f + 1, acc, [], out, h, h0 => by simp only [top] at h; cases h; exact h0
  | f + 1, acc, x :: r, out, h, h0 => by
    unfold top at h
    split at h
    · cases h
    · rename_i x' r' heq
      refine parent_labels_top_partial f _ _ _ h ?_
      intro t ht
      simp only [List.mem_append, List.mem_singleton] at ht
      rcases ht with ht | ht
      · exact h0 t ht
      · subst ht; cases x'; rfl

/-! ## the push-back iterator -/

/-- `bufferediter`: what was pushed is what comes next, and the rest is unchanged -/
theorem buffered_push_next (x : Tree) (b : Buffered) : (b.push x).next = some (x, b) := by
  cases b; simp [Buffered.push, Buffered.next]

/-- the iterator is the list `buffer ++ source`: `next` is `uncons`, `push` is `cons` -/
theorem buffered_flat (b : Buffered) :
    (b.next = none ↔ b.flat = []) ∧ (∀ x b', b.next = some (x, b') → b.flat = x :: b'.flat) ∧
    (∀ x, (b.push x).flat = x :: b.flat) := by
  obtain ⟨buf, src⟩ := b
  refine ⟨?_, ?_, ?_⟩
  · cases buf <;> cases src <;> simp [Buffered.next, Buffered.flat]
  · intro x b' h
    cases buf with
    | cons y r => simp [Buffered.next] at h; obtain ⟨rfl, rfl⟩ := h; simp [Buffered.flat]
    | nil =>
      cases src with
      | nil => simp [Buffered.next] at h
      | cons y r => simp [Buffered.next] at h; obtain ⟨rfl, rfl⟩ := h; simp [Buffered.flat]
  · intro x; simp [Buffered.push, Buffered.flat]

/-! ## typographic substitution -/

theorem replaceGo_plain (p d : List Nat) : ∀ s : List Nat, (∀ c ∈ s, c ∉ p) → replaceGo p d 0 s = s
  | [], _ => by simp [replaceGo]
  | c :: cs, h => by
    have hc : c ∉ p := h c (by simp)
    have hp : (p.isPrefixOf (c :: cs) && !p.isEmpty) = false := by
      cases p with
      | nil => simp
      | cons a as =>
        have : a ≠ c := fun e => hc (by simp [e])
        simp [List.isPrefixOf, this]
    simp only [replaceGo, hp, Bool.false_eq_true, if_false]
    rw [replaceGo_plain p d cs (fun x hx => h x (by simp [hx]))]

/-- every source pattern of the (regenerated) substitution list consists of quote/dash characters only -/
theorem charsubs_sources_are_triggers : ∀ sd ∈ charsubs, ∀ c ∈ sd.1, trigger c = true := by decide

/-- **Substitution only touches quotes and dashes**: a text without those characters is unchanged -/
theorem charsubs_plain (s : List Nat) (h : ∀ c ∈ s, trigger c = false) : applySubs charsubs s = s := by
  unfold applySubs
  have key : ∀ subs : List (List Nat × List Nat), (∀ sd ∈ subs, ∀ c ∈ sd.1, trigger c = true) →
      subs.foldl (fun v sd => replaceAll sd.1 sd.2 v) s = s := by
    intro subs
    induction subs with
    | nil => intro _; rfl
    | cons sd rest ih =>
      intro hs
      simp only [List.foldl]
      have : replaceAll sd.1 sd.2 s = s := by
        apply replaceGo_plain
        intro c hc hm
        have := hs sd (by simp) c hm
        rw [h c hc] at this
        exact Bool.false_ne_true this
      rw [this]
      exact ih (fun sd' h' => hs sd' (by simp [h']))
  exact key charsubs charsubs_sources_are_triggers

example : applySubs charsubs [96, 96, 87, 39, 39, 45, 45, 45, 97, 45, 45, 98, 39, 115] =
    [8220, 87, 8221, 8212, 97, 8211, 98, 8217, 115] := by decide

/-- **Scope, part 1**: a node whose class suppresses substitution (verbatim, `\verb`, mathematics)
    normalises exactly as with `charsubs=None`, whatever list is passed down to it -/
theorem charsubs_scope_nosub (cs : Bool) (it : Item) (p : Ref) (kids : List Tree) (h : it.nosub = true) :
    norm cs (.node it p kids) = norm false (.node it p kids) := by
  simp [norm, h]

theorem flush_false_chars (o : Ref) (txt : List Tree) :
    allCharsL (flushText false o txt) = txt.flatMap (·.it.chars) := by
  unfold flushText
  by_cases h : txt.isEmpty
  · have : txt = [] := by simpa using h
    simp [this, allCharsL]
  · simp [h, allCharsL, allChars, textItem]

mutual
/-- **Scope, part 2**: with `charsubs=None` normalisation changes no character at any depth -/
theorem norm_false_chars : ∀ t : Tree, allChars (norm false t) = allChars t
  | .node it p kids => by
    simp only [norm, allChars, Bool.false_and]
    split
    · simpa using normKids_false_chars it.ref kids []
    · rfl
theorem normKids_false_chars (o : Ref) : ∀ (ks txt : List Tree),
    allCharsL (normKids false o ks txt) = txt.flatMap (·.it.chars) ++ allCharsL ks
  | [], txt => by
    simp only [normKids, allCharsL, List.append_nil]
    exact flush_false_chars o txt
  | k :: ks, txt => by
    unfold normKids
    by_cases h : k.it.elem
    · simp only [h, if_true]
      have h1 := norm_false_chars k
      have h2 := normKids_false_chars o ks []
      have h0 := flush_false_chars o txt
      have hsp : ∀ r (t : Tree), allChars (t.setParent r) = allChars t := by
        intro r t; cases t; simp [Tree.setParent, allChars]
      have happ : ∀ a b : List Tree, allCharsL (a ++ b) = allCharsL a ++ allCharsL b := by
        intro a b; induction a with
        | nil => simp [allCharsL]
        | cons x xs ih => simp [allCharsL, ih, List.append_assoc]
      rw [happ, h0]
      simp only [allCharsL, hsp, h1]
      simp at h2
      rw [h2]
    · have h' : k.it.elem = false := by simpa using h
      simp only [h', Bool.false_eq_true, if_false]
      rw [normKids_false_chars o ks (txt ++ [k])]
      have : allChars k = k.it.chars := by
        cases k with
        | node i p ks => simp [Tree.it] at h'; simp [allChars, h', Tree.it]
      simp [allCharsL, this, List.append_assoc]
end

/-- **Never inside verbatim or mathematics**: normalising a no-substitution node, with any list,
    leaves every character below it — at any depth — as it was -/
theorem charsubs_never_in_nosub (cs : Bool) (it : Item) (p : Ref) (kids : List Tree) (h : it.nosub = true) :
    allChars (norm cs (.node it p kids)) = allChars (.node it p kids) := by
  rw [charsubs_scope_nosub cs it p kids h]; exact norm_false_chars _

/-- **Applied to running text**: a run of text nodes (no element in between) inside a node that is
    in scope becomes ONE text node holding the substituted concatenation -/
theorem charsubs_applied_to_text_run (cs : Bool) (o : Ref) : ∀ (ks txt : List Tree),
    (∀ k ∈ ks, k.it.elem = false) → normKids cs o ks txt = flushText cs o (txt ++ ks)
  | [], txt, _ => by simp [normKids]
  | k :: ks, txt, h => by
    have hk : k.it.elem = false := h k (by simp)
    unfold normKids
    simp only [hk, Bool.false_eq_true, if_false]
    rw [charsubs_applied_to_text_run cs o ks (txt ++ [k]) (fun x hx => h x (by simp [hx]))]
    simp [List.append_assoc]

/-- non-vacuity: `a--b` in a paragraph becomes one node `a–b`; inside a no-substitution node it stays -/
example : allCharsL (normKids true .out [txt 1 [97], txt 2 [45], txt 3 [45], txt 4 [98]] []) = [97, 8211, 98] := by decide

def charsubs_idempotent_statement : Prop := ∀ s : List Nat, applySubs charsubs (applySubs charsubs s) = applySubs charsubs s

/-- partial: idempotence on text whose substitution result has no quote/dash left
    (missing: that `replaceAll` leaves no occurrence of its pattern, for the 8 patterns in sequence;
    the `subs` stream compares the chain with the live `appendText` on all strings over
    quote/dash/letter up to length 4 (quick) / 6 (thorough)). -/
theorem charsubs_idempotent_partial (s : List Nat) (h : ∀ c ∈ applySubs charsubs s, trigger c = false) :
    applySubs charsubs (applySubs charsubs s) = applySubs charsubs s :=
  charsubs_plain _ h

/-! ## known finding `body-without-par` (as-is behaviour, kernel-checked) -/

def docEnv : Item :=
  { ref := .item 1, elem := true, level := documentLevel, depth := 2, block := false, dk := .env, ty := 2, modeEnd := false,
    egroup := false, isItem := false, ws := false, dynws := false, setctr := false, forcePars := false, nosub := false,
    chars := [], src := [], argLeaves := [] }

/-- `\begin{document}a--b\end{document}`: no paragraph token, `forcePars` unset ⇒ `Environment.digest`
    never calls `paragraphs`, nothing normalises the body: the dashes stay -/
theorem asIs_body_without_par_not_substituted :
    (parse [.node docEnv .unset [], txt 2 [97], txt 3 [45], txt 4 [45], txt 5 [98],
            .node { docEnv with ref := .item 6, modeEnd := true } .unset []]).map allCharsL = some [97, 45, 45, 98] := by
  decide

end PlasVerif.Properties.C07
