import PlasVerif.Proofs.IndexMergeSorted
import PlasVerif.Proofs.IndexColumns
import PlasVerif.Proofs.IndexParse
import PlasVerif.Proofs.IndexRender
/-!
# C18 — The index lists every entry exactly once, under its key, in collation order

Property theorems only; helper lemmas and the auxiliary vocabulary (`pathLt`, `paths`, `pagesOf`,
`GInv`, `StrictTotal`) are in `Proofs/Index*.lean`.  Every theorem holds for every collator `env.coll`,
every `env.ini`, every list of entries and every column count (no bound on sizes).
-/
namespace PlasVerif.Properties.C18
open PlasVerif.Model.Index PlasVerif.Spec.Index PlasVerif.Proofs.Index

/-! ## entry parsing -/

/-- `\index{…}` of any well-formed entry of the grammar (`main!sub!subsub`, `sort@display`, `"`-quoted
    characters, `|format`) records exactly the sort keys, display keys, format and type it names. -/
theorem parse_entry_paths (e : SEntry) (h : e.wf = true) : parseEntry e.render = e.denote :=
  parseEntry_render e h

/-- non-vacuity: `a@b!c"!|see` (tokens: letters, a quoted `!`) -/
example : parseEntry (SEntry.render ⟨⟨some [.plain (.ch true 97)], [.plain (.ch true 98)]⟩,
      [⟨none, [.plain (.ch true 99), .quoted (.ch false 33)]⟩], some [.plain (.ch true 115), .plain (.ch true 101), .plain (.ch true 101)]⟩)
    = { sortkeys := [[.ch true 97], [.ch true 99, .ch false 33]], keys := [[.ch true 98], [.ch true 99, .ch false 33]],
        format := some ([115, 101, 101], []), type := .see } := by decide

/-- Known finding `format-special-chars` (not repaired; only the code as it is is modelled): an unquoted `!` inside
    the `|format` part is still taken as a level separator — `a|see{b!c}` (`{`,`}` opaque tokens 1, 2) records the
    two-level key `a ! see{b` and drops `c}`.  Kernel-checked witness; `parse_entry_paths` excludes it because
    the grammar (`SEntry.wf`) requires `!`, `@`, `|`, `"` to be quoted everywhere, also in the format. -/
theorem format_special_counterexample :
    (parseEntry [.ch true 97, .ch false 124, .ch true 115, .ch true 101, .ch true 101, .oth 1, .ch true 98,
                 .ch false 33, .ch true 99, .oth 2]).keys =
      [[.ch true 97], [.ch true 115, .ch true 101, .ch true 101, .oth 1, .ch true 98]] := by decide

/-! ## ordering -/

/-- `IndexEntry.__lt__` is the lexicographic order (a proper prefix first) of the key paths by the level tuples
    `(collator(sort key), collator(text), sort key, text, source)`, and that order is a strict total order on
    key paths: two entries are unordered exactly when they name the same path. -/
theorem entry_order_is_strict_total_on_paths (env : Env) :
    (∀ a b, entryLt env a b = pathLt env a.path b.path) ∧ StrictTotal (pathLt env) :=
  ⟨entryLt_eq env, pathLt_strictTotal env⟩

/-- `sorted(entries)` is a permutation, no entry stands before a smaller one, and it is stable: the entries of any
    one key path keep their document order. -/
theorem sort_perm_sorted_stable (env : Env) (es : List Entry) :
    (sortEntries env es).Perm es ∧
    (sortEntries env es).Pairwise (fun a b => entryLt env b a = false) ∧
    ∀ p : List Level, (sortEntries env es).filter (fun e => e.path = p) = es.filter (fun e => e.path = p) :=
  ⟨isort_perm es, isort_sorted (pathLt_strictTotal env) (entryLt_eq env) es,
   fun p => isort_filter (key := fun e : Entry => e.path) (pathLt_strictTotal env) (entryLt_eq env) p es⟩

/-- entries at each level are ordered by the collation key of their sort key: a level that is smaller in the
    order never has the larger collation key. -/
theorem level_order_refines_collation (env : Env) (x y : Level) (h : levelLt env x y = true) :
    collLe env x y = true := by
  have ST := strLt_strictTotal
  simp only [levelLt, tupleLt, levelKey, pyListLt] at h
  simp only [collLe, Bool.not_eq_true']
  by_cases e : env.coll x.sk = env.coll y.sk
  · rw [e]; exact ST.irrefl _
  · simp only [e, if_false] at h
    exact ST.asymm _ _ h

private def lower : Str → List Nat := fun s => s.map fun c => if 65 ≤ c ∧ c ≤ 90 then c + 32 else c
private def envL : Env := { coll := lower, ini := fun _ => none }
private def lv (c : Nat) : Level := { sk := [c], txt := [c], src := [c] }

/-- non-vacuity: `a`, `A`, `a` under the fallback collator sort to `A`, `a`, `a` with the two `a` in document order -/
example : sortEntries envL [⟨[lv 97], 0⟩, ⟨[lv 65], 1⟩, ⟨[lv 97], 2⟩] = [⟨[lv 65], 1⟩, ⟨[lv 97], 0⟩, ⟨[lv 97], 2⟩] := by decide

/-! ## the prefix-merge -/

/-- Every entry is attached exactly once, to a node whose key path is the path it names: the page references
    of the index, each with the path of its line, are a permutation of the entries. -/
theorem merge_every_entry_once_under_path (env : Env) (es : List Entry) (h : ∀ e ∈ es, e.path ≠ []) :
    (pagesOf (buildIndex env es)).Perm (es.map fun e => (e.path, e.id)) := by
  have hp : (sortEntries env es).Perm es := isort_perm es
  have hs : ∀ e ∈ sortEntries env es, e.path ≠ [] := fun e he => h e (hp.mem_iff.mp he)
  have := run'_perm (sortEntries env es) [] [] (by intro q hq hpre; exact absurd (List.prefix_nil.mp hpre) hq) hs
  rw [buildIndex, mergeLines_eq]
  exact (by simpa [pagesOf] using this : (pagesOf (run' [] [] (sortEntries env es))).Perm _).trans (hp.map _)

/-- The lines come out in strictly increasing path order.  Hence: one line per key path (entries with the same
    path are merged), and a line stands before another exactly as the order of their paths says. -/
theorem lines_strictly_increasing (env : Env) (es : List Entry) :
    (paths (buildIndex env es)).Pairwise (fun a b => pathLt env a b = true) := by
  rw [buildIndex, mergeLines_eq]
  apply run'_increasing env _ [] [] ⟨by simp [paths], by simp [paths]⟩
  apply List.pairwise_cons.mpr
  constructor
  · intro b _; cases b <;> simp [pathLt, pyListLt]
  · have := (sort_perm_sorted_stable env es).2.1
    rw [List.pairwise_map]
    exact this.imp (fun {a b} h => by rw [entryLt_eq] at h; exact h)

theorem one_line_per_path (env : Env) (es : List Entry) : (paths (buildIndex env es)).Nodup := by
  have ST := pathLt_strictTotal env
  exact (lines_strictly_increasing env es).imp (fun {a b} h e => by subst e; rw [ST.irrefl] at h; cases h)

/-- siblings (same parent path `p`) appear in collation order of their sort keys, and are distinct -/
theorem siblings_in_collation_order (env : Env) (es : List Entry) (p : List Level) (x y : Level)
    (h : List.Sublist [p ++ [x], p ++ [y]] (paths (buildIndex env es))) :
    x ≠ y ∧ levelLt env x y = true ∧ collLe env x y = true := by
  have := List.pairwise_iff_forall_sublist.mp (lines_strictly_increasing env es) h
  simp only [pathLt, pyListLt_append_left, pyListLt] at this
  by_cases e : x = y
  · simp [e] at this
  · simp only [e, if_false] at this
    exact ⟨e, this, level_order_refines_collation env x y this⟩

/-- The page references of a line are occurrences of exactly its path, in document order … -/
theorem pages_per_path_in_document_order (env : Env) (es : List Entry) :
    ∀ l ∈ buildIndex env es, l.pages.Sublist ((es.filter fun e => e.path = l.path).map (·.id)) := by
  intro l hl
  rw [buildIndex, mergeLines_eq] at hl
  have := run'_pages_sublist (sortEntries env es) [] [] [] (by simp) l hl
  rw [List.nil_append, (sort_perm_sorted_stable env es).2.2] at this
  exact this

/-- … and every occurrence is there: one page reference per occurrence of the path. -/
theorem one_page_reference_per_occurrence (env : Env) (es : List Entry) (h : ∀ e ∈ es, e.path ≠ []) :
    ∀ l ∈ buildIndex env es, l.pages = (es.filter fun e => e.path = l.path).map (·.id) := by
  intro l hl
  apply (pages_per_path_in_document_order env es l hl).eq_of_length
  have hperm := merge_every_entry_once_under_path env es h
  have hnd := one_line_per_path env es
  have h1 := (hperm.filter (fun x => x.1 = l.path)).length_eq
  rw [pagesOf_filter_nodup _ hnd l hl] at h1
  simpa [List.filter_map, Function.comp_def] using h1

/-- when the entries are numbered in document order the page references of every line are increasing -/
theorem pages_increasing (env : Env) (es : List Entry) (hid : es.Pairwise (fun a b => a.id < b.id)) :
    ∀ l ∈ buildIndex env es, l.pages.Pairwise (· < ·) := by
  intro l hl
  refine List.Pairwise.sublist (pages_per_path_in_document_order env es l hl) ?_
  rw [List.pairwise_map]
  exact hid.sublist List.filter_sublist

/-- non-vacuity, and the D13 input after the repair: `a A a` gives the two lines `A (1)`, `a (0, 2)` -/
example : buildIndex envL [⟨[lv 97], 0⟩, ⟨[lv 65], 1⟩, ⟨[lv 97], 2⟩] = [⟨[lv 65], [1]⟩, ⟨[lv 97], [0, 2]⟩] := by decide

/-- non-vacuity for look-alike keys: the same sort key with displays that are prefixes of one another (`g@G`, `g@GS`,
    `g@G` again) are different key paths — two lines, the first with both of its occurrences -/
example : buildIndex envL [⟨[⟨[103], [71], [71]⟩], 0⟩, ⟨[⟨[103], [71, 83], [71, 83]⟩], 1⟩, ⟨[⟨[103], [71], [71]⟩], 2⟩] =
    [⟨[⟨[103], [71], [71]⟩], [0, 2]⟩, ⟨[⟨[103], [71, 83], [71, 83]⟩], [1]⟩] := by decide

/-- non-vacuity with sub-levels: `a!b`, `a`, `a!b`, `a!c` -/
example : buildIndex envL [⟨[lv 97, lv 98], 0⟩, ⟨[lv 97], 1⟩, ⟨[lv 97, lv 98], 2⟩, ⟨[lv 97, lv 99], 3⟩] =
    [⟨[lv 97], [1]⟩, ⟨[lv 97, lv 98], [0, 2]⟩, ⟨[lv 97, lv 99], [3]⟩] := by decide

/-- The pinned code before the D13 repair (`node < node` is always `False`, so case variants tie under the
    fallback collator and the stable sort keeps document order): `\index{a}\index{A}\index{a}` gives three
    lines, two of them for the same path — kernel-checked witness. -/
theorem asIs_counterexample :
    buildIndexAsIs envL [⟨[lv 97], 0⟩, ⟨[lv 65], 1⟩, ⟨[lv 97], 2⟩] = [⟨[lv 97], [0]⟩, ⟨[lv 65], [1]⟩, ⟨[lv 97], [2]⟩] := by
  decide

/-! ## letter groups and columns -/

/-- `groups` files the top-level entries under headings: every heading occurs once, no group is empty, a group
    holds exactly the entries of its heading in their sorted order, every entry has its group (so the groups are a
    partition of the entries — a permutation of them that only moves whole headings together), and the groups
    stand in the order of their first entries.  (Hypothesis: the *first* entry does not have the empty heading,
    i.e. `unidecode` does not map the first character of its sort key to `''`.) -/
theorem groups_partition_by_initial {α : Type} (tl : α → Str × Str) (items : List α)
    (h : ∀ x, items.head? = some x → (tl x).2 ≠ []) :
    ∃ gs, groupItems tl items = .ok gs ∧
      (gs.map (·.title)).Nodup ∧
      (∀ g ∈ gs, g.items ≠ [] ∧ g.items = items.filter (fun x => (tl x).2 = g.title)) ∧
      (∀ x ∈ items, ∃ g ∈ gs, g.title = (tl x).2) ∧
      (gs.flatMap (·.items)).Perm items ∧
      (gs.filterMap (·.items.head?)).Sublist items := by
  cases items with
  | nil => exact ⟨[], rfl, by simp, by simp, by simp, by simp, by simp⟩
  | cons x xs =>
    have inv := foldl_addItem_inv tl (x :: xs) [] [] (GInv_nil tl)
    rw [List.nil_append] at inv
    exact ⟨_, groupItems_cons tl x xs (h x rfl), inv.nodup,
      fun g hg => ⟨(inv.items g hg).2, (inv.items g hg).1⟩, inv.covered, inv.perm, inv.heads⟩

/-- The code before the repair of duplicate headings: entries `e…`, `z…`, `é…` (headings `E`, `Z`, `E`; without a
    collator the accented key sorts last) gave two groups headed `E` — kernel-checked witness; after the repair
    the third entry joins the first group. -/
theorem asIs_groups_counterexample :
    (match groupsGoAsIs (fun n : Nat => (([n], [n]) : Str × Str)) [69, 90, 69] [] [] with
      | .ok gs => gs.map (·.title) | .error _ => []) = [[69], [90], [69]] ∧
    (match groupItems (fun n : Nat => (([n], [n]) : Str × Str)) [69, 90, 69] with
      | .ok gs => gs.map (fun g => (g.title, g.items)) | .error _ => []) = [([69], [69, 69]), ([90], [90])] := by
  decide

/-- the heading of an entry: its initial when that is a (run of) letter(s), otherwise one of the two symbol headings -/
theorem heading_cases (env : Env) (sk : Str) :
    (∃ t, env.ini sk = some t ∧ isInfix t PlasVerif.Generated.Index.stringletters = true ∧ (titleOf env sk).2 = t) ∨
    (titleOf env sk).2 = PlasVerif.Generated.Index.titleUnderscore ∨
    (titleOf env sk).2 = PlasVerif.Generated.Index.titleSymbols := by
  unfold titleOf
  cases env.ini sk with
  | none => simp
  | some t =>
    by_cases h1 : isInfix t PlasVerif.Generated.Index.stringletters = true
    · left; exact ⟨t, rfl, h1, by simp [h1]⟩
    · by_cases h2 : t = [95]
      · subst h2; right; left; simp [h1]
      · right; right; simp [h1, h2]

/-- the first entry having the empty heading makes `groups` raise `KeyError` (`bytitle['']` does not exist yet) -/
theorem groups_empty_heading_raises {α : Type} (tl : α → Str × Str) (x : α) (xs : List α) (h : (tl x).2 = []) :
    groupItems tl (x :: xs) = .error .keyError := groupItems_empty_title tl x xs h

/-- The column split of any item list, for every weight function and every `cols ≥ 1`: concatenating the columns
    gives back the items (nothing lost, duplicated or reordered), there are exactly `cols` columns, and the
    non-empty columns come first. -/
theorem columns_partition_in_order {α : Type} (w : α → Nat) (items : List α) (cols : Nat) (h : 1 ≤ cols) :
    (splitColumns w items cols).flatten = items ∧ (splitColumns w items cols).length = cols ∧
    ∃ full pad, splitColumns w items cols = full ++ List.replicate pad [] ∧ ∀ c ∈ full, c ≠ [] :=
  ⟨splitColumns_flatten w items cols, splitColumns_length w items cols h, splitColumns_shape w items cols⟩

/-- non-vacuity: weights 1 2 3 1 1 into 3 columns -/
example : splitColumns (fun i : Nat => [1, 2, 3, 1, 1].getD i 0) [0, 1, 2, 3, 4] 3 = [[0, 1, 2], [3, 4], []] := by decide

/-- `IndexUtils.groups` on the index: one group per heading, each split into exactly `cols` columns; reading the
    columns of a group in order gives exactly the top-level entries of that heading in their sorted order, and all
    groups together hold every top-level entry exactly once. -/
theorem index_groups_and_columns (env : Env) (lines : List Line) (cols : Nat) (hc : 1 ≤ cols)
    (h : ∀ it, (topItems lines).head? = some it → (titleOf env (lineSk it.1)).2 ≠ []) :
    ∃ gs, groups env lines cols = .ok gs ∧ (gs.map (·.title)).Nodup ∧
      (gs.flatMap (fun g => g.items.flatten)).Perm (topItems lines) ∧
      ∀ g ∈ gs, g.items.length = cols ∧ g.items.flatten ≠ [] ∧
        g.items.flatten = (topItems lines).filter (fun it => (titleOf env (lineSk it.1)).2 = g.title) := by
  obtain ⟨gs, h1, h2, h3, _, h5, _⟩ :=
    groups_partition_by_initial (fun it : Line × Nat => titleOf env (lineSk it.1)) (topItems lines) h
  refine ⟨gs.map fun g => { title := g.title, label := g.label, items := splitColumns (·.2) g.items cols }, ?_, ?_, ?_, ?_⟩
  · have hc0 : ¬ cols = 0 := by omega
    simp [groups, h1, hc0]
  · simpa [List.map_map, Function.comp_def] using h2
  · rw [List.flatMap_map]
    simpa [splitColumns_flatten] using h5
  · intro g hg
    obtain ⟨g0, hg0, e⟩ := List.mem_map.mp hg
    subst e
    simp only [splitColumns_flatten]
    exact ⟨splitColumns_length _ _ _ hc, (h3 g0 hg0).1, (h3 g0 hg0).2⟩

/-! ## the generated index (HTML5 template walk) -/

/-- The template's walk — headings, their columns, each item followed by its whole sub-tree (`loop(item)` at every
    depth) — lists every line of the index tree exactly once, under `cols` columns per heading: the `<li>` sequence
    is a permutation of the node list (from its first top-level node on) that keeps every top-level entry together
    with its sub-tree and only moves entries of one heading together (`blocks` below: per heading, the sub-trees of
    that heading's entries in their sorted order). -/
theorem generated_index_lists_every_line (env : Env) (lines : List Line) (cols : Nat) (hc : 1 ≤ cols)
    (hd : ∀ l ∈ lines, 1 ≤ l.path.length)
    (ht : ∀ b, (topBlocks lines).head? = some b → (titleOf env (lineSk b.1)).2 ≠ []) :
    ∃ r, renderIndex env lines cols = .ok r ∧
      (htmlLines r).Perm (lines.dropWhile (fun x => decide (x.path.length > 1))) ∧
      (r.map (·.1)).Nodup ∧
      ∀ g ∈ r, g.2.length = cols ∧
        g.2.flatten = (topBlocks lines).filter (fun b => (titleOf env (lineSk b.1)).2 = g.1) := by
  obtain ⟨gs, h1, h2, h3, _, h5, _⟩ :=
    groups_partition_by_initial (fun b : Line × List Line => titleOf env (lineSk b.1)) (topBlocks lines) ht
  refine ⟨gs.map fun g => (g.title, splitColumns (fun b : Line × List Line => 1 + b.2.length) g.items cols), ?_, ?_, ?_, ?_⟩
  · have hc0 : ¬ cols = 0 := by omega
    simp [renderIndex, h1, hc0]
  · have : htmlLines (gs.map fun g => (g.title, splitColumns (fun b : Line × List Line => 1 + b.2.length) g.items cols))
        = (gs.flatMap (·.items)).flatMap (fun b => b.1 :: b.2) := by
      simp [htmlLines, List.flatMap_map, splitColumns_flatten, List.flatMap_assoc]
    rw [this, ← topBlocks_flat lines hd]
    exact h5.flatMap_right _
  · simpa [List.map_map, Function.comp_def] using h2
  · intro g hg
    obtain ⟨g0, hg0, e⟩ := List.mem_map.mp hg
    subst e
    simp only [splitColumns_flatten]
    exact ⟨splitColumns_length _ _ _ hc, (h3 g0 hg0).2⟩

/-- For the index built from any entry list: the generated index shows exactly the lines of the index tree
    (all levels, nothing dropped or duplicated; entries of one heading brought together). -/
theorem generated_index_is_the_index_tree (env : Env) (es : List Entry) (cols : Nat) (hc : 1 ≤ cols)
    (hne : ∀ e ∈ es, e.path ≠ [])
    (ht : ∀ b, (topBlocks (buildIndex env es)).head? = some b → (titleOf env (lineSk b.1)).2 ≠ []) :
    ∃ r, renderIndex env (buildIndex env es) cols = .ok r ∧ (htmlLines r).Perm (buildIndex env es) := by
  have hp : (sortEntries env es).Perm es := isort_perm es
  have hs : ∀ e ∈ sortEntries env es, e.path ≠ [] := fun e he => hne e (hp.mem_iff.mp he)
  have hd : ∀ l ∈ buildIndex env es, 1 ≤ l.path.length := by
    intro l hl
    have := run'_paths_nonempty (sortEntries env es) [] [] (by simp [paths]) l.path
      (by rw [← mergeLines_eq]; exact List.mem_map.mpr ⟨l, hl, rfl⟩)
    cases hq : l.path with
    | nil => exact absurd hq this
    | cons a r => simp
  obtain ⟨r, h1, h2, _⟩ := generated_index_lists_every_line env (buildIndex env es) cols hc hd ht
  refine ⟨r, h1, ?_⟩
  have := mergeLines_head_top (sortEntries env es) hs
  rw [buildIndex, ← this]
  exact h2

/-- non-vacuity: a three-level entry is rendered at depth three -/
example : (match renderIndex envL (buildIndex envL [⟨[lv 97, lv 98, lv 99], 0⟩, ⟨[lv 97], 1⟩]) 2 with
      | .ok r => htmlLines r | .error _ => []) =
    [⟨[lv 97], [1]⟩, ⟨[lv 97, lv 98], []⟩, ⟨[lv 97, lv 98, lv 99], [0]⟩] := by decide

end PlasVerif.Properties.C18
