import PlasVerif.Proofs.MacroRun
/-!
# C02 — Macro definitions expand exactly as TeX's substitution rules say

Property theorems only (helper lemmas: `Proofs/Macro.lean`).  Model = `Model/Macro.lean`
(plasTeX as written, after the fix commits D8, D15, D16, D17); Spec = `Spec/TeXMacro.lean`
(TeXbook ch. 20).
-/
namespace PlasVerif.Properties.C02
open PlasVerif.Model.Macro PlasVerif.Spec.TeXMacro PlasVerif.Proofs.Macro PlasVerif.Proofs.MacroRun

/-- **Substitution.** For every replacement text of the grammar (tokens, `#k` with `1 ≤ k ≤ n`, `##`;
    any length, any order) and every list of `n` actual arguments, `expandDef` yields exactly TeX's
    substitution: `#k` ↦ k-th argument, `##` ↦ `#`, every other token unchanged, nothing else. -/
theorem subst_is_tex (items : List BItem) (args : List (List Tok))
    (h : ∀ it ∈ items, WFItem args.length it) :
    substBody (renderBody items) (none :: args.map some) = .ok (texSubst items args) :=
  substGo_render args items h

example : substBody (renderBody [.tok (.ch 11 97), .par 2, .hash 35, .par 1]) [none, some [.ch 11 120], some [.ch 11 121, .ch 11 122]]
    = .ok [.ch 11 97, .ch 11 121, .ch 11 122, .ch 6 35, .ch 11 120] := by rfl

/-- **Undelimited parameter.** Whenever TeX's rule is defined on the input (next non-blank token, or a
    balanced group, not a `}`) and the argument does not start with a math shift (NF-prog), `readArgument`
    returns exactly TeX's argument (group braces removed) and leaves exactly TeX's rest. -/
theorem match_undelimited_is_tex (s a rest : List Tok)
    (h : texUndelimited s = some (a, rest)) (hm : ∀ t ts, skipBlanks s = t :: ts → t.isMath = false) :
    readArgument s = (some a, rest) :=
  readArgument_of_texUndelimited s a rest h hm

example : readArgument [.ch 10 32, .ch 1 123, .ch 11 120, .ch 1 123, .ch 2 125, .ch 2 125, .ch 11 121]
    = (some [.ch 11 120, .ch 1 123, .ch 2 125], [.ch 11 121]) := by decide

/-- a `\def` with one undelimited parameter, called on any input on which TeX's matching is defined:
    the model call step = TeX's call step (same produced tokens, same rest) -/
theorem call_step_refines_undelimited1 (items : List BItem) (s a rest : List Tok)
    (hw : ∀ it ∈ items, WFItem 1 it)
    (h : texUndelimited s = some (a, rest)) (hm : ∀ t ts, skipBlanks s = t :: ts → t.isMath = false) :
    invokeDef (renderPText ⟨[], [[]]⟩) (renderBody items) s = .ok (texSubst items [a], rest) := by
  have hr := readArgument_of_texUndelimited s a rest h hm
  have hs := substGo_render [a] items (by simpa using hw)
  simp only [List.map, substBody] at hs ⊢
  simp [invokeDef, invokeDefWith, renderPText, renderParams, hashTok, digitTok, matchGo, Tok.isParam, inDigits,
    Tok.text, isDigit, hr, substBody, hs, Except.map]

/-- **Delimited and undelimited parameters, any parameter text.**  For every parameter text of the grammar
    (literal prefix, up to 9 parameters, each undelimited or delimited by any non-empty token sequence) and every
    input on which TeX's matching is defined and NF-prog 3 holds (`nf3`: the text matched by a delimited parameter
    does not contain the first token of its delimiter; no `$` as undelimited argument), `Definition.invoke`'s
    pattern walk collects exactly TeX's arguments — shortest match up to the whole delimiter, outer braces of a
    one-group argument removed — and leaves exactly TeX's rest. -/
theorem match_delimited_is_tex (pt : PText) (s : List Tok) (args : List (List Tok)) (rest : List Tok)
    (hn : pt.params.length ≤ 9) (hpre : ∀ t ∈ pt.pre, t.isParam = false)
    (hdel : ∀ d ∈ pt.params, ∀ t ∈ d, t.isParam = false)
    (h : texMatch pt s = some (args, rest)) (hnf : nf3 pt s = true) :
    matchPattern (renderPText pt) s = .ok (none :: args.map some, rest) :=
  matchPattern_of_texMatch pt s args rest hn hpre hdel h hnf

example : matchPattern (renderPText ⟨[.ch 12 40], [[.ch 12 46, .ch 12 44], []]⟩)
      [.ch 12 40, .ch 1 123, .ch 11 120, .ch 2 125, .ch 12 46, .ch 12 44, .ch 10 32, .ch 11 121, .ch 11 122]
    = .ok ([none, some [.ch 11 120], some [.ch 11 121]], [.ch 11 122]) := by rfl

/-- **One macro call in the model = one macro call of TeX**, for every well-formed definition (`WFMacro`: any pattern of
    delimited/undelimited parameters, any replacement text) and every input inside NF-prog on which TeX's call is
    defined: same produced tokens, same rest of the input. -/
theorem call_step_refines (pt : PText) (items : List BItem) (s out rest : List Tok) (wf : WFMacro pt items)
    (h : texCall pt items s = .ok (out, rest)) :
    invokeDef (renderPText pt) (renderBody items) s = .ok (out, rest) :=
  invokeDef_of_texCall pt items s out rest wf h

example : invokeDef (renderPText ⟨[], [[.ch 12 46], []]⟩) (renderBody [.par 2, .tok (.ch 12 45), .par 1])
      [.ch 1 123, .ch 11 120, .ch 11 121, .ch 2 125, .ch 12 46, .ch 11 122, .ch 11 119]
    = .ok ([.ch 11 122, .ch 12 45, .ch 11 120, .ch 11 121], [.ch 11 119]) := by rfl

/-- TeX/LaTeX side of the absent case: the default is the argument, nothing but blanks is consumed -/
theorem optional_default_tex (d s : List Tok)
    (h2 : ∀ t ts, skipBlanks s = t :: ts → isOpenAny t = false) : texOptional d s = some (d, skipBlanks s) := by
  unfold texOptional
  cases hs : skipBlanks s with
  | nil => rfl
  | cons t ts =>
    have ha := h2 t ts hs
    have hl : isLBrack t = false := by
      cases hlb : isLBrack t with
      | false => rfl
      | true => rw [isOpenAny_eq, lbrack_open t hlb] at ha; cases ha
    simp [ha, hl]

/-- **Optional argument, absent**: `#1` is the declared default, for every input whose next non-blank token is not `[`. -/
theorem optional_default (nargs : Nat) (d s : List Tok)
    (h : ∀ t ts, skipBlanks s = t :: ts → isOpenBr t = false) :
    (collectNewcommand nargs (some d) s).1[1]? = some (some d) := by
  unfold collectNewcommand readOptional
  rw [dropSpaces_eq_skipBlanks]
  cases hs : skipBlanks s with
  | nil => simp [optValue]
  | cons t ts => simp [h t ts hs, optValue]

/-- **Optional argument, present**: the bracket content (outer braces of a one-group content removed, D17). -/
theorem optional_present (nargs : Nat) (d s ts : List Tok) (t : Tok)
    (hs : skipBlanks s = t :: ts) (ht : isOpenBr t = true) :
    (collectNewcommand nargs (some d) s).1[1]? = some (some (stripDelimited (readBracket 1 ts).1)) := by
  unfold collectNewcommand readOptional
  rw [dropSpaces_eq_skipBlanks, hs]
  simp [ht, optValue]

/-- **Optional argument, present, is TeX's**: when the bracket content has no bracket character of its own
    (NF-prog 3), `#1` is exactly the text TeX delimits by `]`, outer braces of a one-group content removed, and the
    input continues right after the `]`. -/
theorem optional_present_is_tex (nargs : Nat) (d s ts p r : List Tok) (t : Tok)
    (hs : skipBlanks s = t :: ts) (ht : isLBrack t = true)
    (hscan : texScan [rBrack] 0 ts = some (p, r))
    (hnf : ∀ x ∈ p, isOpenBr x = false ∧ isCloseBr x = false) :
    texOptional d s = some (texStrip p, r) ∧
    (collectNewcommand nargs (some d) s).1[1]? = some (some (texStrip p)) ∧
    (readOptional s).2 = r := by
  have hob : isOpenBr t = true := by
    cases t with
    | ch cat c => simp [isLBrack] at ht; split at ht <;> simp_all [isOpenBr]
    | cs n => simp [isLBrack] at ht
    | el n => simp [isLBrack] at ht
  have hsplit := texScan_split _ _ _ _ _ hscan
  have hrb : readBracket 1 ts = (p, r) := by
    rw [hsplit]; simpa using readBracket_plain r p hnf
  refine ⟨?_, ?_, ?_⟩
  · simp [texOptional, hs, ht, hscan]
  · unfold collectNewcommand readOptional
    rw [dropSpaces_eq_skipBlanks, hs]
    simp [hob, hrb, stripDelimited_eq_texStrip, optValue]
  · unfold readOptional
    rw [dropSpaces_eq_skipBlanks, hs]
    simp [hob, hrb]

/-- **One call of a `\\newcommand` macro in the model = one call in LaTeX/TeX**, for every argument count (0–9), with or
    without optional argument (absent → the declared default; present → the bracket content, NF-prog 3), every
    replacement text and every input on which the TeX side is defined: same produced tokens, same rest.
    (A `[` of another category than 12 in front of the arguments is outside the Spec's domain: TeX does not take it for a bracket, plasTeX does.) -/
theorem newcommand_call_refines (nargs : Nat) (opt : Option (List Tok)) (items : List BItem)
    (s out rest : List Tok) (hw : ∀ it ∈ items, WFItem nargs it) (ho : opt.isSome = true → 1 ≤ nargs)
    (h : texLatexCall nargs opt items s = .ok (out, rest)) :
    invokeNewcommand nargs opt (renderBody items) s = .ok (out, rest) :=
  invokeNewcommand_of_texLatexCall nargs opt items s out rest hw ho h

example : invokeNewcommand 2 (some [.ch 11 68]) (renderBody [.tok (.ch 12 40), .par 1, .tok (.ch 12 44), .par 2, .tok (.ch 12 41)])
      [.ch 10 32, .ch 12 91, .ch 1 123, .ch 11 111, .ch 2 125, .ch 12 93, .ch 11 121, .ch 11 122]
    = .ok ([.ch 12 40, .ch 11 111, .ch 12 44, .ch 11 121, .ch 12 41], [.ch 11 122]) := by rfl

example : (collectNewcommand 2 (some [.ch 11 68]) [.ch 11 120]).1 = [none, some [.ch 11 68], some [.ch 11 120]] := by decide
example : (collectNewcommand 2 (some [.ch 11 68]) [.ch 12 91, .ch 11 111, .ch 12 93, .ch 11 120]).1
    = [none, some [.ch 11 111], some [.ch 11 120]] := by decide

/-- operations that (re)define a name -/
inductive DefOp where
  | def_ (n : Name) (args : List Tok) (body : Option (List Tok)) (isLocal : Bool)
  | newc (n : Name) (nargs : Nat) (opt body : Option (List Tok))

def DefOp.name : DefOp → Name | .def_ n .. => n | .newc n .. => n
def DefOp.apply (e : Env) : DefOp → Env
  | .def_ n a b l => newdef n a b l e
  | .newc n k o b => newcommand n k o b e

theorem lookup_apply_ne (a : Name) (op : DefOp) (e : Env) (h : op.name ≠ a) : lookup a (op.apply e) = lookup a e := by
  cases op with
  | def_ n args body l =>
    simp only [DefOp.name] at h
    cases l
    · simp [DefOp.apply, newdef, lookup_setGlobal_ne a n _ h, lookup_dropLocals_ne a n h]
    · simp [DefOp.apply, newdef, lookup_setLocal_ne a n _ _ h]
  | newc n k o b =>
    simp only [DefOp.name] at h
    simp only [DefOp.apply, newcommand]
    split <;> first | exact lookup_setLocal_ne a n _ _ h | rfl

/-- **`\let` snapshot.** After `\let\a=\b`, `\a` has the meaning `\b` had at that moment, whatever sequence of
    later `\def`/`\gdef`/`\newcommand`/`\renewcommand` redefines `\b` (or any name other than `\a`), locally or globally. -/
theorem let_snapshot (a b : Name) (m : Meaning) (e : Env) (hb : lookup b e = some m) (ops : List DefOp)
    (h : ∀ op ∈ ops, op.name ≠ a) :
    lookup a (ops.foldl DefOp.apply (letCs a b e)) = some m := by
  have base : lookup a (letCs a b e) = some m := by
    simp [letCs, getItem, hb, lookup_setLocal_same]
  revert base
  generalize letCs a b e = e'
  induction ops generalizing e' with
  | nil => intro hb; simpa using hb
  | cons op ops ih =>
    intro hb'
    simp only [List.foldl]
    apply ih (fun o ho => h o (List.mem_cons_of_mem _ ho))
    rw [lookup_apply_ne a op e' (h op List.mem_cons_self)]; exact hb'

example : lookup [97] ([DefOp.def_ [98] [] (some [.ch 11 121]) false].foldl DefOp.apply
    (letCs [97] [98] (newdef [98] [] (some [.ch 11 120]) true initEnv))) = some (.defn [] (some [.ch 11 120])) := by decide

/-- **D8, pinned code**: kernel-checked witness that the code before the `fix:` commit keeps the braces of a
    delimited argument that is one group (`\def\a#1.{\b#1}`, `\a{xy}.`), while the repaired code gives TeX's result. -/
theorem asIs_counterexample :
    invokeDefAsIs [hashTok, digitTok 1, .ch 12 46] [.cs [98], hashTok, digitTok 1]
        [.ch 1 123, .ch 11 120, .ch 11 121, .ch 2 125, .ch 12 46]
      = .ok ([.cs [98], .ch 1 123, .ch 11 120, .ch 11 121, .ch 2 125], []) ∧
    invokeDef [hashTok, digitTok 1, .ch 12 46] [.cs [98], hashTok, digitTok 1]
        [.ch 1 123, .ch 11 120, .ch 11 121, .ch 2 125, .ch 12 46]
      = .ok ([.cs [98], .ch 11 120, .ch 11 121], []) ∧
    (texCall ⟨[], [[.ch 12 46]]⟩ [.tok (.cs [98]), .par 1] [.ch 1 123, .ch 11 120, .ch 11 121, .ch 2 125, .ch 12 46]).toOption
      = some ([.cs [98], .ch 11 120, .ch 11 121], []) :=
  ⟨rfl, rfl, rfl⟩

/-! ## `\\csname` and `\\expandafter` -/

def csnameName : Name := [99, 115, 110, 97, 109, 101]
def expandafterName : Name := [101, 120, 112, 97, 110, 100, 97, 102, 116, 101, 114]

theorem macroNameOf_char (cat c : Nat) (h1 : cat ≠ 1) (h2 : cat ≠ 2) : macroNameOf (.ch cat c) = none := by
  match cat, h1, h2 with
  | 0, _, _ => rfl
  | 1, h, _ => exact absurd rfl h
  | 2, _, h => exact absurd rfl h
  | n + 3, _, _ => rfl

theorem tooBig_of_le (s : List Tok) (h : s.length ≤ 4000) : tooBig s = false := by
  simp [tooBig]; omega

/-- the loop inside `\csname`: character tokens up to `\endcsname` are collected into the name, in order, nothing else
    is consumed and the definitions in force are untouched (any number of characters, any extra fuel) -/
theorem csnameGo_chars (fx : Bool) (rest : List Tok) (env : Env)
    (hend : lookup endcsnameName env = some (.prim .endcsname endcsnameName)) :
    ∀ (chars : List (Nat × Nat)) (acc : List Nat) (e : Nat),
    (∀ x ∈ chars, x.1 ≠ 1 ∧ x.1 ≠ 2) → chars.length + rest.length + 1 ≤ 4000 →
    csnameGo fx (chars.length + 3 + e) acc ⟨chars.map (fun x => Tok.ch x.1 x.2) ++ .cs endcsnameName :: rest, env⟩
      = .ok (acc ++ chars.map (·.2), ⟨rest, env⟩) := by
  intro chars
  induction chars with
  | nil =>
    intro acc e _ hsz
    have hb : tooBig (Tok.cs endcsnameName :: rest) = false := tooBig_of_le _ (by simp at hsz ⊢; omega)
    have h3 : 0 + 3 + e = (e + 1 + 1) + 1 := by omega
    simp only [List.length_nil, List.map_nil, List.nil_append, h3]
    simp [csnameGo, next, hb, macroNameOf, invoke, getItem, hend]
  | cons x xs ih =>
    intro acc e hc hsz
    obtain ⟨cat, c⟩ := x
    have hx := hc (cat, c) List.mem_cons_self
    have hb : tooBig (Tok.ch cat c :: (xs.map (fun x => Tok.ch x.1 x.2) ++ .cs endcsnameName :: rest)) = false :=
      tooBig_of_le _ (by simp at hsz ⊢; omega)
    have h3 : (xs.length + 1) + 3 + e = ((xs.length + 3 + e)) + 1 := by omega
    have h4 : xs.length + 3 + e = (xs.length + 2 + e) + 1 := by omega
    have := ih (acc ++ [c]) e (fun y hy => hc y (List.mem_cons_of_mem _ hy)) (by simp at hsz ⊢; omega)
    simp only [List.length_cons, List.map_cons, List.cons_append, h3]
    conv => lhs; unfold csnameGo
    rw [h4]
    simp only [next, hb, macroNameOf_char cat c hx.1 hx.2]
    rw [← h4]
    simpa [Tok.text] using this

/-- TeX's `\csname` on the same input builds the same name and leaves the same rest -/
theorem texCsname_chars (rest : List Tok) (tbl : Table)
    (hend : tbl.lookup endcsnameName = some (.prim .endcsname)) :
    ∀ (chars : List (Nat × Nat)) (acc : List Nat) (e : Nat),
    (∀ x ∈ chars, x.1 = 10 ∨ x.1 = 11 ∨ x.1 = 12) → chars.length + rest.length + 1 ≤ 4000 →
    texCsname (chars.length + 1 + e) tbl acc (chars.map (fun x => Tok.ch x.1 x.2) ++ .cs endcsnameName :: rest)
      = .ok (acc ++ chars.map (·.2), rest) := by
  intro chars
  induction chars with
  | nil =>
    intro acc e _ hsz
    have h1 : ([] : List (Nat × Nat)).length + 1 + e = e + 1 := by simp; omega
    have hl : ¬ (rest.length + 1 > 4000) := by simp at hsz; omega
    rw [h1]; simp [texCsname, hend, hl]
  | cons x xs ih =>
    intro acc e hc hsz
    obtain ⟨cat, c⟩ := x
    have hx := hc (cat, c) List.mem_cons_self
    have := ih (acc ++ [c]) e (fun y hy => hc y (List.mem_cons_of_mem _ hy)) (by simp at hsz ⊢; omega)
    have h3 : (xs.length + 1) + 1 + e = (xs.length + 1 + e) + 1 := by omega
    have hl : ¬ (xs.length + (rest.length + 1) + 1 > 4000) := by simp at hsz; omega
    simp only [List.length_cons, List.map_cons, List.cons_append, h3]
    simp only [texCsname]
    simp only at hx
    simp [hx, this, hl]

/-- **`\csname … \endcsname` builds the control sequence named by the characters.**  One round of the expansion loop
    at `\csname c₁…cₙ\endcsname rest` continues exactly as at `\c₁…cₙ rest`, with the definitions in force unchanged —
    for every name length and every extra fuel; TeX's rule (`texCsname_chars`) yields the same name and the same rest. -/
theorem csname_builds_name (fx : Bool) (chars : List (Nat × Nat)) (rest : List Tok) (env : Env) (nm : Name) (e : Nat)
    (hcs : lookup csnameName env = some (.prim .csname nm))
    (hend : lookup endcsnameName env = some (.prim .endcsname endcsnameName))
    (hc : ∀ x ∈ chars, x.1 ≠ 1 ∧ x.1 ≠ 2) (hsz : chars.length + rest.length + 2 ≤ 4000) :
    next fx (chars.length + 5 + e)
        ⟨.cs csnameName :: (chars.map (fun x => Tok.ch x.1 x.2) ++ .cs endcsnameName :: rest), env⟩
      = next fx (chars.length + 3 + e) ⟨.cs (chars.map (·.2)) :: rest, env⟩ := by
  have hb : tooBig (Tok.cs csnameName :: (chars.map (fun x => Tok.ch x.1 x.2) ++ .cs endcsnameName :: rest)) = false :=
    tooBig_of_le _ (by simp; omega)
  have h5 : chars.length + 5 + e = ((chars.length + 3 + e) + 1) + 1 := by omega
  have hg := csnameGo_chars fx rest env hend chars [] e hc (by omega)
  rw [h5]
  conv => lhs; unfold next
  simp only [hb, macroNameOf]
  conv => lhs; unfold invoke
  simp only [getItem, hcs, hg]
  simp

example : run false 50 ⟨[.cs [99,115,110,97,109,101], .ch 11 122, .ch 11 113, .cs [101,110,100,99,115,110,97,109,101], .ch 11 120],
    newdef [122, 113] [] (some [.ch 11 81]) true initEnv⟩ = .ok [81, 120] := by rfl

/-- **`\expandafter` expands the second token exactly once and puts the first one back in front.**  With `\n₂` a
    user macro whose call on the following input produces `exp` (possibly empty) and leaves `rest''`, the tokens returned
    by `\expandafter t₁ \n₂ …` are `t₁` followed by `exp`, not expanded further, and the input continues at `rest''`. -/
theorem expandafter_reorders_model (fx : Bool) (t1 : Tok) (n2 : Name) (rest' exp rest'' : List Tok) (env : Env)
    (args : List Tok) (body : List Tok) (f : Nat)
    (hl : lookup n2 env = some (.defn args (some body)))
    (hcall : invokeDef args body rest' = .ok (exp, rest'')) :
    expAfter fx (f + 2) (t1 :: .cs n2 :: rest') env = .ok (t1 :: exp, ⟨rest'', env⟩) := by
  conv => lhs; unfold expAfter
  simp only
  conv => lhs; unfold expandOnce
  simp [getItem, hl, hcall]

/-- TeX's rule for the same situation -/
theorem expandafter_reorders_tex (t1 : Tok) (n2 : Name) (rest' exp rest'' : List Tok) (tbl : Table)
    (pt : PText) (items : List BItem) (f : Nat)
    (hea : tbl.lookup expandafterName = some (.prim .expandafter))
    (hl : tbl.lookup n2 = some (.macro pt items))
    (hcall : texCall pt items rest' = .ok (exp, rest'')) :
    texExpand (f + 2) tbl expandafterName (t1 :: .cs n2 :: rest') = .ok (some (t1 :: (exp ++ rest''))) := by
  conv => lhs; unfold texExpand
  simp only [hea]
  conv => lhs; unfold texExpand
  simp [hl, hcall, Except.map]

/-- **`\expandafter` reorders as in TeX**: for every well-formed macro `\n₂` (any parameter text) and every input in
    NF-prog on which TeX's call of `\n₂` is defined (also with an empty result, D50 fix), the model's `\expandafter` step produces
    exactly the token list TeX's `\expandafter` produces (`t₁`, then the one-step expansion of `\n₂`, then the rest). -/
theorem expandafter_reorders (fx : Bool) (t1 : Tok) (n2 : Name) (rest' exp rest'' : List Tok) (env : Env) (tbl : Table)
    (pt : PText) (items : List BItem) (f : Nat) (wf : WFMacro pt items)
    (hea : tbl.lookup expandafterName = some (.prim .expandafter))
    (hm : lookup n2 env = some (.defn (renderPText pt) (some (renderBody items))))
    (ht : tbl.lookup n2 = some (.macro pt items))
    (hcall : texCall pt items rest' = .ok (exp, rest'')) :
    (expAfter fx (f + 2) (t1 :: .cs n2 :: rest') env).toOption.map (fun r => r.1 ++ r.2.input)
      = (texExpand (f + 2) tbl expandafterName (t1 :: .cs n2 :: rest')).toOption.map (fun o => o.getD []) := by
  rw [expandafter_reorders_model fx t1 n2 rest' exp rest'' env _ _ f hm
        (call_step_refines pt items rest' exp rest'' wf hcall),
      expandafter_reorders_tex t1 n2 rest' exp rest'' tbl pt items f hea ht hcall]
  simp [Except.toOption]

example : run false 60 ⟨[.cs expandafterName, .cs [97], .cs [98], .ch 11 122],
    newdef [98] [] (some [.ch 11 112, .ch 11 113]) true
      (newdef [97] [hashTok, digitTok 1, hashTok, digitTok 2] (some [.ch 12 91, hashTok, digitTok 1, .ch 12 124, hashTok, digitTok 2, .ch 12 93]) true initEnv)⟩
    = .ok [91, 112, 124, 113, 93, 122] := by rfl

/-! ## known finding D49: `\\expandafter` in front of an unexpandable primitive (dual-variant model) -/

/-- the witness `\gdef\zqd{C}\expandafter\begingroup\def\zqd{x}\endgroup\zqd` -/
def d49Witness : List Tok :=
  [.cs [103, 100, 101, 102], .cs [122, 113, 100], .ch 1 123, .ch 11 67, .ch 2 125, .cs expandafterName, .cs [98, 101, 103, 105, 110, 103, 114, 111, 117, 112], .cs [100, 101, 102], .cs [122, 113, 100], .ch 1 123, .ch 11 120, .ch 2 125, .cs [101, 110, 100, 103, 114, 111, 117, 112], .cs [122, 113, 100]]

/-- **Repaired variant**: when the second token is bound to an unexpandable primitive (anything but `\csname` and
    `\expandafter`), `\expandafter t₁ \n₂` returns `t₁ \n₂` untouched, consumes nothing else and changes no definition —
    exactly TeX's rule (`texExpand` answers "not expandable" and the tokens are put back). -/
theorem expandafter_unexpandable_repaired (t1 : Tok) (n2 nm : Name) (p : Prim) (rest' : List Tok) (env : Env) (f : Nat)
    (hl : lookup n2 env = some (.prim p nm)) (h1 : p ≠ .csname) (h2 : p ≠ .expandafter) :
    expAfter true (f + 2) (t1 :: .cs n2 :: rest') env = .ok ([t1, .cs n2], ⟨rest', env⟩) := by
  conv => lhs; unfold expAfter
  simp only
  conv => lhs; unfold expandOnce
  cases p <;> simp_all [getItem]

theorem expandafter_unexpandable_tex (t1 : Tok) (n2 : Name) (p : TPrim) (rest' : List Tok) (tbl : Table) (f : Nat)
    (hea : tbl.lookup expandafterName = some (.prim .expandafter))
    (hl : tbl.lookup n2 = some (.prim p)) (h1 : p ≠ .csname) (h2 : p ≠ .expandafter) :
    texExpand (f + 2) tbl expandafterName (t1 :: .cs n2 :: rest') = .ok (some (t1 :: .cs n2 :: rest')) := by
  conv => lhs; unfold texExpand
  simp only [hea]
  conv => lhs; unfold texExpand
  cases p <;> simp_all

/-- **As-is variant, kernel-checked counterexample**: on the witness the code as it is prints `x` (the `\def` is executed
    by `\expandafter` before `\begingroup` opens the group, so it is not undone by `\endgroup`), TeX prints `C`,
    and the repaired variant prints `C`. -/
theorem asIs_counterexample_D49 :
    runProgram 60 d49Witness = .ok [120] ∧
    (texProgram 60 d49Witness).toOption = some [67] ∧
    runProgramRepaired 60 d49Witness = .ok [67] :=
  ⟨rfl, rfl, rfl⟩

/-! ## whole programs -/

/-- **Program-level equality for the fragment {definitions, calls, groups, `\\let`, `\\relax`}.**
    `texRun fragOk` is the independent TeX evaluator of `Spec/TeXMacro.lean` started with the primitives
    `\def \gdef \let \relax \begingroup \endgroup` (`fragTable`) — so `\newcommand`, `\csname`, `\expandafter` are undefined,
    i.e. outside — and restricted by `fragOk` (no definition of a reserved name such as `\bgroup`/`\egroup`/`\=`; no `\ifx` in a replacement text).  For EVERY program `p` (any token list: any
    number of definitions with any parameter texts, local and global, nested calls in bodies and arguments, aliases,
    groups nested to any depth) and EVERY fuel: if TeX's evaluation is defined — which includes NF-prog 3 at every call —
    and prints `v`, then the model of plasTeX's expansion loop, started in the corresponding frame (`fragEnv`), prints
    exactly `v` for all sufficiently large fuel, in both variants of the known finding D49. -/
theorem run_eq_texRun_fragment (fx : Bool) (fuel : Nat) (p : List Tok) (v : List Nat)
    (h : texRun fragOk fuel ⟨p, fragTable, []⟩ = .ok v) :
    ∃ F, ∀ k, run fx (F + k) ⟨p, fragEnv⟩ = .ok v := by
  obtain ⟨F, hF⟩ := run_of_texRun_frag fx fuel p v h
  exact ⟨F, fun k => run_mono fx F k _ v hF⟩

private def cs (s : String) : Tok := .cs (nm s)
private def lt (c : Char) : Tok := .ch 11 c.toNat
private def ot (c : Char) : Tok := .ch 12 c.toNat
private def bgT : Tok := .ch 1 123
private def egT : Tok := .ch 2 125

/-- `\def\a#1.#2{[#2#1]}{\gdef\b{Q}\let\c\a \def\a{z}\c xy.{w}\a}\b\a{k}.m`  prints  `[wxy]zQ[mk]` -/
def fragExample : List Tok :=
  [cs "def", cs "a", hashTok, digitTok 1, ot '.', hashTok, digitTok 2, bgT, ot '[', hashTok, digitTok 2, hashTok, digitTok 1, ot ']', egT,
   bgT, cs "gdef", cs "b", bgT, lt 'Q', egT, cs "let", cs "c", cs "a", cs "def", cs "a", bgT, lt 'z', egT,
        cs "c", lt 'x', lt 'y', ot '.', bgT, lt 'w', egT, cs "a", egT,
   cs "b", cs "a", bgT, lt 'k', egT, ot '.', lt 'm']

example : (texRun fragOk 40 ⟨fragExample, fragTable, []⟩).toOption = some ("[wxy]zQ[mk]".toList.map Char.toNat) := by rfl
example : run false 40 ⟨fragExample, fragEnv⟩ = .ok ("[wxy]zQ[mk]".toList.map Char.toNat) := by rfl

/-- **One step of TeX's `expand` is reproduced by the loop** — user macros of both kinds, `\csname … \endcsname` with
    any expandable content (nested `\csname`, `\expandafter`, macro calls), `\expandafter` chains of any length: whenever
    `texExpand` turns `\n rest` into `inp`, every result the model's loop reaches from `inp` it also reaches from `\n rest`
    (same definitions in force).  Second part: the whole `\csname` loop builds the same name and leaves the same rest.
    (`Good fx env tbl`: the frame stack and TeX's table agree; with `fx = false` the table has no `\expandafter`: D49.) -/
theorem expansion_refines_partial (fx : Bool) (env : Env) (tbl : Table) (hg : Good fx env tbl) (f : Nat) :
    (∀ n rest inp, texExpand f tbl n rest = .ok (some inp) → tooBig (.cs n :: rest) = false →
        ∀ G x, next fx G ⟨inp, env⟩ = .ok x → ∃ G', next fx G' ⟨.cs n :: rest, env⟩ = .ok x) ∧
    (∀ acc inp name rest', texCsname f tbl acc inp = .ok (name, rest') →
        ∃ G, csnameGo fx G acc ⟨inp, env⟩ = .ok (name, ⟨rest', env⟩)) :=
  ⟨(expand_sim fx env tbl hg f).1, (expand_sim fx env tbl hg f).2.1⟩

/-- non-vacuity of `Good`: the initial frame and table of the language without `\expandafter` (code as is) and of the whole
    language (repaired variant) satisfy it -/
example : Good false noEAEnv noEATable := (envRel_noEA false).1
example : Good true initEnv condTable := envRel_language.1

/-- `\def\zq{a}\csname \zq\endcsname` style: the name is built through a macro; both sides evaluated -/
example : (texCsname 10 (tblOf noEAPairs ++ [(nm "zq", .macro ⟨[], []⟩ [.tok (lt 'b')])]) [] [lt 'a', cs "zq", cs "endcsname", lt 'x']).toOption
    = some ([97, 98], [lt 'x']) := by rfl

/-- **Program-level equality, everything but `\expandafter`.**  As `run_eq_texRun_fragment`, with `\newcommand`,
    `\renewcommand` (optional argument, defaults), `\csname … \endcsname` (names built through macros, nested) added to the
    language: for every program and every fuel, if the TeX evaluator (started with all primitives of the macro language except
    `\expandafter`, restricted by `fragOk`) prints `v`, the model prints `v` for all sufficiently large fuel — in both
    variants of D49.  Missing towards `run_eq_texRun_statement`: `\expandafter` (next theorem, repaired variant only) and
    the `fragOk` restrictions. -/
theorem run_eq_texRun_noexpandafter_partial (fx : Bool) (fuel : Nat) (p : List Tok) (v : List Nat)
    (h : texRun fragOk fuel ⟨p, noEATable, []⟩ = .ok v) :
    ∃ F, ∀ k, run fx (F + k) ⟨p, noEAEnv⟩ = .ok v := by
  obtain ⟨F, hF⟩ := run_of_texRun_noEA fx fuel p v h
  exact ⟨F, fun k => run_mono fx F k _ v hF⟩

/-- `\newcommand\a[2][D]{(#1,#2)}\def\n{a}\a x\csname\n\endcsname[o]{y}{\renewcommand\a[1]{<#1>}\a z}\a w` prints `(D,x)(o,y)<z>(D,w)` -/
def noEAExample : List Tok :=
  [cs "newcommand", cs "a", ot '[', ot '2', ot ']', ot '[', lt 'D', ot ']', bgT, ot '(', hashTok, digitTok 1, ot ',', hashTok, digitTok 2, ot ')', egT,
   cs "def", cs "n", bgT, lt 'a', egT,
   cs "a", lt 'x',
   cs "csname", cs "n", cs "endcsname", ot '[', lt 'o', ot ']', bgT, lt 'y', egT,
   bgT, cs "renewcommand", cs "a", ot '[', ot '1', ot ']', bgT, ot '<', hashTok, digitTok 1, ot '>', egT, cs "a", lt 'z', egT,
   cs "a", lt 'w']

example : (texRun fragOk 60 ⟨noEAExample, noEATable, []⟩).toOption = some ("(D,x)(o,y)<z>(D,w)".toList.map Char.toNat) := by rfl
example : run false 60 ⟨noEAExample, noEAEnv⟩ = .ok ("(D,x)(o,y)<z>(D,w)".toList.map Char.toNat) := by rfl

/-- **Program-level equality for the whole macro language with `\ifx` (repaired variant of D49).**
    `texRun fragOk … ⟨p, condTable, []⟩` is the Spec's evaluator with ALL its primitives (`\def \gdef \newcommand \renewcommand \let
    \csname \endcsname \expandafter \relax \begingroup \endgroup`, braces, and the conditional `\ifx … \else … \fi` of NF-prog 4/6),
    i.e. the correspondence's oracle `texProgramC` restricted by `fragOk` only.  For every program and every fuel: if it prints
    `v`, then `runProgramRepaired` — the model started in its own initial frame `initEnv` — prints `v` for all sufficiently
    large fuel.  Covered: macros of both kinds with any parameter texts, local/global definitions, aliases, groups, `\csname`,
    `\expandafter` chains, and conditionals (comparison of characters / plain-text macros, nested conditionals, with or
    without `\else`, the branch taken from `TeX.processIfContent`'s scan).  Missing towards `run_eq_texRun_statement`:
    (1) the code as is (false there: D49, see `asIs_counterexample_D49`); (2) the `fragOk` restriction (see there). -/
theorem run_eq_texRun_language_partial (fuel : Nat) (p : List Tok) (v : List Nat)
    (h : texRun fragOk fuel ⟨p, condTable, []⟩ = .ok v) :
    ∃ F, ∀ k, runProgramRepaired (F + k) p = .ok v := by
  obtain ⟨F, hF⟩ := run_of_texRun_language fuel p v h
  exact ⟨F, fun k => run_mono true F k _ v hF⟩

/-- the fragment evaluator is the oracle: a run under `fragOk` is a run of `texProgramC` with the same result -/
theorem fragment_run_is_texProgram_partial (fuel : Nat) (p : List Tok) (v : List Nat)
    (h : texRun fragOk fuel ⟨p, condTable, []⟩ = .ok v) : texProgramC fuel p = .ok v :=
  texRun_weaken fragOk (fun _ _ => true) (fun _ _ _ => rfl) fuel _ v h

/-- `\newcommand\a[2][D]{(#1,#2)}\def\b{pq}\expandafter\a\b\csname a\endcsname[o]y` prints `(D,p)q(o,y)` -/
def langExample : List Tok :=
  [cs "newcommand", cs "a", ot '[', ot '2', ot ']', ot '[', lt 'D', ot ']', bgT, ot '(', hashTok, digitTok 1, ot ',', hashTok, digitTok 2, ot ')', egT,
   cs "def", cs "b", bgT, lt 'p', lt 'q', egT,
   cs "expandafter", cs "a", cs "b",
   cs "csname", lt 'a', cs "endcsname", ot '[', lt 'o', ot ']', lt 'y']

example : (texRun fragOk 30 ⟨langExample, condTable, []⟩).toOption = some ("(D,p)q(o,y)".toList.map Char.toNat) := by rfl
example : texProgramC 30 langExample = .ok ("(D,p)q(o,y)".toList.map Char.toNat) :=
  fragment_run_is_texProgram_partial 30 langExample _ (by rfl)
set_option maxHeartbeats 1000000 in
example : runProgramRepaired 30 langExample = .ok ("(D,p)q(o,y)".toList.map Char.toNat) := by rfl

/-- `\def\b{pq}\expandafter\relax\b` (an unexpandable first token stays, the second is expanded once): prints `pq` -/
example : (texRun fragOk 12 ⟨[cs "def", cs "b", bgT, lt 'p', lt 'q', egT, cs "expandafter", cs "relax", cs "b"], condTable, []⟩).toOption
    = some [112, 113] := by rfl

/-! ## `\ifx` (NF-prog 4) -/

/-- **`\ifx` compares as TeX does.**  For two operands that TeX classifies as two character tokens, or as two macros without
    parameter text whose replacement texts are plain characters (`ifxKind`; NF-prog 4), the values the code's `XTok` reader
    computes (`xtokOfTok`: the token itself, resp. the children of the fragment `expandTokens` returns) compare equal
    (`ifValEq`: tokens by category and character, fragments child by child AND by length) exactly when TeX says the two tokens
    agree — for texts of any length, in particular when one text is a proper prefix of the other.
    Not covered by a theorem (stated nowhere stronger, tied by the `prog` stream): the branch selection of
    `TeX.processIfContent` (`ifScan`/`ifChoose` against `texBranches`), which is C03's subject. -/
theorem ifx_compare_is_tex_partial (fx : Bool) (env : Env) (tbl : Table) (hg : Good fx env tbl) (t1 t2 : Tok)
    (k1 k2 : IfxKind) (b : Bool)
    (h1 : ifxKind tbl t1 = some k1) (h2 : ifxKind tbl t2 = some k2) (hb : ifxAgree k1 k2 = some b) :
    ∃ v1 v2, xtokOfTok env t1 = .ok v1 ∧ xtokOfTok env t2 = .ok v2 ∧ ifValEq v1 v2 = b :=
  ifx_compare_is_tex fx env tbl hg t1 t2 k1 k2 b h1 h2 hb

/-- a text and a proper extension of it are different, a text and itself are equal, the empty text differs from a non-empty one -/
example : ifValEq (ifValOf [lt 'x', lt 'y']) (ifValOf [lt 'x', lt 'y', lt 'z']) = false ∧
          ifValEq (ifValOf [lt 'x', lt 'y']) (ifValOf [lt 'x', lt 'y']) = true ∧
          ifValEq (ifValOf []) (ifValOf [lt 'p', lt 'q']) = false := by decide

/-- `\def\a{xy}\def\c{xyz}\ifx\a\c T\else F\fi\ifx\a\a S\fi` prints `FS`, in the model and in TeX -/
def ifxExample : List Tok :=
  [cs "def", cs "a", bgT, lt 'x', lt 'y', egT, cs "def", cs "c", bgT, lt 'x', lt 'y', lt 'z', egT,
   cs "ifx", cs "a", cs "c", lt 'T', cs "else", lt 'F', cs "fi", cs "ifx", cs "a", cs "a", lt 'S', cs "fi"]

example : (texProgramC 30 ifxExample).toOption = some [70, 83] := by rfl
example : (texRun fragOk 30 ⟨ifxExample, condTable, []⟩).toOption = some [70, 83] := by rfl
example : runProgramRepaired 40 ifxExample = .ok [70, 83] := by rfl
example : runProgram 40 ifxExample = .ok [70, 83] := by rfl

/-- **Branch selection is TeX's (NF-prog 6).**  Wherever TeX's skipping of conditional text is defined (`texBranches`: nesting
    by the MEANING of tokens; it is undefined on a token whose name and meaning disagree — `condNamesOk`: `\if…` names are
    conditionals, `\fi` is `\fi`, `\else` is `\else`, no `\newif`, no `\or` — which is NF-prog 6 made precise, cf. observation
    O4), the scan of `TeX.processIfContent` (nesting by NAME) returns exactly the text TeX would process if the test is true,
    exactly the text it would process if it is false, and stops exactly after the matching `\fi` — for any nesting depth, with
    or without `\else`.  Used in `run_eq_texRun_language_partial`. -/
theorem branch_selection_is_tex_partial (tbl : Table) (r tb fb after : List Tok)
    (h : texBranches tbl 0 false [] [] r = some (tb, fb, after)) (b : Bool) :
    ifChoose (ifScan 0 [] [] r).1 b ++ (ifScan 0 [] [] r).2 = (if b then tb else fb) ++ after :=
  ifScan_is_texBranches tbl r tb fb after h b

/-- `T \ifx ab U\fi \else F\fi rest`: a nested conditional inside the first branch, an `\else`, the rest -/
example : ifScan 0 [] [] [lt 'T', cs "ifx", lt 'a', lt 'b', lt 'U', cs "fi", cs "else", lt 'F', cs "fi", lt 'r']
    = ([[lt 'T', cs "ifx", lt 'a', lt 'b', lt 'U', cs "fi"], [lt 'F']], [lt 'r']) := by decide
example : texBranches condTable 0 false [] [] [lt 'T', cs "ifx", lt 'a', lt 'b', lt 'U', cs "fi", cs "else", lt 'F', cs "fi", lt 'r']
    = some ([lt 'T', cs "ifx", lt 'a', lt 'b', lt 'U', cs "fi"], [lt 'F'], [lt 'r']) := by decide
example : ∀ t ∈ [lt 'T', cs "ifx", lt 'a', lt 'b', lt 'U', cs "fi", cs "else", lt 'F', cs "fi", lt 'r'], condAgree condTable t = true := by decide

/-- **One `\ifx … \fi` in the model = one in TeX (NF-prog 4 and 6)**: operands that TeX classifies as two characters or two
    plain-text macros, a conditional text on which names and meanings agree: after `\ifx t₁ t₂`, the loop continues exactly on
    the branch TeX selects followed by what follows the matching `\fi` (`texRun` performs the same rewriting of its input). -/
theorem ifx_step_refines_partial (fx : Bool) (G : Nat) (name nmP : Name) (t1 t2 : Tok) (r tb fb after : List Tok) (env : Env)
    (tbl : Table) (hg : Good fx env tbl) (hl : lookup name env = some (.prim .ifx nmP)) (k1 k2 : IfxKind) (b : Bool)
    (h1 : ifxKind tbl t1 = some k1) (h2 : ifxKind tbl t2 = some k2) (hb : ifxAgree k1 k2 = some b)
    (hbr : texBranches tbl 0 false [] [] r = some (tb, fb, after)) :
    invoke fx (G + 1) name (t1 :: t2 :: r) env = next fx G ⟨(if b then tb else fb) ++ after, env⟩ :=
  ifx_step fx G name nmP t1 t2 r tb fb after env tbl hg hl k1 k2 b h1 h2 hb hbr

/-! ## statement kept at full strength, not proved -/

/-- definitions of names that the code treats specially are outside NF-prog (the statement is false there: redefining
    `\bgroup` changes what `{` does in plasTeX, `\let\a\=` skips the `\=`) -/
def namesOk (n : Name) (_ : TMeaning) : Bool := !reservedNames.contains n

/-- Whole programs of the macro language, repaired variant: the model prints what the TeX evaluator prints, wherever the
    latter is defined and no reserved name (`reservedNames`) is defined.
    NOT PROVED in this generality; `run_eq_texRun_language_partial` proves it under the filter `fragOk`.
    Missing, i.e. the only difference between `fragOk` and `namesOk`: replacement texts containing the token `\ifx`
    (`expandDef` wraps a parameter that directly follows `\ifx` in a group, so the token streams of model and TeX differ until
    the conditional is evaluated; conditionals are C03's subject and `\ifx` is not a primitive of this Spec).  Such programs
    are exercised by the `prog` correspondence stream only. -/
def run_eq_texRun_statement : Prop :=
  ∀ (fuel : Nat) (p : List Tok) (v : List Nat),
    texRun namesOk fuel ⟨p, condTable, []⟩ = .ok v → ∃ fuel', ∀ k, runProgramRepaired (fuel' + k) p = .ok v

end PlasVerif.Properties.C02
