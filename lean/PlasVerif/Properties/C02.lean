import PlasVerif.Proofs.Macro
/-!
# C02 — Macro definitions expand exactly as TeX's substitution rules say

Property theorems only (helper lemmas: `Proofs/Macro.lean`).  Model = `Model/Macro.lean`
(plasTeX as written, after the fix commits D8, D15, D16, D17); Spec = `Spec/TeXMacro.lean`
(TeXbook ch. 20).
-/
namespace PlasVerif.Properties.C02
open PlasVerif.Model.Macro PlasVerif.Spec.TeXMacro PlasVerif.Proofs.Macro

/-- **Substitution.** For every replacement text of the grammar (tokens, `#k` with `1 ≤ k ≤ n`, `##`;
    any length, any order) and every list of `n` actual arguments, `expandDef` yields exactly TeX's
    substitution: `#k` ↦ k-th argument, `##` ↦ `#`, every other token unchanged, nothing else. -/
theorem subst_is_tex (items : List BItem) (args : List (List Tok))
    (h : ∀ it ∈ items, WFItem args.length it) :
    substBody (renderBody items) (none :: args.map some) = .ok (texSubst items args) :=
  substGo_render args items h

example : substBody (renderBody [.tok (.ch 11 97), .par 2, .hash 35, .par 1]) [none, some [.ch 11 120], some [.ch 11 121, .ch 11 122]]
    = .ok [.ch 11 97, .ch 11 121, .ch 11 122, .ch 6 35, .ch 11 120] := by rfl

/-- **Undelimited parameter.** Whenever TeX's rule is defined on the input (next non-blank token, or a
    balanced group, not a `}`) and the argument does not start with a math shift (NF-prog), `readArgument`
    returns exactly TeX's argument (group braces removed) and leaves exactly TeX's rest. -/
theorem match_undelimited_is_tex (s a rest : List Tok)
    (h : texUndelimited s = some (a, rest)) (hm : ∀ t ts, skipBlanks s = t :: ts → t.isMath = false) :
    readArgument s = (some a, rest) :=
  readArgument_of_texUndelimited s a rest h hm

example : readArgument [.ch 10 32, .ch 1 123, .ch 11 120, .ch 1 123, .ch 2 125, .ch 2 125, .ch 11 121]
    = (some [.ch 11 120, .ch 1 123, .ch 2 125], [.ch 11 121]) := by decide

/-- a `\def` with one undelimited parameter, called on any input on which TeX's matching is defined:
    the model call step = TeX's call step (same produced tokens, same rest) -/
theorem call_step_refines_undelimited1 (items : List BItem) (s a rest : List Tok)
    (hw : ∀ it ∈ items, WFItem 1 it)
    (h : texUndelimited s = some (a, rest)) (hm : ∀ t ts, skipBlanks s = t :: ts → t.isMath = false) :
    invokeDef (renderPText ⟨[], [[]]⟩) (renderBody items) s = .ok (texSubst items [a], rest) := by
  have hr := readArgument_of_texUndelimited s a rest h hm
  have hs := substGo_render [a] items (by simpa using hw)
  simp only [List.map, substBody] at hs ⊢
  simp [invokeDef, invokeDefWith, renderPText, renderParams, hashTok, digitTok, matchGo, Tok.isParam, inDigits,
    Tok.text, isDigit, hr, substBody, hs, Except.map]

/-- TeX/LaTeX side of the absent case: the default is the argument, nothing but blanks is consumed -/
theorem optional_default_tex (d s : List Tok)
    (h2 : ∀ t ts, skipBlanks s = t :: ts → isLBrack t = false) : texOptional d s = some (d, skipBlanks s) := by
  unfold texOptional
  cases hs : skipBlanks s with
  | nil => rfl
  | cons t ts => simp [h2 t ts hs]

/-- **Optional argument, absent**: `#1` is the declared default, for every input whose next non-blank token is not `[`. -/
theorem optional_default (nargs : Nat) (d s : List Tok)
    (h : ∀ t ts, skipBlanks s = t :: ts → isOpenBr t = false) :
    (collectNewcommand nargs (some d) s).1[1]? = some (some d) := by
  unfold collectNewcommand readOptional
  rw [dropSpaces_eq_skipBlanks]
  cases hs : skipBlanks s with
  | nil => simp
  | cons t ts => simp [h t ts hs]

/-- **Optional argument, present**: the bracket content (outer braces of a one-group content removed, D17). -/
theorem optional_present (nargs : Nat) (d s ts : List Tok) (t : Tok)
    (hs : skipBlanks s = t :: ts) (ht : isOpenBr t = true) :
    (collectNewcommand nargs (some d) s).1[1]? = some (some (stripDelimited (readBracket 1 ts).1)) := by
  unfold collectNewcommand readOptional
  rw [dropSpaces_eq_skipBlanks, hs]
  simp [ht]

example : (collectNewcommand 2 (some [.ch 11 68]) [.ch 11 120]).1 = [none, some [.ch 11 68], some [.ch 11 120]] := by decide
example : (collectNewcommand 2 (some [.ch 11 68]) [.ch 12 91, .ch 11 111, .ch 12 93, .ch 11 120]).1
    = [none, some [.ch 11 111], some [.ch 11 120]] := by decide

/-- operations that (re)define a name -/
inductive DefOp where
  | def_ (n : Name) (args : List Tok) (body : Option (List Tok)) (isLocal : Bool)
  | newc (n : Name) (nargs : Nat) (opt body : Option (List Tok))

def DefOp.name : DefOp → Name | .def_ n .. => n | .newc n .. => n
def DefOp.apply (e : Env) : DefOp → Env
  | .def_ n a b l => newdef n a b l e
  | .newc n k o b => newcommand n k o b e

theorem lookup_apply_ne (a : Name) (op : DefOp) (e : Env) (h : op.name ≠ a) : lookup a (op.apply e) = lookup a e := by
  cases op with
  | def_ n args body l =>
    simp only [DefOp.name] at h
    cases l
    · simp [DefOp.apply, newdef, lookup_setGlobal_ne a n _ h, lookup_dropLocals_ne a n h]
    · simp [DefOp.apply, newdef, lookup_setLocal_ne a n _ _ h]
  | newc n k o b =>
    simp only [DefOp.name] at h
    simp only [DefOp.apply, newcommand]
    split <;> first | exact lookup_setLocal_ne a n _ _ h | rfl

/-- **`\let` snapshot.** After `\let\a=\b`, `\a` has the meaning `\b` had at that moment, whatever sequence of
    later `\def`/`\gdef`/`\newcommand`/`\renewcommand` redefines `\b` (or any name other than `\a`), locally or globally. -/
theorem let_snapshot (a b : Name) (m : Meaning) (e : Env) (hb : lookup b e = some m) (ops : List DefOp)
    (h : ∀ op ∈ ops, op.name ≠ a) :
    lookup a (ops.foldl DefOp.apply (letCs a b e)) = some m := by
  have base : lookup a (letCs a b e) = some m := by
    simp [letCs, getItem, hb, lookup_setLocal_same]
  revert base
  generalize letCs a b e = e'
  induction ops generalizing e' with
  | nil => intro hb; simpa using hb
  | cons op ops ih =>
    intro hb'
    simp only [List.foldl]
    apply ih (fun o ho => h o (List.mem_cons_of_mem _ ho))
    rw [lookup_apply_ne a op e' (h op List.mem_cons_self)]; exact hb'

example : lookup [97] ([DefOp.def_ [98] [] (some [.ch 11 121]) false].foldl DefOp.apply
    (letCs [97] [98] (newdef [98] [] (some [.ch 11 120]) true initEnv))) = some (.defn [] (some [.ch 11 120])) := by decide

/-- **D8, pinned code**: kernel-checked witness that the code before the `fix:` commit keeps the braces of a
    delimited argument that is one group (`\def\a#1.{\b#1}`, `\a{xy}.`), while the repaired code gives TeX's result. -/
theorem asIs_counterexample :
    invokeDefAsIs [hashTok, digitTok 1, .ch 12 46] [.cs [98], hashTok, digitTok 1]
        [.ch 1 123, .ch 11 120, .ch 11 121, .ch 2 125, .ch 12 46]
      = .ok ([.cs [98], .ch 1 123, .ch 11 120, .ch 11 121, .ch 2 125], []) ∧
    invokeDef [hashTok, digitTok 1, .ch 12 46] [.cs [98], hashTok, digitTok 1]
        [.ch 1 123, .ch 11 120, .ch 11 121, .ch 2 125, .ch 12 46]
      = .ok ([.cs [98], .ch 11 120, .ch 11 121], []) ∧
    (texCall ⟨[], [[.ch 12 46]]⟩ [.tok (.cs [98]), .par 1] [.ch 1 123, .ch 11 120, .ch 11 121, .ch 2 125, .ch 12 46]).toOption
      = some ([.cs [98], .ch 11 120, .ch 11 121], []) :=
  ⟨rfl, rfl, rfl⟩

/-- `\csname`: with the characters of a name followed by `\endcsname` in the input, one step builds the control sequence
    and continues with it at the head of the input (concrete instance, checked by evaluation). -/
example : run 50 ⟨[.cs [99,115,110,97,109,101], .ch 11 122, .ch 11 113, .cs [101,110,100,99,115,110,97,109,101], .ch 11 120],
    newdef [122, 113] [] (some [.ch 11 81]) true initEnv⟩ = .ok [81, 120] := by rfl

/-! ## statements kept at full strength, not proved in this round (tied by the correspondence streams) -/

/-- delimited parameters (any number, multi-token delimiters, literal prefix), under NF-prog 3 -/
def match_delimited_is_tex_statement : Prop :=
  ∀ (pt : PText) (items : List BItem) (s : List Tok) (out rest : List Tok),
    (∀ it ∈ items, WFItem pt.params.length it) → pt.params.length < 10 →
    (∀ t ∈ pt.pre, t.isParam = false ∧ t.isBg = false) →
    (∀ d ∈ pt.params, ∀ t ∈ d, t.isParam = false ∧ t.isBg = false) →
    (∀ t ∈ s, t.isMath = false) →
    texCall pt items s = .ok (out, rest) →
    invokeDef (renderPText pt) (renderBody items) s = .ok (out, rest)

/-- whole programs: model run = independent TeX evaluation, wherever the latter is defined (NF-prog) -/
def run_eq_texRun_statement : Prop :=
  ∀ (fuel : Nat) (p : List Tok) (v : List Nat),
    texProgram fuel p = .ok v → ∃ fuel', runProgram fuel' p = .ok v

theorem run_step_char (f cat c : Nat) (rest : List Tok) (env : Env) (hc : cat = 11 ∨ cat = 12)
    (hb : tooBig (.ch cat c :: rest) = false) :
    run (f + 2) ⟨.ch cat c :: rest, env⟩ = (run (f + 1) ⟨rest, env⟩).map (c :: ·) := by
  rcases hc with rfl | rfl
  · conv => lhs; unfold run
    simp only [next, hb, macroNameOf, visibleOf]; rfl
  · conv => lhs; unfold run
    simp only [next, hb, macroNameOf, visibleOf]; rfl

/-- proved part of `run_eq_texRun_statement`: programs consisting of letters and other characters only
    (no macro call, no group); everything else is carried by the `prog` correspondence stream -/
theorem run_eq_texRun_partial (cs : List (Nat × Nat)) (h : ∀ x ∈ cs, x.1 = 11 ∨ x.1 = 12) (hl : cs.length ≤ 4000) (env : Env) :
    run (cs.length + 2) ⟨cs.map (fun x => .ch x.1 x.2), env⟩ = .ok (cs.map (·.2)) := by
  induction cs with
  | nil => rfl
  | cons x xs ih =>
    obtain ⟨cat, c⟩ := x
    have hx := h (cat, c) List.mem_cons_self
    have hxs := ih (fun y hy => h y (List.mem_cons_of_mem _ hy)) (by simp at hl; omega)
    have hbig : tooBig (Tok.ch cat c :: xs.map (fun x => Tok.ch x.1 x.2)) = false := by
      simp [tooBig]; simp at hl; omega
    simp only [List.map, List.length]
    rw [run_step_char _ cat c _ env hx hbig, hxs]; rfl

end PlasVerif.Properties.C02
