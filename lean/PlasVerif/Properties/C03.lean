import PlasVerif.Proofs.IfScan
import PlasVerif.Proofs.TeXTests
import PlasVerif.Proofs.IfInvoke
/-!
# C03 — Conditionals process exactly the branch TeX would select

Property theorems only; helper lemmas are in `Proofs/IfScan.lean`.
`scan`/`processIf`/`run` model `TeX.processIfContent` and the expansion loop; `ev`, `eff`, `decl`
model the test primitives and the `\newif` triple; `Item/Body/Cases`, `flat`, `texSelect`, `den`
are the Spec (conditional trees of any depth, their spelling, TeX's selection rule).
-/
namespace PlasVerif.Properties.C03
open PlasVerif.Model.IfScan PlasVerif.Model.Tests PlasVerif.Spec.CondTree PlasVerif.Spec.TeXTests
open PlasVerif.Proofs.IfScan PlasVerif.Proofs.TeXTests

variable {τ α σ : Type}

/-! ## the branch scanner -/

/-- **Nesting clause.**  A whole (arbitrarily deep) program placed inside a conditional that is
    being scanned is appended unchanged to the current case, whatever the nesting level: none of
    its `\or`, `\else`, `\fi` splits or terminates the conditional around it. -/
theorem inner_never_terminates_outer (b : Body τ α) (rest : List (Tok τ α)) (n : Nat)
    (done : List (List (Tok τ α))) (cur : List (Tok τ α)) (ef : Bool) :
    scan (b.flat ++ rest) n done cur ef = scan rest n done (cur ++ b.flat) ef :=
  scan_body b rest n done cur ef

/-- For every conditional tree (any number of `\or` cases, with or without `\else`, any depth of
    nesting inside the branches) followed by any `rest`, the scanner returns exactly the
    top-level branches, stops at the matching `\fi` and leaves exactly `rest`. -/
theorem scan_flatten (cs : Cases τ α) (he : Bool) (e : Body τ α) (rest : List (Tok τ α)) :
    scan (cs.flat ++ ((if he then .else_ :: e.flat else []) ++ .fi :: rest)) 0 [] [] false =
      .ok ⟨cs.bodies.map Body.flat ++ (if he then [e.flat] else []), rest, true, he⟩ :=
  scan_condTail cs he e rest

/-- non-vacuity: `\if.. a \if.. b \else c \fi \or d \else e \fi r` -/
example : scan ((Cases.more (.cons (.tok 1) (.cons (.cond 0 (.last (.cons (.tok 2) .nil)) true (.cons (.tok 3) .nil)) .nil))
      (.last (.cons (.tok 4) .nil)) : Cases Nat Nat).flat ++ ((if true then .else_ :: (Body.cons (.tok 5) .nil).flat else []) ++ .fi :: [.other 6]))
      0 [] [] false
    = .ok ⟨[[.other 1, .ifl 0, .other 2, .else_, .other 3, .fi], [.other 4], [.other 5]], [.other 6], true, true⟩ := by
  rw [scan_flatten]; simp [Cases.bodies]

/-- **Selection = TeX's rule; untaken branches contribute nothing.**  After
    `processIfContent(which)` on a conditional tree the input stream is exactly the branch TeX
    selects (the i-th listed case, the `\else` part, or nothing) followed by `rest`: the tokens of
    every other branch are gone without having been expanded or executed. -/
theorem processIf_selects (w : Which) (cs : Cases τ α) (he : Bool) (e : Body τ α) (rest : List (Tok τ α))
    (hw : ∀ b, w = .bool b → cs.isLast = true) :
    processIf w (cs.flat ++ ((if he then .else_ :: e.flat else []) ++ .fi :: rest)) =
      .ok ((match texSelect w cs.count with
            | some i => (cs.bodies.map Body.flat).getD i []
            | none => if he then e.flat else []) ++ rest, true) := by
  have := processIf_condTail w cs he e rest
  rw [select_branches w cs he e hw] at this
  exact this

/-- a true boolean test: the then-branch, nothing else -/
theorem processIf_bool_true (b e : Body τ α) (he : Bool) (rest : List (Tok τ α)) :
    processIf (.bool true) ((Cases.last b).flat ++ ((if he then .else_ :: e.flat else []) ++ .fi :: rest)) =
      .ok (b.flat ++ rest, true) := by
  rw [processIf_selects _ _ _ _ _ (by intros; rfl)]; simp [texSelect, Cases.bodies]

/-- a false boolean test: the `\else` branch if there is one, nothing otherwise -/
theorem processIf_bool_false (b e : Body τ α) (he : Bool) (rest : List (Tok τ α)) :
    processIf (.bool false) ((Cases.last b).flat ++ ((if he then .else_ :: e.flat else []) ++ .fi :: rest)) =
      .ok ((if he then e.flat else []) ++ rest, true) := by
  rw [processIf_selects _ _ _ _ _ (by intros; rfl)]; simp [texSelect]

/-- `\ifcase n` with `0 ≤ n <` number of listed cases: the n-th case -/
theorem processIf_case_in_range (n : Nat) (cs : Cases τ α) (he : Bool) (e : Body τ α) (rest : List (Tok τ α))
    (hn : n < cs.count) :
    processIf (.case n) (cs.flat ++ ((if he then .else_ :: e.flat else []) ++ .fi :: rest)) =
      .ok ((cs.bodies.map Body.flat).getD n [] ++ rest, true) := by
  rw [processIf_selects _ _ _ _ _ (by intro b hb; cases hb)]
  have : (0 : Int) ≤ n ∧ (n : Int) < cs.count := by omega
  simp [texSelect, this]

/-- `\ifcase n` with `n < 0` or `n ≥` number of listed cases: the `\else` branch if there is one,
    nothing otherwise (no exception) — false of the pinned code before the D2 repair. -/
theorem processIf_case_out_of_range (n : Int) (cs : Cases τ α) (he : Bool) (e : Body τ α) (rest : List (Tok τ α))
    (hn : n < 0 ∨ (cs.count : Int) ≤ n) :
    processIf (.case n) (cs.flat ++ ((if he then .else_ :: e.flat else []) ++ .fi :: rest)) =
      .ok ((if he then e.flat else []) ++ rest, true) := by
  rw [processIf_selects _ _ _ _ _ (by intro b hb; cases hb)]
  have : ¬ (0 ≤ n ∧ n < (cs.count : Int)) := by omega
  simp [texSelect, this]

/-- non-vacuity: `\ifcase 3 a\or b\else c\fi X` leaves `cX`; `\ifcase -1 a\or b\fi X` leaves `X` -/
example : processIf (.case 3) ((Cases.more (.cons (.tok 97) .nil) (.last (.cons (.tok 98) .nil)) : Cases Nat Nat).flat ++
      ((if true then .else_ :: (Body.cons (.tok 99) .nil).flat else []) ++ .fi :: [.other 88])) = .ok ([.other 99, .other 88], true) := by
  rw [processIf_case_out_of_range _ _ _ _ _ (by simp [Cases.count])]; simp
example : processIf (.case (-1)) ((Cases.more (.cons (.tok 97) .nil) (.last (.cons (.tok 98) .nil)) : Cases Nat Nat).flat ++
      ((if false then .else_ :: Body.nil.flat else []) ++ .fi :: [.other 88])) = .ok ([.other 88], true) := by
  rw [processIf_case_out_of_range _ _ _ _ _ (by simp)]; simp

/-- The pinned code before the D2 repair: `\ifcase 5 a\or b\fi` raises `IndexError`,
    `\ifcase 3 a\or b\else c\fi` selects nothing instead of `c` (kernel-checked witnesses). -/
theorem asIs_counterexample_indexError :
    processIfAsIs (.case 5) ([.other 97, .or_, .other 98, .fi, .other 88] : List (Tok Nat Nat)) = .error .indexError := by
  rfl
theorem asIs_counterexample_else_ignored :
    processIfAsIs (.case 3) ([.other 97, .or_, .other 98, .else_, .other 99, .fi, .other 88] : List (Tok Nat Nat))
      = .ok ([.other 88], true) := by
  rfl
theorem asIs_counterexample_negative :
    processIfAsIs (.case (-1)) ([.other 97, .or_, .other 98, .else_, .other 99, .fi, .other 88] : List (Tok Nat Nat))
      = .ok ([.other 88], true) := by
  rfl

/-! ## whole programs -/

/-- **Main theorem.**  For every program of the grammar — conditionals of all kinds nested to any
    depth, with or without `\else`, `\ifcase` with any selector, mixed with ordinary tokens,
    `\newif` declarations and setters — every interpretation of tests and token effects, every
    start state and every continuation `rest`: running the interpreter on the spelled program
    does exactly what TeX's rule prescribes (`den`): each test is evaluated in the state reached
    so far, exactly the selected branch is executed, all other branches produce no output and no
    state change; then the run continues with `rest`. -/
theorem conditionals_process_selected_branch (S : Sem τ α σ) (isCase : τ → Bool)
    (hk : ∀ t s b, S.ev t s = .ok (.bool b) → isCase t = false)
    (b : Body τ α) (hwf : b.wf isCase = true) (rest : List (Tok τ α)) (s : σ) (out : List α) :
    run S (b.flat ++ rest) s out =
      match b.den S s out with
      | .error x => .error x
      | .ok (s', out') => run S rest s' out' :=
  run_body S isCase hk b hwf rest s out

/-- whole-program form: the run of a spelled program *is* its denotation -/
theorem program_run_eq_den (S : Sem τ α σ) (isCase : τ → Bool)
    (hk : ∀ t s b, S.ev t s = .ok (.bool b) → isCase t = false)
    (b : Body τ α) (hwf : b.wf isCase = true) (s : σ) :
    run S b.flat s [] = b.den S s [] := by
  have := conditionals_process_selected_branch S isCase hk b hwf [] s []
  simp only [List.append_nil] at this
  rw [this]
  cases b.den S s [] with
  | error x => rfl
  | ok r => obtain ⟨s', out'⟩ := r; simp [run_nil]

/-- **No text and no side effect from untaken branches.**  A conditional whose test is true
    behaves exactly like its then-branch alone, whatever stands in the `\else` branch. -/
theorem true_conditional_is_its_then_branch (S : Sem τ α σ) (isCase : τ → Bool)
    (hk : ∀ t s b, S.ev t s = .ok (.bool b) → isCase t = false)
    (t : τ) (b e : Body τ α) (he : Bool) (hb : b.wf isCase = true) (hE : e.wf isCase = true)
    (rest : List (Tok τ α)) (s : σ) (out : List α) (ht : S.ev t s = .ok (.bool true)) :
    run S ((Item.cond t (.last b) he e).flat ++ rest) s out = run S (b.flat ++ rest) s out := by
  have h1 := conditionals_process_selected_branch S isCase hk (.cons (.cond t (.last b) he e) .nil)
    (by simp [hb, hE, Cases.isLast]) rest s out
  have h2 := conditionals_process_selected_branch S isCase hk b hb rest s out
  simp only [flat_cons, flat_nil, List.append_nil] at h1
  rw [h1, h2]
  have : (Item.cond t (.last b) he e).den S s out = b.den S s out := by
    rw [den_cond_some _ _ _ _ _ _ _ (n := 0) _ ht (by simp [texSelect])]; simp
  cases hd : b.den S s out with
  | error x => rw [den_cons_err _ _ _ _ _ x (by rw [this, hd])]
  | ok r => obtain ⟨s', out'⟩ := r; rw [den_cons_ok _ _ _ _ _ s' out' (by rw [this, hd])]; simp

/-- A conditional whose test is false behaves exactly like its `\else` branch alone (like
    nothing at all when there is no `\else`), whatever stands in the then-branch. -/
theorem false_conditional_is_its_else_branch (S : Sem τ α σ) (isCase : τ → Bool)
    (hk : ∀ t s b, S.ev t s = .ok (.bool b) → isCase t = false)
    (t : τ) (b e : Body τ α) (he : Bool) (hb : b.wf isCase = true) (hE : e.wf isCase = true)
    (rest : List (Tok τ α)) (s : σ) (out : List α) (ht : S.ev t s = .ok (.bool false)) :
    run S ((Item.cond t (.last b) he e).flat ++ rest) s out =
      run S ((if he then e.flat else []) ++ rest) s out := by
  have h1 := conditionals_process_selected_branch S isCase hk (.cons (.cond t (.last b) he e) .nil)
    (by simp [hb, hE, Cases.isLast]) rest s out
  simp only [flat_cons, flat_nil, List.append_nil] at h1
  rw [h1]
  have hd : (Item.cond t (.last b) he e).den S s out = if he then e.den S s out else .ok (s, out) := by
    rw [den_cond_none _ _ _ _ _ _ _ _ ht (by simp [texSelect])]
  cases he with
  | false =>
    simp only [Bool.false_eq_true, if_false] at hd ⊢
    rw [den_cons_ok _ _ _ _ _ s out hd]; simp
  | true =>
    simp only [if_true] at hd ⊢
    rw [conditionals_process_selected_branch S isCase hk e hE rest s out]
    cases hde : e.den S s out with
    | error x => rw [den_cons_err _ _ _ _ _ x (by rw [hd, hde])]
    | ok r => obtain ⟨s', out'⟩ := r; rw [den_cons_ok _ _ _ _ _ s' out' (by rw [hd, hde])]; simp

/-! ## the concrete tests and the `\newif` triple -/

theorem sem_kind : ∀ (t : Test) (s : St) (b : Bool), sem.ev t s = .ok (.bool b) → isCase t = false := by
  intro t s b h
  cases t <;> simp_all [sem, ev, isCase]

/-- the main theorem instantiated with the modelled primitives: every well-formed program of
    `\iftrue \iffalse \ifnum \ifdim \ifodd \ifcase \ifx \ifdefined` and `\newif` switches -/
theorem concrete_program_run_eq_den (b : Body Test Act) (hwf : b.wf isCase = true) (s : St) :
    run sem b.flat s [] = b.den sem s [] :=
  program_run_eq_den sem isCase sem_kind b hwf s

/-- non-vacuity: `\ifnum\value{c0}<2 \stepcounter{c0}\else X\fi` twice from `c0 = 1` is well-formed -/
example : (Body.cons (Item.cond (Test.num (.cnt 0) .lt (.lit 2)) (.last (.cons (.tok (Act.step 0)) .nil)) true (.cons (.tok (.chr 88)) .nil))
    (.cons (Item.cond (Test.num (.cnt 0) .lt (.lit 2)) (.last (.cons (.tok (Act.step 0)) .nil)) true (.cons (.tok (.chr 88)) .nil)) .nil)).wf isCase = true := by
  rfl

/-- `\ifnum a r b` decides TeX's relation on the operand values -/
theorem ifnum_decides (a b : Operand) (r : Rel) (s : St) (v : Bool) (h : texRel r (a.val s) (b.val s) = some v) :
    ev (.num a r b) s = .ok (.bool v) := by
  cases r <;> simp_all [ev, Rel.cmp, texRel]

/-- `\ifdim a r b` decides TeX's relation on the dimension operand values (in sp) -/
theorem ifdim_decides (a b : DOperand) (r : Rel) (s : St) (v : Bool) (h : texRel r (a.val s) (b.val s) = some v) :
    ev (.dim a r b) s = .ok (.bool v) := by
  cases r <;> simp_all [ev, Rel.cmp, texRel]

/-- **Operand values are TeX's.**  Whatever signs stand in front of a literal, a `\value`, a
    macro-produced number or a count register: the value the tests compare is
    TeX's ⟨number⟩ (negated iff the number of `-` signs is odd). -/
theorem operand_value_is_TeX (s : St) (o : Operand) : o.val s = texNumber s o := by
  simp [Operand.val, texNumber, valS_eq]

example : (Operand.neg (.reg 0)).val ⟨fun _ => 0, fun _ => none, fun _ => false, fun _ => 3, fun _ => 0⟩ = -3 := by rfl

/-- the same for `\ifdim` operands (signs, `\newdimen` registers, integer multiples of them) -/
theorem dim_operand_value_is_TeX (s : St) (o : DOperand) : o.val s = texDimen s o := by
  simp [DOperand.val, texDimen, dvalS_eq]

/-- `\ifodd n` is true exactly for odd `n`, negative numbers included (Python's `%` is non-negative for divisor 2) -/
theorem ifodd_decides (a : Operand) (s : St) : ev (.odd a) s = .ok (.bool (texOdd (a.val s))) := by
  simp only [ev, texOdd, Except.ok.injEq, Which.bool.injEq]
  generalize a.val s = n
  rw [Bool.eq_iff_iff]
  simp only [bne_iff_ne, ne_eq, beq_iff_eq]
  omega

example : ev (.odd (.lit (-3))) ⟨fun _ => 0, fun _ => none, fun _ => false, fun _ => 0, fun _ => 0⟩ = .ok (.bool true) := by rfl

/-- `\ifcase n` passes the operand value as the selector -/
theorem ifcase_selector (a : Operand) (s : St) : ev (.case_ a) s = .ok (.case (a.val s)) := rfl

/-- `\ifx` on NF-prog operands (two characters, or two macros): TeX's rule -/
theorem ifx_decides (a b : XTok) (s : St) (h : nfIfx a b = true) : ev (.ifx a b) s = .ok (.bool (texIfx a b)) := by
  cases a <;> cases b <;> simp_all [ev, nfIfx, texIfx, XTok.expand]

theorem ifdefined_decides (n : Nat) (s : St) : ev (.defined n) s = .ok (.bool (s.defd n)) := rfl

/-- **Setter names.**  For every switch name `if<rest>` — also when `<rest>` itself starts with `i` or
    `f` (`\iffoo`, `\iffirst`, `\ifitem`, `\ififi…`) — `\newif` registers exactly the switch under its
    own name and the setters `\<rest>true`, `\<rest>false` that TeX prescribes. -/
theorem newif_setter_names (rest : List Nat) :
    texSetterNames (105 :: 102 :: rest) = some ((newifNames (105 :: 102 :: rest)).2.1, (newifNames (105 :: 102 :: rest)).2.2)
    ∧ (newifNames (105 :: 102 :: rest)).1 = 105 :: 102 :: rest := by
  simp [texSetterNames, newifNames, trueSuffix, falseSuffix]

/-- `\newif\iffoo` gives `\footrue` / `\foofalse` (not `\ootrue`) -/
example : newifNames [105, 102, 102, 111, 111] = ([105, 102, 102, 111, 111], [102, 111, 111, 116, 114, 117, 101], [102, 111, 111, 102, 97, 108, 115, 101]) := by rfl

/-- the setters of two different switches never coincide, and a true-setter is never a false-setter of the same switch -/
theorem newif_setters_distinct (r1 r2 : List Nat) (h : r1 ≠ r2) :
    (newifNames (105 :: 102 :: r1)).2.1 ≠ (newifNames (105 :: 102 :: r2)).2.1 ∧
    (newifNames (105 :: 102 :: r1)).2.2 ≠ (newifNames (105 :: 102 :: r2)).2.2 := by
  simp [newifNames, h]

/-- a switch created by `\newif` is initially false -/
theorem newif_initial_false (k : Nat) (s : St) (h : s.sw k = none) :
    ev (.sw k) (decl (.ifl (.sw k)) s) = .ok (.bool false) := by
  simp [decl, ev, h, setSw]

/-- `\<k>true` / `\<k>false` set exactly switch `k` (once created) and leave every other switch
    and every counter alone -/
theorem newif_setters (k : Nat) (v : Bool) (s : St) (h : (s.sw k).isSome = true) :
    ev (.sw k) (eff (.setsw k v) s) = .ok (.bool v) ∧
    (∀ j, j ≠ k → (eff (.setsw k v) s).sw j = s.sw j) ∧ (eff (.setsw k v) s).cnt = s.cnt := by
  simp [eff, h, ev, setSw]
  intro j hj; simp [hj]

/-- switches are global in this implementation (C04 lists them with counters): leaving or
    entering a group changes no switch -/
theorem newif_global (s : St) : (eff .egroup s).sw = s.sw ∧ (eff .bgroup s).sw = s.sw := ⟨rfl, rfl⟩

/-! ## token level: the primitives with their operand scanning, and how the scanner recognises tokens

`Model/IfInvoke.lean` composes the models of `Macro.parse`, `readInteger`, `readDimen` (tied to the code by C05's and
by C03's `invoke`/`condraw`/`testlit` streams) into the test primitives' `invoke`, and `classify` is the
`macroName` chain at the head of the loop of `processIfContent`. -/
section tokenLevel
open PlasVerif.Model.Numbers PlasVerif.Model.IfInvoke PlasVerif.Spec.Literals PlasVerif.Spec.Conform
open PlasVerif.Proofs.Numbers PlasVerif.Proofs.IfInvoke

/-- **`\ifnum` on every literal of TeX's grammar.**  For all integer literals (any run of signs and blanks; decimal,
    octal `'`, hexadecimal `"`, character `` ` `` constants; registers; the optional blank) on both sides of `<`, `>`
    or `=`, followed by anything that cannot continue the second literal: the primitive passes TeX's verdict on the
    two TeX values to the branch scanner and leaves exactly what follows the literal. -/
theorem ifnum_invoke_decides (la lb : IntLit) (c : Nat) (rest : List Tok) (hwa : la.wf = true) (hwb : lb.wf = true)
    (hc : c = 60 ∨ c = 61 ∨ c = 62) (hfb : intFollow lb rest = true) :
    ∃ rest', ifnumInvoke (la.render ++ .ch c :: (lb.render ++ rest)) = .ok (.bool (relVerdict c la.den lb.den), rest')
      ∧ sameText rest' rest := by
  obtain ⟨ss, hp⟩ := parse_num_rel la c (lb.render ++ rest) hwa hc
  obtain ⟨r', hr, hs⟩ := integer_reads lb rest hwb hfb
  refine ⟨r', ?_, hs⟩
  simp only [ifnumInvoke, hp, hr, relChain_rel _ _ _ _ hc, relVerdict]

/-- non-vacuity: `-"1F=31 \relax` is false, `\relax` is left -/
example : ifnumInvoke ((⟨⟨0, [(true, 0)]⟩, .hex [1, 15], false⟩ : IntLit).render ++ .ch 61 ::
    ((⟨⟨0, []⟩, .dec [3, 1], true⟩ : IntLit).render ++ [.cs [114] false])) = .ok (.bool false, [.cs [114] true]) := by rfl

theorem odd_python_eq_tex (n : Int) : (n % 2 != 0) = texOdd n := by
  simp only [texOdd]
  rw [Bool.eq_iff_iff]
  simp only [bne_iff_ne, ne_eq, beq_iff_eq]
  omega

/-- `\ifodd` on every literal form: odd iff the TeX value is odd (negative values included) -/
theorem ifodd_invoke_decides (l : IntLit) (rest : List Tok) (hw : l.wf = true) (hf : intFollow l rest = true) :
    ∃ rest', ifoddInvoke (l.render ++ rest) = .ok (.bool (texOdd l.den), rest') ∧ sameText rest' rest := by
  obtain ⟨r', hr, hs⟩ := integer_reads l rest hw hf
  exact ⟨r', by simp only [ifoddInvoke, hr, odd_python_eq_tex], hs⟩

example : ifoddInvoke ((⟨⟨0, [(true, 1)]⟩, .chr 97, false⟩ : IntLit).render ++ [.cs [102, 105] false]) =
    .ok (.bool true, [.cs [102, 105] false]) := by rfl

/-- `\ifcase` on every literal form: the selector is the TeX value -/
theorem ifcase_invoke_selector (l : IntLit) (rest : List Tok) (hw : l.wf = true) (hf : intFollow l rest = true) :
    ∃ rest', ifcaseInvoke (l.render ++ rest) = .ok (.case l.den, rest') ∧ sameText rest' rest := by
  obtain ⟨r', hr, hs⟩ := integer_reads l rest hw hf
  exact ⟨r', by simp only [ifcaseInvoke, hr], hs⟩

example : ifcaseInvoke ((⟨⟨1, [(true, 0), (true, 2)]⟩, .oct [1, 7], true⟩ : IntLit).render ++ [.ch 88]) =
    .ok (.case 15, [.ch 88]) := by rfl

/-- **`\ifdim` on every dimension literal of TeX's grammar** (any sign run, every fraction form, every physical unit in
    any letter case, `true`, blanks, register multiples, bare registers): TeX's verdict on the two TeX amounts (exact
    rationals in sp), and exactly the two literals and the relation are consumed. -/
theorem ifdim_invoke_decides (la lb : DimLit) (c : Nat) (rest : List Tok)
    (hwa : dimWf false la = true) (hwb : dimWf false lb = true) (hc : c = 60 ∨ c = 61 ∨ c = 62)
    (hoa : la.den.order = 0) (hob : lb.den.order = 0)
    (hfa : dimFollow la (.ch c :: (lb.render ++ rest)) = true) (hfb : dimFollow lb rest = true) :
    ifdimInvoke (la.render ++ .ch c :: (lb.render ++ rest)) =
      .ok (.bool (relVerdict c la.den.amount lb.den.amount), rest) := by
  have h1 := readDimen_lit la _ hwa hfa hoa
  have h2 := readDimen_lit lb _ hwb hfb hob
  simp only [readDimen] at h1 h2
  simp only [ifdimInvoke, PlasVerif.Model.Args.parse, PlasVerif.Model.Args.readArgument, dimArg, tokArg, readDimen,
    readDimenWith_ros, h1, h2, ros_ch]
  simp [h2, relChain_rel _ _ _ _ hc, relVerdict]

/-- non-vacuity: `-1.5pt<2 PT` followed by `\r`: the hypotheses hold -/
example :
    dimWf false ⟨⟨0, [(true, 0)]⟩, .inl ⟨[1], some false, [5]⟩, ⟨0, none, .phys 0, [112, 116], false⟩⟩ = true ∧
    dimWf false ⟨⟨0, []⟩, .inl ⟨[2], none, []⟩, ⟨1, none, .phys 0, [80, 84], false⟩⟩ = true ∧
    (⟨⟨0, [(true, 0)]⟩, .inl ⟨[1], some false, [5]⟩, ⟨0, none, .phys 0, [112, 116], false⟩⟩ : DimLit).den.order = 0 ∧
    dimFollow ⟨⟨0, [(true, 0)]⟩, .inl ⟨[1], some false, [5]⟩, ⟨0, none, .phys 0, [112, 116], false⟩⟩
      (.ch 60 :: ((⟨⟨0, []⟩, .inl ⟨[2], none, []⟩, ⟨1, none, .phys 0, [80, 84], false⟩⟩ : DimLit).render ++ [.cs [114] false])) = true ∧
    dimFollow ⟨⟨0, []⟩, .inl ⟨[2], none, []⟩, ⟨1, none, .phys 0, [80, 84], false⟩⟩ [.cs [114] false] = true := by
  decide +kernel

/-- **`\ifdim` compares the values themselves, in whatever unit.**  For integers `a`, `b` and any positive rational unit `u`
    (1 sp, or 0.65536 sp = 0.00001pt, …) the verdict on `u·a`, `u·b` as exact rationals is the verdict on `a`, `b`:
    differences below one scaled point count, nothing is truncated or rounded before the comparison.  (This is what lets the
    document stream spell the model's integer dimensions in units of 0.00001pt.) -/
theorem ifdim_scale_invariant (c : Nat) (u : Rat) (a b : Int) (hu : 0 < u) :
    relVerdict c (u * (a : Rat)) (u * (b : Rat)) = relVerdict c a b := by
  rw [relVerdict_scale c u _ _ hu]
  simp only [relVerdict, Rat.intCast_lt_intCast, Rat.intCast_inj]

/-- non-vacuity: `0.00001pt > 0pt` (0.65536 sp against 0) is true, `1.5pt = 1.50001pt` is false -/
example : relVerdict 62 ((65536 : Rat) / 100000 * ((1 : Int) : Rat)) ((65536 : Rat) / 100000 * ((0 : Int) : Rat)) = true ∧
    relVerdict 61 ((65536 : Rat) / 100000 * ((150000 : Int) : Rat)) ((65536 : Rat) / 100000 * ((150001 : Int) : Rat)) = false := by
  constructor <;> rw [ifdim_scale_invariant _ _ _ _ (by decide +kernel)] <;> decide

/-! ### recognition of the scanned tokens -/

/-- every control sequence whose name starts with `if` opens a level for the scanner: the listed primitives, every
    `\newif` switch `\if<rest>` — and (observation O4) any other macro so named -/
theorem classify_if_prefix (rest : List Nat) (x : Bool) : classify (.cs (105 :: 102 :: rest) x) = .ifl (105 :: 102 :: rest) := by
  simp [classify, nmNewif]

/-- `\fi`, `\else`, `\or`, `\newif` are recognised by their exact names only (`\file`, `\fill`, `\elsewhere`,
    `\orange`, `\newiffy` are ordinary tokens) -/
theorem classify_exact (n : List Nat) (x : Bool) :
    (classify (.cs n x) = .fi ↔ n = nmFi) ∧ (classify (.cs n x) = .else_ ↔ n = nmElse) ∧
    (classify (.cs n x) = .or_ ↔ n = nmOr) ∧ (classify (.cs n x) = .newif ↔ n = nmNewif) := by
  simp only [classify]
  refine ⟨?_, ?_, ?_, ?_⟩ <;> constructor
  all_goals first
    | (intro h; subst h; simp [nmFi, nmElse, nmOr, nmNewif])
    | (intro h; repeat' split at h
       all_goals first | assumption | (subst_vars; simp_all [nmFi, nmElse, nmOr, nmNewif]) | cases h)

example : classify (.cs [102, 105, 108, 101] false) = .other (.cs [102, 105, 108, 101] false) ∧   -- \file
    classify (.cs [111, 114, 97] false) = .other (.cs [111, 114, 97] false) := by decide            -- \ora

/-- **Look-ahead does not hide a token from the scanner** (D59): a token that a number scanner expanded in place and
    pushed back is recognised exactly like the raw token, so `\ifcase 1\or`, `\ifodd 12\fi`, `\ifnum 1<2\else` work
    without `\relax`. -/
theorem classify_ignores_lookahead (t : Tok) (ts : List Tok) :
    classify (expand t) = classify t ∧ (settle (t :: ts)).map classify = (t :: ts).map classify := by
  refine ⟨classify_expand t, ?_⟩
  simp [settle, classify_expand]

/-- **From raw tokens to the selected branch.**  Whenever a test primitive reads its operands, yields selector `w`
    and leaves a stream that reads (up to in-place expansion) as a conditional body `cases [\else e] \fi rest`, the
    whole primitive leaves exactly the branch TeX selects followed by `rest`. -/
theorem test_then_scan (k : Kind) (ts r tail : List Tok) (w : Which) (hinv : invoke k ts = .ok (w, r))
    (hs : sameText r tail) (cs : Cases (List Nat) Tok) (he : Bool) (e : Body (List Nat) Tok)
    (rest : List (PlasVerif.Model.IfScan.Tok (List Nat) Tok))
    (htail : tail.map classify = cs.flat ++ ((if he then .else_ :: e.flat else []) ++ .fi :: rest))
    (hw : ∀ b, w = .bool b → cs.isLast = true) :
    condInvoke k ts = .ok (((match texSelect w cs.count with
          | some i => (cs.bodies.map Body.flat).getD i []
          | none => if he then e.flat else []) ++ rest).map unclassify, true) := by
  simp only [condInvoke, hinv, processIfRaw, map_classify_sameText r tail hs, htail, processIf_selects w cs he e rest hw]

/-- `\ifcase <literal>` followed by its cases: the literal's TeX value selects (the case list may start right after
    the digits, with `\or`, `\else` or `\fi`) -/
theorem ifcase_literal_selects (l : IntLit) (tail : List Tok) (hw : l.wf = true) (hf : intFollow l tail = true)
    (cs : Cases (List Nat) Tok) (he : Bool) (e : Body (List Nat) Tok) (rest : List (PlasVerif.Model.IfScan.Tok (List Nat) Tok))
    (htail : tail.map classify = cs.flat ++ ((if he then .else_ :: e.flat else []) ++ .fi :: rest)) :
    condInvoke .case_ (l.render ++ tail) = .ok (((match texSelect (.case l.den) cs.count with
          | some i => (cs.bodies.map Body.flat).getD i []
          | none => if he then e.flat else []) ++ rest).map unclassify, true) := by
  obtain ⟨r', hr, hs⟩ := ifcase_invoke_selector l tail hw hf
  exact test_then_scan .case_ _ r' tail _ hr hs cs he e rest htail (by intro b hb; cases hb)

/-- non-vacuity (the D59 witness): `\ifcase 1\or B\fi X` leaves `B X` -/
example : condInvoke .case_ [.ch 49, .cs nmOr false, .ch 66, .cs nmFi false, .ch 88] = .ok ([.ch 66, .ch 88], true) := by rfl

/-- The pinned code before the D59 repair loses the case: the `\or` that the look-ahead of `readInteger` expanded
    is not recognised, `B` is dropped (kernel-checked witness). -/
theorem asIs_counterexample_expanded_or :
    condInvokeAsIs .case_ [.ch 49, .cs nmOr false, .ch 66, .cs nmFi false, .ch 88] = .ok ([.ch 88], true) := by rfl

end tokenLevel

end PlasVerif.Properties.C03
