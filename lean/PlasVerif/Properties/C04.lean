import PlasVerif.Proofs.Context
/-!
# C04 — Grouping restores every local change and leaves the context stack balanced

Property theorems only (helpers in `Proofs/Context.lean`).  `Balanced` histories are the
grammar of the quantifier: plain operations (local/global definitions, `\let`, `\catcode`,
verbatim, lookups with their define-on-miss effect) and groups `push o … pop o` — anonymous
(`{ }`, `\begingroup`) or pushed by an object (environment, math shift, table cell, command
with arguments) — nested and sequenced arbitrarily.
-/
namespace PlasVerif.Properties.C04
open PlasVerif.Model.Context PlasVerif.Model.Catcodes PlasVerif.Spec.Balanced PlasVerif.Proofs.Context

/-- **Closing a group restores everything local.**  For every balanced body, every stack and
    every (non-document) object: after `push o; body; pop o'` the stack is the one before the
    group, except for a change `d` (`Spec.Balanced.Delta`): (a) definitions `d.g` and token aliases `d.gl` added to
    the global frame, each of which has a global-source operation (a global definition, a `\global\let`, or a lookup
    miss) in the body, and (b) the local bindings / aliases of the names `d.ns` / `d.ls` that the body assigned globally
    (`\gdef`, `\global\let`), which are gone at every level (a global assignment replaces the meaning at every group level). -/
theorem group_restores (o o' : Option ObjRef) (locals : List (Nat × Val)) (body : List Op)
    (hb : Balanced body) (ho : notDoc o = true) (hcl : closes o o' = true) (c : Ctx) (hc : c ≠ []) :
    ∃ d : Delta, run (Op.push o locals :: (body ++ [Op.pop o'])) c = shape d c ∧ d.justified body := by
  cases c with
  | nil => exact absurd rfl hc
  | cons f t =>
    obtain ⟨fb, db, h1, e1, j1⟩ :=
      balanced_frame hb { macros := locals, lets := [], cats := cats (f :: t), obj := o } (f :: t)
    refine ⟨db, ?_, j1⟩
    rw [run_cons, run_append]
    simp only [step, run_cons, run]
    rw [push_notDoc o locals (f :: t) ho]
    have : List.foldl step ({ macros := locals, lets := [], cats := cats (f :: t), obj := o } :: f :: t) body =
        fb :: shape db (f :: t) := h1
    rw [this]
    simp only [List.foldl]
    exact pop_own_frame o o' fb _ e1 hcl (shape_ne_nil db (f :: t) (by simp))

/-- non-vacuity: `{ \def\a{..} \catcode`\@=11 \let\b=x  \undefined \gdef\d{..} \global\let\e\a \global\let\f=y }` -/
example : Balanced [Op.push none [], .addLocal 1 (.defn 5), .setCat 64 11, .letTok 2 120, .lookup 3, .gdef 4 (.defn 9),
    .gletCs 5 1, .gletTok 6 121, .pop none] :=
  .group none none [] _ [] rfl rfl (.op _ _ rfl (.op _ _ rfl (.op _ _ rfl (.op _ _ rfl (.op _ _ rfl (.op _ _ rfl (.op _ _ rfl .nil))))))) .nil

/-- non-vacuity for object frames: `\\begin{foo}` (object 1) is closed by its `\\end{foo}` instance (object 3: same class,
    end mode), and a `\\bar` frame by a macro named `\\endbar` -/
example : closes (some ⟨1, 0, 1, false, [102, 111, 111], false⟩) (some ⟨3, 0, 1, true, [102, 111, 111], false⟩) = true ∧
    closes (some ⟨2, 1, 2, false, [98, 97, 114], false⟩) (some ⟨4, 0, 4, false, [101, 110, 100, 98, 97, 114], false⟩) = true := by
  decide

/-- **The stack is balanced**: after any balanced history the depth is what it was. -/
theorem depth_balanced (ops : List Op) (hb : Balanced ops) (c : Ctx) (hc : c ≠ []) :
    (run ops c).length = c.length := by
  cases c with
  | nil => exact absurd rfl hc
  | cons f t =>
    obtain ⟨f', d, h, _, _⟩ := balanced_frame hb f t
    rw [h]; simp [shape_length]

/-- **Category codes are local**: after the group every character has the category it had before. -/
theorem catcode_local (o o' : Option ObjRef) (locals : List (Nat × Val)) (body : List Op)
    (hb : Balanced body) (ho : notDoc o = true) (hcl : closes o o' = true) (c : Ctx) (hc : c ≠ []) (ch : Nat) :
    whichCodeCtx (run (Op.push o locals :: (body ++ [Op.pop o'])) c) ch = whichCodeCtx c ch := by
  obtain ⟨d, h, _⟩ := group_restores o o' locals body hb ho hcl c hc
  rw [h, whichCodeCtx, cats_shape]; rfl

/-- **`\let` aliases of tokens are local**: a name that the body does not `\global\let` is, after the group, an alias
    of exactly the token it was an alias of before — whatever local `\let`s the body made at any depth. -/
theorem let_local (o o' : Option ObjRef) (locals : List (Nat × Val)) (body : List Op)
    (hb : Balanced body) (ho : notDoc o = true) (hcl : closes o o' = true) (c : Ctx) (hc : c ≠ []) (n : Nat)
    (hn : ∀ op ∈ body, isGlet n op = false) :
    getLet n (run (Op.push o locals :: (body ++ [Op.pop o'])) c) = getLet n c := by
  obtain ⟨d, h, hj⟩ := group_restores o o' locals body hb ho hcl c hc
  rw [h]
  apply getLet_shape
  · intro x hx hxn
    obtain ⟨op, hop, hs⟩ := hj.2.2.1 x hx
    rw [hxn, hn op hop] at hs
    exact Bool.false_ne_true hs
  · intro hmem
    obtain ⟨op, hop, hs⟩ := hj.2.2.2 n hmem
    rw [hn op hop] at hs
    exact Bool.false_ne_true hs

/-- **Definitions are local**: a name that the body neither assigns globally nor looks up while
    undefined means after the group exactly what it meant before — whatever local definitions,
    aliases or redefinitions of it the body made at any depth. -/
theorem def_local (o o' : Option ObjRef) (locals : List (Nat × Val)) (body : List Op)
    (hb : Balanced body) (ho : notDoc o = true) (hcl : closes o o' = true) (c : Ctx) (hc : c ≠ []) (n : Nat)
    (hn : ∀ op ∈ body, globalSource n op = false ∧ isGdef n op = false) :
    find n (run (Op.push o locals :: (body ++ [Op.pop o'])) c) = find n c := by
  obtain ⟨d, h, hj⟩ := group_restores o o' locals body hb ho hcl c hc
  rw [h]
  apply find_shape
  · intro x hx hxn
    obtain ⟨op, hop, hsrc⟩ := hj.1 x hx
    rw [hxn, (hn op hop).1] at hsrc
    exact Bool.false_ne_true hsrc
  · intro hmem
    obtain ⟨op, hop, hg⟩ := hj.2.1 n hmem
    rw [(hn op hop).2] at hg
    exact Bool.false_ne_true hg

/-- **Global definitions survive**: once `n` is defined globally, no later history that does not
    itself write `n` — in particular no closing of groups, however many — changes its global meaning. -/
theorem gdef_survives (n : Nat) (v : Val) (ops : List Op) (c : Ctx) (hc : c ≠ [])
    (ht : ∀ op ∈ ops, touches n op = false) :
    findGlobal n (run (Op.addGlobal n v :: ops) c) = some v := by
  rw [run_cons]
  simp only [step]
  rw [findGlobal_run n ops (addGlobal n v c) (modifyGlobal_ne_nil _ c hc) ht]
  exact findGlobal_addGlobal_same n v c hc

example : findGlobal 1 (run [Op.push none [], .addGlobal 1 (.defn 7), .addLocal 2 (.defn 8), .pop none] init) = some (.defn 7) := by
  decide

/-- **A `\\gdef` replaces the meaning at every group level**: right after `\\gdef\\n`, at any depth and
    whatever local definitions of `n` the enclosing groups had made, `n` means the new definition — and
    (by `gdef_survives`) it still does after all those groups have closed. -/
theorem gdef_replaces_every_level (n : Nat) (v : Val) (c : Ctx) (hc : c ≠ []) :
    find n (step c (.gdef n v)) = some v ∧ findGlobal n (step c (.gdef n v)) = some v := by
  refine ⟨find_defGlobal n v c hc, ?_⟩
  simp only [step, defGlobal]
  exact findGlobal_addGlobal_same n v _ (dropLocalsL_ne_nil [n] c hc)

example : find 1 (run [Op.push none [], .addLocal 1 (.defn 5), .push none [], .gdef 1 (.defn 7), .pop none] init)
    = some (.defn 7) := by decide

/-- **A `\\global\\let` replaces the meaning at every group level**: right after `\\global\\let\\d=\\s`, at any depth and
    whatever local definitions of `d` the enclosing groups had made, `d` means what `\\s` meant — also in the global frame,
    where (by `glet_survives`) it stays after all those groups have closed. -/
theorem glet_replaces_every_level (d s : Nat) (c : Ctx) (hc : c ≠ []) :
    find d (step c (.gletCs d s)) = some (lookup s c).1 ∧ findGlobal d (step c (.gletCs d s)) = some (lookup s c).1 := by
  refine ⟨find_letGlobalCs d s c hc, ?_⟩
  simp only [step, letGlobalCs, lookup]
  split
  · exact findGlobal_addGlobal_same d _ _ (dropLetsL_ne_nil _ _ (dropLocalsL_ne_nil [d] c hc))
  · exact findGlobal_addGlobal_same d _ _ (dropLetsL_ne_nil _ _ (dropLocalsL_ne_nil [d] _ (modifyGlobal_ne_nil _ c hc)))

/-- … and that global meaning survives any later history that does not itself write `d`. -/
theorem glet_survives (d s : Nat) (ops : List Op) (c : Ctx) (hc : c ≠ [])
    (ht : ∀ op ∈ ops, touches d op = false) :
    findGlobal d (run (Op.gletCs d s :: ops) c) = some (lookup s c).1 := by
  rw [run_cons, findGlobal_run d ops _ (step_ne_nil c _ hc) ht]
  exact (glet_replaces_every_level d s c hc).2

example : find 1 (run [Op.addGlobal 2 (.defn 8), .push none [], .addLocal 1 (.defn 5), .push none [], .gletCs 1 2, .pop none] init)
    = some (.defn 8) ∧
    find 1 (run [Op.addGlobal 2 (.defn 8), .push none [], .addLocal 1 (.defn 5), .push none [], .gletCs 1 2, .pop none, .pop none] init)
    = some (.defn 8) := by decide

/-- **Lookup yields the innermost live definition**: a binding in the top frame wins over
    anything below; otherwise the search continues in the enclosing frames. -/
theorem lookup_innermost (n : Nat) (f : Frame) (c : Ctx) :
    find n (f :: c) = match f.macros.lookup n with
      | some v => some v
      | none => find n c := rfl

/-- … and the global frame is consulted last: a global definition is shadowed by any local one. -/
theorem local_shadows_global (n : Nat) (v w : Val) (f : Frame) (c : Ctx) (hc : c ≠ []) :
    find n (addLocal n v (addGlobal n w (f :: c))) = some v := by
  rw [addGlobal, modifyGlobal_cons_ne _ f c hc]
  simp [addLocal, modifyTop, find, List.lookup]

/-- **Closing a group pops exactly the frame its opening pushed** (none of the four matching
    rules of `pop` fires on a foreign frame in a balanced history). -/
theorem pop_obj_exact (o o' : Option ObjRef) (locals : List (Nat × Val)) (body : List Op)
    (hb : Balanced body) (ho : notDoc o = true) (hcl : closes o o' = true) (c : Ctx) (hc : c ≠ []) :
    ∃ fb, run (Op.push o locals :: body) c = fb :: (pop o' (run (Op.push o locals :: body) c)) ∧ fb.obj = o := by
  cases c with
  | nil => exact absurd rfl hc
  | cons f t =>
    obtain ⟨fb, db, h1, e1, _⟩ :=
      balanced_frame hb { macros := locals, lets := [], cats := cats (f :: t), obj := o } (f :: t)
    refine ⟨fb, ?_, e1⟩
    rw [run_cons]
    simp only [step]
    rw [push_notDoc o locals (f :: t) ho, h1, pop_own_frame o o' fb _ e1 hcl (shape_ne_nil db (f :: t) (by simp))]

end PlasVerif.Properties.C04
